#include "cfgmodel.h"
#include "env.h"
#include "simbus.h"
#include <stdio.h>
#include <stdlib.h>
#include <string.h>
#include "include/definitions/bidib_messages.h"

static void set_uid(cm_board_t *b, const uint8_t u[7]) { memcpy(b->uid, u, 7); }
static cm_aspect_t asp(const char *id, uint8_t v) { cm_aspect_t a; memset(&a, 0, sizeof a); snprintf(a.id, sizeof a.id, "%s", id); a.value = v; return a; }
static cm_dccaspect_t dasp(const char *id, int n, uint8_t p0, uint8_t v0, uint8_t p1, uint8_t v1) {
	cm_dccaspect_t a; memset(&a, 0, sizeof a); snprintf(a.id, sizeof a.id, "%s", id); a.nports = n; a.ports[0].port = p0; a.ports[0].value = v0; a.ports[1].port = p1; a.ports[1].value = v1; return a; }

void cm_std(cm_model_t *m) {
	memset(m, 0, sizeof *m);
	static const uint8_t u0[7] = {0xDA, 0x00, 0x0D, 0x68, 0x00, 0x01, 0xEE}, u1[7] = {0x45, 0x00, 0x0D, 0x8D, 0x00, 0xC1, 0xF1},
		u2[7] = {0x45, 0x00, 0x0D, 0x6B, 0x00, 0x87, 0xEC}, u3[7] = {0x12, 0x00, 0x0D, 0x67, 0x00, 0xEA, 0xEB};
	m->nb = 4;
	cm_board_t *b = &m->b[0]; snprintf(b->id, sizeof b->id, "master"); set_uid(b, u0); b->present = 1; b->parent = -1; b->in_track = 1;
	b->nfeatures = 2; b->features[0] = (cm_feature_t) {0x03, 0x14}; b->features[1] = (cm_feature_t) {0x6E, 0x00};
	b->npd = 1; snprintf(b->pd[0].id, 24, "pointd"); b->pd[0].addrl = 0x22; b->pd[0].addrh = 0x11; b->pd[0].extended = 0; b->pd[0].naspects = 2;
	b->pd[0].aspects[0] = dasp("normal", 2, 0, 1, 1, 0); b->pd[0].aspects[1] = dasp("reverse", 2, 0, 0, 1, 1); snprintf(b->pd[0].initial, 24, "normal");
	b->nsd = 1; snprintf(b->sd[0].id, 24, "signald"); b->sd[0].addrl = 0x23; b->sd[0].addrh = 0x11; b->sd[0].extended = 1; b->sd[0].naspects = 2;
	b->sd[0].aspects[0] = dasp("stop", 1, 0, 0, 0, 0); b->sd[0].aspects[1] = dasp("go", 1, 1, 1, 0, 0);
	b->nseg = 3; snprintf(b->seg[0].id, 24, "seg1"); b->seg[0].addr = 0; snprintf(b->seg[1].id, 24, "seg2"); b->seg[1].addr = 1; snprintf(b->seg[2].id, 24, "seg3"); b->seg[2].addr = 9;
	for (int i = 0; i < 3; i++) snprintf(b->seg[i].length, 16, "%d.0cm", 10 * (i + 1));
	b->nrev = 1; snprintf(b->rev[0].id, 24, "rev1"); snprintf(b->rev[0].cv, 12, "30051");

	b = &m->b[1]; snprintf(b->id, sizeof b->id, "oc1"); set_uid(b, u1); b->present = 1; b->parent = -1; b->local = 1; b->in_track = 1;
	b->nfeatures = 1; b->features[0] = (cm_feature_t) {0x03, 0x00};
	b->npb = 2; snprintf(b->pb[0].id, 24, "point1"); b->pb[0].number = 2; b->pb[0].naspects = 2; b->pb[0].aspects[0] = asp("normal", 1); b->pb[0].aspects[1] = asp("reverse", 0); snprintf(b->pb[0].initial, 24, "normal");
	snprintf(b->pb[1].id, 24, "point2"); b->pb[1].number = 3; b->pb[1].naspects = 2; b->pb[1].aspects[0] = asp("normal", 1); b->pb[1].aspects[1] = asp("reverse", 0);
	b->nseg = 1; snprintf(b->seg[0].id, 24, "seg4"); b->seg[0].addr = 0; snprintf(b->seg[0].length, 16, "5.0cm");

	b = &m->b[2]; snprintf(b->id, sizeof b->id, "lc1"); set_uid(b, u2); b->present = 1; b->parent = -1; b->local = 2; b->in_track = 1;
	b->nsb = 1; snprintf(b->sb[0].id, 24, "signal1"); b->sb[0].number = 0x10; b->sb[0].naspects = 2; b->sb[0].aspects[0] = asp("green", 2); b->sb[0].aspects[1] = asp("red", 0); snprintf(b->sb[0].initial, 24, "red");
	b->nper = 2; snprintf(b->per[0].id, 24, "led1"); b->per[0].number = 0; b->per[0].port0 = 0x23; b->per[0].port1 = 0x01; b->per[0].naspects = 2; b->per[0].aspects[0] = asp("off", 0); b->per[0].aspects[1] = asp("on", 1); snprintf(b->per[0].initial, 24, "on");
	snprintf(b->per[1].id, 24, "led2"); b->per[1].number = 1; b->per[1].port0 = 0x24; b->per[1].port1 = 0x01; b->per[1].naspects = 2; b->per[1].aspects[0] = asp("off", 0); b->per[1].aspects[1] = asp("on", 1);

	b = &m->b[3]; snprintf(b->id, sizeof b->id, "booster2"); set_uid(b, u3); b->present = 1; b->parent = -1; b->local = 3; b->in_track = 0;

	m->nt = 2;
	cm_train_t *t = &m->t[0]; snprintf(t->id, 24, "train1"); t->addrl = 0x23; t->addrh = 0x01; t->steps = 126; t->ncal = 9;
	for (int i = 0; i < 9; i++) t->cal[i] = 5 + i * 15;
	t->nper = 3; snprintf(t->per[0].id, 24, "head_light"); t->per[0].bit = 4; t->per[0].has_initial = 1; t->per[0].initial = 1;
	snprintf(t->per[1].id, 24, "cabin_light"); t->per[1].bit = 0; t->per[1].has_initial = 1; t->per[1].initial = 0;
	snprintf(t->per[2].id, 24, "horn"); t->per[2].bit = 9;
	t = &m->t[1]; snprintf(t->id, 24, "train2"); t->addrl = 0x02; t->addrh = 0x03; t->steps = 28; t->nper = 1; snprintf(t->per[0].id, 24, "light"); t->per[0].bit = 4;
}
void cm_add_function_train(cm_model_t *m) {
	cm_train_t *t = &m->t[m->nt++]; memset(t, 0, sizeof *t); snprintf(t->id, 24, "train3"); t->addrl = 0x45; t->addrh = 0x00; t->steps = 126;
	for (int bit = 0; bit < 32; bit++) { if (bit >= 5 && bit <= 7) continue; cm_tper_t *p = &t->per[t->nper++]; snprintf(p->id, 24, "f%d", bit); p->bit = (uint8_t) bit; }
}
int cm_is_track_output(const cm_board_t *b) { return (b->uid[0] & (1 << 4)) != 0; }
int cm_is_booster(const cm_board_t *b) { return (b->uid[0] & (1 << 1)) != 0; }
int cm_board_connected(const cm_model_t *m, int bi) { while (bi >= 0) { if (!m->b[bi].present) return 0; bi = m->b[bi].parent; } return 1; }
void cm_board_addr(const cm_model_t *m, int bi, uint8_t addr[4]) {
	uint8_t path[4]; int n = 0; memset(addr, 0, 4);
	while (bi > 0 && n < 3) { path[n++] = m->b[bi].local; if (m->b[bi].parent < 0 && m->b[bi].hub_local && n < 3) path[n++] = m->b[bi].hub_local; bi = m->b[bi].parent < 0 ? 0 : m->b[bi].parent; }
	for (int i = 0; i < n; i++) addr[i] = path[n - 1 - i];
}
int cm_find_board(const cm_model_t *m, const char *id) { for (int i = 0; i < m->nb; i++) if (!strcmp(m->b[i].id, id)) return i; return -1; }
const cm_train_t *cm_train(const cm_model_t *m, const char *id) { for (int i = 0; i < m->nt; i++) if (!strcmp(m->t[i].id, id)) return &m->t[i]; return NULL; }

#define AP(buf, ...) do { size_t _l = strlen(buf); snprintf(buf + _l, sizeof(buf) - _l, __VA_ARGS__); } while (0)
static void emit_bacc(char *out, size_t n, const char *section, const cm_bacc_t *a, int cnt) {
	if (!cnt) return; size_t l = strlen(out); l += (size_t) snprintf(out + l, n - l, "    %s:\n", section);
	for (int i = 0; i < cnt; i++) {
		l += (size_t) snprintf(out + l, n - l, "      - id: %s\n        number: 0x%02x\n        aspects:\n", a[i].id, a[i].number);
		for (int k = 0; k < a[i].naspects; k++) l += (size_t) snprintf(out + l, n - l, "          - id: %s\n            value: 0x%02x\n", a[i].aspects[k].id, a[i].aspects[k].value);
		if (a[i].initial[0]) l += (size_t) snprintf(out + l, n - l, "        initial: %s\n", a[i].initial);
	}
}
static void emit_dacc(char *out, size_t n, const char *section, const cm_dacc_t *a, int cnt) {
	if (!cnt) return; size_t l = strlen(out); l += (size_t) snprintf(out + l, n - l, "    %s:\n", section);
	for (int i = 0; i < cnt; i++) {
		l += (size_t) snprintf(out + l, n - l, "      - id: %s\n        dcc-address: 0x%02x%02x\n        extended: 0x%02x\n        aspects:\n", a[i].id, a[i].addrh, a[i].addrl, a[i].extended);
		for (int k = 0; k < a[i].naspects; k++) {
			l += (size_t) snprintf(out + l, n - l, "          - id: %s\n            ports:\n", a[i].aspects[k].id);
			for (int p = 0; p < a[i].aspects[k].nports; p++) l += (size_t) snprintf(out + l, n - l, "              - port: 0x%02x\n                value: 0x%02x\n", a[i].aspects[k].ports[p].port, a[i].aspects[k].ports[p].value);
		}
		if (a[i].initial[0]) l += (size_t) snprintf(out + l, n - l, "        initial: %s\n", a[i].initial);
	}
}
void cm_emit(cm_model_t *m) {
	m->board_txt[0] = m->track_txt[0] = m->train_txt[0] = 0;
	if (m->nb == 0) AP(m->board_txt, "boards: []\n"); else AP(m->board_txt, "boards:\n");
	for (int i0 = 0; i0 < m->nb; i0++) { int i = (m->reverse_boards & 1) ? m->nb - 1 - i0 : i0;
		const cm_board_t *b = &m->b[i];
		AP(m->board_txt, "  - id: %s\n    unique-id: 0x%02X%02X%02X%02X%02X%02X%02X\n", b->id, b->uid[0], b->uid[1], b->uid[2], b->uid[3], b->uid[4], b->uid[5], b->uid[6]);
		if (b->nfeatures) { AP(m->board_txt, "    features:\n"); for (int k = 0; k < b->nfeatures; k++) AP(m->board_txt, "      - number: 0x%02x\n        value: 0x%02x\n", b->features[k].number, b->features[k].value); }
	}
	int any = 0; for (int i = 0; i < m->nb; i++) if (m->b[i].in_track) any = 1;
	if (!any) AP(m->track_txt, "boards: []\n"); else AP(m->track_txt, "boards:\n");
	for (int i0 = 0; i0 < m->nb; i0++) { int i = ((m->reverse_boards & 1) ^ (m->reverse_boards >> 1 & 1)) ? m->nb - 1 - i0 : i0;      /* 1: both files reversed, 2: track file only, 3: board file only */
		const cm_board_t *b = &m->b[i]; if (!b->in_track) continue;
		AP(m->track_txt, "  - id: %s\n", b->id);
		emit_bacc(m->track_txt, sizeof m->track_txt, "points-board", b->pb, b->npb);
		emit_dacc(m->track_txt, sizeof m->track_txt, "points-dcc", b->pd, b->npd);
		emit_bacc(m->track_txt, sizeof m->track_txt, "signals-board", b->sb, b->nsb);
		emit_dacc(m->track_txt, sizeof m->track_txt, "signals-dcc", b->sd, b->nsd);
		if (b->nper) { AP(m->track_txt, "    peripherals:\n"); for (int k = 0; k < b->nper; k++) { const cm_periph_t *p = &b->per[k];
			AP(m->track_txt, "      - id: %s\n        number: 0x%02x\n        port: 0x%02x%02x\n        aspects:\n", p->id, p->number, p->port1, p->port0);
			for (int a = 0; a < p->naspects; a++) AP(m->track_txt, "          - id: %s\n            value: 0x%02x\n", p->aspects[a].id, p->aspects[a].value);
			if (p->initial[0]) AP(m->track_txt, "        initial: %s\n", p->initial); } }
		if (b->nseg) { AP(m->track_txt, "    segments:\n"); for (int k = 0; k < b->nseg; k++) AP(m->track_txt, "      - id: %s\n        address: 0x%02x\n        length: %s\n", b->seg[k].id, b->seg[k].addr, b->seg[k].length[0] ? b->seg[k].length : "1.0cm"); }
		if (b->nrev) { AP(m->track_txt, "    reversers:\n"); for (int k = 0; k < b->nrev; k++) AP(m->track_txt, "      - id: %s\n        cv: %s\n", b->rev[k].id, b->rev[k].cv); }
	}
	if (m->nt == 0) AP(m->train_txt, "trains: []\n"); else AP(m->train_txt, "trains:\n");
	for (int i = 0; i < m->nt; i++) {
		const cm_train_t *t = &m->t[i];
		AP(m->train_txt, "  - id: %s\n    dcc-address: 0x%02x%02x\n    dcc-speed-steps: %d\n", t->id, t->addrh, t->addrl, t->steps);
		if (t->cal_form == 1) AP(m->train_txt, "    calibration: 120\n");
		else if (t->cal_form == 2) AP(m->train_txt, "    calibration:\n");
		else if (t->cal_form == 3) AP(m->train_txt, "    calibration: 120\n    weight: 100g\n");
		else if (t->ncal) { AP(m->train_txt, "    calibration:\n"); for (int k = 0; k < t->ncal; k++) AP(m->train_txt, "      - %d\n", t->cal[k]); }
		if (t->nper) { AP(m->train_txt, "    peripherals:\n"); for (int k = 0; k < t->nper; k++) { AP(m->train_txt, "      - id: %s\n        bit: %d\n", t->per[k].id, t->per[k].bit); if (t->per[k].has_initial) AP(m->train_txt, "        initial: %d\n", t->per[k].initial); } }
	}
	if (m->num_style) { char *txt[3] = {m->board_txt, m->track_txt, m->train_txt};
		/* exactly two hex digits = a byte-sized value; unique ids (14 digits), DCC addresses and ports (4 digits) stay hexadecimal */
		for (int f = 0; f < 3; f++) { char *w = txt[f];
			for (char *c = txt[f]; *c; ) {
				int h1, h2; 
				#define HX(ch) ((ch) >= '0' && (ch) <= '9' ? (ch) - '0' : (ch) >= 'a' && (ch) <= 'f' ? (ch) - 'a' + 10 : (ch) >= 'A' && (ch) <= 'F' ? (ch) - 'A' + 10 : -1)
				if (c[0] == '0' && c[1] == 'x' && (h1 = HX(c[2])) >= 0 && (h2 = HX(c[3])) >= 0 && HX(c[4]) < 0 && (c == txt[f] || c[-1] == ' ')) {
					w += sprintf(w, m->num_style == 2 ? "%03d" : "%d", h1 * 16 + h2); c += 4; }
				else *w++ = *c++;
			}
			*w = 0; } }
	if (m->hex_case) { char *txt[3] = {m->board_txt, m->track_txt, m->train_txt};
		for (int f = 0; f < 3; f++) for (char *c = txt[f]; *c; c++) if (c[0] == '0' && c[1] == 'x') { for (c += 2; (*c >= '0' && *c <= '9') || (*c >= 'a' && *c <= 'f') || (*c >= 'A' && *c <= 'F'); c++) { if (m->hex_case == 1 && *c >= 'a' && *c <= 'f') *c -= 32; if (m->hex_case == 2 && *c >= 'A' && *c <= 'F') *c += 32; } c--; } }
}
void cm_install(cm_model_t *m) {
	cm_emit(m);
	env_set_cfg(m->board_txt, m->track_txt, m->train_txt);
	sb_init();
	if (m->nb > 0) { memcpy(SB.n[0].uid, m->b[0].uid, 7); m->b[0].sbnode = 0; }
	for (int pass = 0; pass < 3; pass++) for (int i = 1; i < m->nb; i++) {
		cm_board_t *b = &m->b[i]; if (pass == 0) b->sbnode = -1;
		if (b->sbnode >= 0) continue;
		int p = b->parent < 0 ? 0 : m->b[b->parent].sbnode; if (p < 0) continue;
		if (b->parent < 0 && b->hub_local) {      /* an interface node the configuration does not know */
			static const uint8_t hub_uid[7] = {0x80, 0x00, 0x0D, 0x77, 0x00, 0x48, 0x55}; uint8_t ha[4] = {b->hub_local, 0, 0, 0};
			int hub = sb_find(ha); if (hub < 0) hub = sb_add_node(0, b->hub_local, hub_uid); if (hub < 0) continue; p = hub; }
		b->sbnode = sb_add_node(p, b->local, b->uid);
		if (b->sbnode >= 0) SB.n[b->sbnode].present = b->present;
	}
}

/* ---------------------------------------------------------------- reference encoders */
static int dcc_format(int steps) { return steps == 28 ? 2 : steps == 126 ? 3 : 0; }
int cm_ref_board_accessory(const cm_model_t *m, int is_point, const char *id, const char *aspect, cm_msg_t *out) {
	for (int bi = 0; bi < m->nb; bi++) { const cm_board_t *b = &m->b[bi]; if (!b->in_track) continue;
		const cm_bacc_t *a = is_point ? b->pb : b->sb; int n = is_point ? b->npb : b->nsb;
		for (int i = 0; i < n; i++) if (!strcmp(a[i].id, id)) {
			if (!cm_board_connected(m, bi)) return 0;
			for (int k = 0; k < a[i].naspects; k++) if (!strcmp(a[i].aspects[k].id, aspect)) {
				cm_board_addr(m, bi, out->addr); out->type = MSG_ACCESSORY_SET; out->data[0] = a[i].number; out->data[1] = a[i].aspects[k].value; out->dlen = 2; return 1; }
			return 0;
		} }
	return -1;   /* not a board accessory */
}
int cm_ref_dcc_accessory(const cm_model_t *m, int is_point, const char *id, const char *aspect, cm_msg_t *out) {
	for (int bi = 0; bi < m->nb; bi++) { const cm_board_t *b = &m->b[bi]; if (!b->in_track) continue;
		const cm_dacc_t *a = is_point ? b->pd : b->sd; int n = is_point ? b->npd : b->nsd;
		for (int i = 0; i < n; i++) if (!strcmp(a[i].id, id)) {
			if (!cm_board_connected(m, bi)) return 0;
			for (int k = 0; k < a[i].naspects; k++) if (!strcmp(a[i].aspects[k].id, aspect)) {
				for (int p = 0; p < a[i].aspects[k].nports; p++) {
					cm_board_addr(m, bi, out[p].addr); out[p].type = MSG_CS_ACCESSORY; out[p].data[0] = a[i].addrl; out[p].data[1] = a[i].addrh;
					out[p].data[2] = (uint8_t) ((a[i].aspects[k].ports[p].port & 0x1F) | (a[i].aspects[k].ports[p].value << 5) | (a[i].extended << 7)); out[p].data[3] = 0; out[p].dlen = 4; }
				return a[i].aspects[k].nports; }
			return 0;
		} }
	return -1;
}
int cm_ref_peripheral(const cm_model_t *m, const char *id, const char *aspect, cm_msg_t *out) {
	for (int bi = 0; bi < m->nb; bi++) { const cm_board_t *b = &m->b[bi]; if (!b->in_track) continue;
		for (int i = 0; i < b->nper; i++) if (!strcmp(b->per[i].id, id)) {
			if (!cm_board_connected(m, bi)) return 0;
			for (int k = 0; k < b->per[i].naspects; k++) if (!strcmp(b->per[i].aspects[k].id, aspect)) {
				cm_board_addr(m, bi, out->addr); out->type = MSG_LC_OUTPUT; out->data[0] = b->per[i].port0; out->data[1] = b->per[i].port1; out->data[2] = b->per[i].aspects[k].value; out->dlen = 3; return 1; }
			return 0;
		} }
	return 0;
}
int cm_ref_train_speed(const cm_model_t *m, const char *train, int speed, const char *track_output, int fwd_if_zero, cm_msg_t *out) {
	const cm_train_t *t = cm_train(m, train); int bi = cm_find_board(m, track_output);
	if (!t || bi < 0 || !cm_board_connected(m, bi) || !cm_is_track_output(&m->b[bi]) || speed < -126 || speed > 126) return 0;
	int fwd = speed > 0 ? 1 : speed < 0 ? 0 : fwd_if_zero; int mag = abs(speed);
	cm_board_addr(m, bi, out->addr); out->type = MSG_CS_DRIVE; out->dlen = 9; memset(out->data, 0, sizeof out->data);
	out->data[0] = t->addrl; out->data[1] = t->addrh; out->data[2] = (uint8_t) dcc_format(t->steps); out->data[3] = 0x01;
	out->data[4] = (uint8_t) ((fwd << 7) | (mag == 0 ? 0 : mag + 1));
	return 1;
}
int cm_ref_train_peripheral(const cm_model_t *m, const char *train, const char *periph, int state, const char *track_output, uint32_t fb, cm_msg_t *out) {
	const cm_train_t *t = cm_train(m, train); int bi = cm_find_board(m, track_output);
	if (!t || bi < 0 || !cm_board_connected(m, bi) || !cm_is_track_output(&m->b[bi]) || state < 0 || state > 1) return 0;
	for (int i = 0; i < t->nper; i++) if (!strcmp(t->per[i].id, periph)) {
		int bit = t->per[i].bit; uint32_t group; uint8_t active;
		if (bit < 5) { group = 0x0000001Fu; active = 1 << 1; } else if (bit >= 8 && bit < 12) { group = 0x00000F00u; active = 1 << 2; }
		else if (bit >= 12 && bit < 16) { group = 0x0000F000u; active = 1 << 3; } else if (bit >= 16 && bit < 24) { group = 0x00FF0000u; active = 1 << 4; }
		else if (bit >= 24) { group = 0xFF000000u; active = 1 << 5; } else return -1;   /* bits 5..7 are not function slots: unspecified */
		uint32_t v = (fb & group & ~(1u << bit)) | ((uint32_t) state << bit);
		/* only configured functions of the group can be set */
		cm_board_addr(m, bi, out->addr); out->type = MSG_CS_DRIVE; out->dlen = 9; memset(out->data, 0, sizeof out->data);
		out->data[0] = t->addrl; out->data[1] = t->addrh; out->data[2] = (uint8_t) dcc_format(t->steps); out->data[3] = active; out->data[4] = 0;
		out->data[5] = (uint8_t) (v & 0xFF); out->data[6] = (uint8_t) ((v >> 8) & 0xFF); out->data[7] = (uint8_t) ((v >> 16) & 0xFF); out->data[8] = (uint8_t) (v >> 24);
		return 1;
	}
	return 0;
}
