#include "src/transmission/bidib_transmission_node_states.c"
#include "vx.h"
#include <stdio.h>
static int cmp_state(const void *a, const void *b) {
	const t_bidib_node_state *x = *(t_bidib_node_state *const *) a, *y = *(t_bidib_node_state *const *) b;
	return memcmp(x->addr, y->addr, 4);
}
int vx_node_count(void) { return node_state_table ? (int) g_hash_table_size(node_state_table) : -1; }
static t_bidib_node_state *vx_lookup(const uint8_t addr[4]) {
	return node_state_table ? g_hash_table_lookup(node_state_table, addr) : NULL;
}
int vx_node_info(const uint8_t addr[4], vx_node_info_t *out) {
	t_bidib_node_state *s = vx_lookup(addr);
	if (!s) return 0;
	out->recv_seq = s->receive_seqnum; out->send_seq = s->send_seqnum; out->stall = s->stall;
	out->used = s->current_max_respond; out->n_outstanding = (int) g_queue_get_length(s->response_queue);
	out->n_deferred = (int) g_queue_get_length(s->message_queue);
	out->n_waiters = (int) g_queue_get_length(s->stall_affected_nodes_queue);
	return 1;
}
size_t vx_dump_nodes(char *buf, size_t n, long now_sec) {
	size_t o = 0;
	if (!node_state_table) return (size_t) snprintf(buf, n, "nodes=NULL;");
	t_bidib_node_state *arr[256]; int k = 0;
	GHashTableIter it; gpointer key, val;
	g_hash_table_iter_init(&it, node_state_table);
	while (g_hash_table_iter_next(&it, &key, &val) && k < 256) arr[k++] = val;
	qsort(arr, (size_t) k, sizeof arr[0], cmp_state);
	for (int i = 0; i < k && o + 2000 < n; i++) {
		t_bidib_node_state *s = arr[i];
		o += (size_t) snprintf(buf + o, n - o, "N%02x%02x%02x%02x r%u s%u st%d used%d out[", (uint8_t) s->addr[0], (uint8_t) s->addr[1],
		                       (uint8_t) s->addr[2], (uint8_t) s->addr[3], s->receive_seqnum, s->send_seqnum, s->stall, s->current_max_respond);
		for (GList *l = s->response_queue->head; l && o + 64 < n; l = l->next) {
			t_bidib_response_queue_entry *e = l->data;
			long age = now_sec - (long) e->creation_time;
			o += (size_t) snprintf(buf + o, n - o, "%02x@%ld,", e->type, age >= 2 ? 2 : age);
		}
		o += (size_t) snprintf(buf + o, n - o, "] def[");
		for (GList *l = s->message_queue->head; l && o + 600 < n; l = l->next) {
			t_bidib_message_queue_entry *e = l->data;
			for (int j = 0; j <= e->message[0] && o + 8 < n; j++) o += (size_t) snprintf(buf + o, n - o, "%02x", e->message[j]);
			o += (size_t) snprintf(buf + o, n - o, ",");
		}
		o += (size_t) snprintf(buf + o, n - o, "] wait[");
		for (GList *l = s->stall_affected_nodes_queue->head; l && o + 64 < n; l = l->next) {
			t_bidib_stall_queue_entry *e = l->data;
			o += (size_t) snprintf(buf + o, n - o, "%02x%02x%02x%02x,", e->addr[0], e->addr[1], e->addr[2], e->addr[3]);
		}
		o += (size_t) snprintf(buf + o, n - o, "];");
	}
	return o;
}
int vx_node_deferred(const uint8_t addr[4], uint8_t *types, int max) {
	t_bidib_node_state *s = vx_lookup(addr);
	if (!s) return 0;
	int k = 0;
	for (GList *l = s->message_queue->head; l && k < max; l = l->next) types[k++] = ((t_bidib_message_queue_entry *) l->data)->type;
	return k;
}
