#ifndef SANHOOKS_H
#define SANHOOKS_H
#include <stdint.h>
#define SAN_MAXPC 20
typedef struct { char kind[64]; int is_write; int size; uintptr_t addr; uintptr_t pcs[SAN_MAXPC]; int npcs; } san_event_t;
int san_count(void);
int san_nevents(void);
const san_event_t *san_event(int i);
void san_reset(void);
void san_tsan_ignore(int on);
extern void (*san_fatal_cb)(const san_event_t *e);
#endif
