#define _GNU_SOURCE
#include "hx.h"
#include <pthread.h>
#include <stdio.h>
#include <stdlib.h>
#include <string.h>

int bidib_start_pointer(uint8_t (*read)(int *), void (*write_n)(uint8_t *, int32_t), const char *config_dir, unsigned int flush_interval);
void bidib_set_lowlevel_debug_mode(_Bool on);

extern pthread_rwlock_t bidib_trains_rwlock, bidib_boards_rwlock;
extern pthread_mutex_t trackstate_accessories_mutex, trackstate_peripherals_mutex, trackstate_segments_mutex,
	trackstate_reversers_mutex, trackstate_trains_mutex, trackstate_boosters_mutex, trackstate_track_outputs_mutex,
	bidib_node_state_table_mutex, bidib_send_buffer_mutex, bidib_uplink_queue_mutex, bidib_uplink_error_queue_mutex,
	bidib_uplink_intern_queue_mutex, bidib_action_id_mutex, bidib_send_order_mutex __attribute__((weak));

void hx_hash_init(hx_hash_t *h) { h->a = 1469598103934665603ull; h->b = 0x9E3779B97F4A7C15ull; }
void hx_hash_add(hx_hash_t *h, const void *p, size_t n) {
	const uint8_t *s = p;
	for (size_t i = 0; i < n; i++) {
		h->a = (h->a ^ s[i]) * 1099511628211ull;
		h->b = (h->b + s[i] + 0x7F) * 0xD6E8FEB86659FD93ull; h->b ^= h->b >> 29;
	}
}
void hx_hash_str(hx_hash_t *h, const char *s) { hx_hash_add(h, s, strlen(s) + 1); }

static int warm_state;   /* session differential: 0 = not yet, 1 = in progress, 2 = done */
#include "sanhooks.h"
static void fatal_cb(const san_event_t *e);
static const char *fatal_what = "";
static void abort_cb(const char *kind, const char *detail) {
	/* a deadlock / an exceeded horizon with threads blocked at library locks: the class names who holds and who wants what, so that
	 * different hold-and-wait sites are different findings */
	char who[400]; size_t o = 0; who[0] = 0;
	if (!strcmp(kind, "deadlock") || !strcmp(kind, "horizon")) for (int t = 0; t < VS_MAXT && o + 120 < sizeof who; t++) {
		char held[160]; held[0] = 0; if (vs_held_count(t)) vs_held_desc(t, held, sizeof held);
		const char *w = strstr(detail, "t0:"); char key[16]; snprintf(key, sizeof key, "t%d:want-", t); const char *want = w ? strstr(w, key) : NULL; char wl[80]; wl[0] = 0;
		if (want) { const char *a = strchr(want, '('), *b = a ? strchr(a, ')') : NULL; if (a && b && (size_t) (b - a) < sizeof wl) { memcpy(wl, a + 1, (size_t) (b - a - 1)); wl[b - a - 1] = 0; } }
		if (held[0] || wl[0]) o += (size_t) snprintf(who + o, sizeof who - o, " t%d%s%s%s%s", t, held[0] ? " holds " : "", held, wl[0] ? " wants " : "", wl);
	}
	res_printf("A %s%s%s\t%s\n", kind, who[0] ? " blocked:" : "", who, detail);
	hx_emit_trace();
	res_finish();
}
static int flags_cb(void) { return (bidib_running ? 1 : 0) | (bidib_discard_rx ? 2 : 0); }

void hx_child_begin(const vs_dev_t *devs, int ndevs, int record_trace, void *(*early_fn)(void *), int early_budget,
                    uint64_t horizon_us) {
	env_reset(); warm_state = 0; san_fatal_cb = fatal_cb; fatal_what = "(no case context set)";   /* reports the sanitizer cannot recover from are written to the parent before the process dies */
	vs_abort_cb = abort_cb; vs_input_ready_cb = env_input_pending; vs_flags_cb = flags_cb;
	vs_cfg_t c; memset(&c, 0, sizeof c);
	c.devs = devs; c.ndevs = ndevs; c.record_trace = record_trace; c.early_fn = early_fn; c.early_budget = early_budget;
	c.horizon_us = horizon_us;
	vs_begin(&c);
	if (record_trace) vs_window(0);   /* E1 harnesses open the exploration window around their concurrent phase */
#define NAME(x) vs_name_lock(&x, #x)
	/* fixed registration order => stable lock indices */
	NAME(bidib_trains_rwlock); NAME(bidib_boards_rwlock);
	NAME(trackstate_accessories_mutex); NAME(trackstate_peripherals_mutex); NAME(trackstate_segments_mutex);
	NAME(trackstate_reversers_mutex); NAME(trackstate_trains_mutex); NAME(trackstate_boosters_mutex);
	NAME(trackstate_track_outputs_mutex); NAME(bidib_node_state_table_mutex); NAME(bidib_send_buffer_mutex);
	NAME(bidib_uplink_queue_mutex); NAME(bidib_uplink_error_queue_mutex); NAME(bidib_uplink_intern_queue_mutex);
	NAME(bidib_action_id_mutex);
	if (&bidib_send_order_mutex) NAME(bidib_send_order_mutex);
}
/* Session differential (VERIF_WARM=1, DESIGN 2.7): the first start of a child is preceded by a complete earlier session with
 * the same arguments — start, settle, a little traffic, stop — after which the environment is put back to its initial state
 * (simulated bus restored, transcript and pending uplink bytes cleared).  Everything the harness then explores happens in
 * the process's SECOND session; vcheck compares the per-execution outcomes with those of the cold run. */
#include "simbus.h"
void bidib_stop(void); void bidib_flush(void); uint8_t *bidib_read_message(void); uint8_t *bidib_read_error_message(void);
int bidib_ping(const char *board, uint8_t ping_byte);
typedef struct { uint8_t top, sub, subsub; } t_bidib_node_address;
void bidib_send_sys_ping(t_bidib_node_address node, uint8_t ping_byte, unsigned int action_id);
static int warm_drop(int node, const rc_msg_t *m) { (void) node; (void) m; return 1; }
static void hx_warm_session(int debug, unsigned flush) {
	const char *w = getenv("VERIF_WARM"); if (!w || !atoi(w) || warm_state) return;
	warm_state = 1;
	static simbus_t saved; memcpy(&saved, &SB, sizeof SB);
	void (*saved_hook)(const uint8_t *, int32_t) = env_on_write;
	int (*saved_on_msg)(int, const rc_msg_t *) = SB.on_msg; SB.on_msg = NULL;      /* the earlier session talks to a bus that answers everything */
	bidib_set_lowlevel_debug_mode(debug ? 1 : 0);
	SB.pkt_capacity = 200;              /* the earlier session's interface announces a larger packet capacity ... */
	int rc = bidib_start_pointer(env_read, env_write, debug ? NULL : ENV_CFG_DIR, flush);
	vs_idle_wait();
	if (rc == 0) {
		/* ... and leaves as much per-session state behind as it can: advanced sequence numbers, a stalled sub-node, a node
		 * whose budget is exhausted by unanswered requests with messages held behind it, unread queue entries */
		t_bidib_node_address a0 = {0, 0, 0}, a1 = {1, 0, 0};
		if (!debug) { bidib_ping("master", 0x42); bidib_flush(); vs_idle_wait(); }
		else { uint8_t cap = 200, m[16], f[40]; static const uint8_t z[4] = {0, 0, 0, 0}; int ml = rc_build_msg(m, z, 0, 0x8A /* MSG_PKT_CAPACITY */, &cap, 1); env_push_quiet(f, rc_frame(f, m, (size_t) ml, 1)); vs_point(); vs_idle_wait(); }
		vs_sleep_us(2500000); vs_idle_wait();
		{ uint8_t on = 1, m[16], f[40]; static const uint8_t s1[4] = {1, 0, 0, 0}; int ml = rc_build_msg(m, s1, 0, 0x8E /* MSG_STALL */, &on, 1); env_push_quiet(f, rc_frame(f, m, (size_t) ml, 1)); vs_point(); vs_idle_wait(); }
		SB.on_msg = warm_drop;
		for (int i = 0; i < 11; i++) bidib_send_sys_ping(a0, (uint8_t) i, 0);
		bidib_send_sys_ping(a1, 0x55, 0);
		bidib_flush(); vs_idle_wait();
		bidib_stop(); vs_idle_wait();
	}
	memcpy(&SB, &saved, sizeof SB); SB.on_msg = saved_on_msg; env_on_write = saved_hook;
	env_clear_io();
	warm_state = 2;
}
int hx_start_debug(unsigned flush) {
	hx_warm_session(1, flush);
	bidib_set_lowlevel_debug_mode(1);
	return bidib_start_pointer(env_read, env_write, NULL, flush);
}
int hx_start_normal(unsigned flush) {
	hx_warm_session(0, flush);
	bidib_set_lowlevel_debug_mode(0);
	return bidib_start_pointer(env_read, env_write, ENV_CFG_DIR, flush);
}
void hx_quiesce(void) { vs_idle_wait(); }
void hx_feed(const uint8_t *b, size_t n) { env_push(b, n); vs_idle_wait(); }
void hx_feed_msg(const uint8_t addr[4], uint8_t seq, uint8_t type, const uint8_t *data, int dlen) {
	uint8_t m[300], f[700];
	int ml = rc_build_msg(m, addr, seq, type, data, dlen);
	size_t fl = rc_frame(f, m, (size_t) ml, 1);
	hx_feed(f, fl);
}
size_t hx_dump_tx(char *buf, size_t n) {
	size_t o = 0;
	o += (size_t) snprintf(buf + o, n - o, "F%d%d%d%d cap%u bi%zu[", bidib_running, bidib_discard_rx, bidib_seq_num_enabled,
	                       bidib_lowlevel_debug_mode, vx_pkt_max_cap(), vx_send_buffer_index());
	const uint8_t *sb = vx_send_buffer();
	for (size_t i = 0; i < vx_send_buffer_index() && o + 8 < n; i++) o += (size_t) snprintf(buf + o, n - o, "%02x", sb[i]);
	o += (size_t) snprintf(buf + o, n - o, "];");
	if (bidib_running) {   /* after bidib_stop the node table pointer dangles (freed, not cleared) */
		o += vx_dump_nodes(buf + o, n - o, (long) (1700000000L + (long) (vs_now_us() / 1000000ull)));
		o += vx_dump_uplink_queues(buf + o, n - o);
	}
	return o;
}
void hx_emit_trace(void) {
	int n = vs_ncp(); const vs_cp_t *c = vs_cps();
	if (!c || n == 0) { res_printf("T \n"); return; }
	char *buf = malloc((size_t) n * 24 + 16); size_t o = 0;
	for (int i = 0; i < n; i++) o += (size_t) sprintf(buf + o, "%x.%x.%x.%x,", c[i].n, c[i].costmask, c[i].chosen, c[i].sig);
	res_printf("T %s\n", buf);
	free(buf);
}
void hx_emit_ledger_violations(const char *prop) {
	(void) prop;
	if (vs_event_count() == 0) return;
	char tmp[8192]; snprintf(tmp, sizeof tmp, "%s", vs_events());
	char *save = NULL;
	for (char *l = strtok_r(tmp, "\n", &save); l; l = strtok_r(NULL, "\n", &save)) {
		char cls[128]; size_t k = 0;
		while (l[k] && l[k] != ' ' && k < 100) { cls[k] = l[k]; k++; }
		cls[k] = 0;
		res_violation(cls, "%s", l);
	}
}
const char *hx_hex(const uint8_t *p, size_t n) {
	static char ring[4][2100]; static int r;
	char *b = ring[r++ & 3]; size_t o = 0;
	for (size_t i = 0; i < n && o + 4 < sizeof ring[0]; i++) o += (size_t) sprintf(b + o, "%02x", p[i]);
	b[o] = 0; return b;
}

/* ---- symbol table (nm -n output) for mapping sanitizer pcs to function names */
#include "sanhooks.h"
typedef struct { uintptr_t addr; char name[56]; } sym_t;
static sym_t *syms; static int nsyms;
void hx_symtab_load(void) {
	const char *p = getenv("VERIF_SYMTAB"); if (!p) return;
	FILE *f = fopen(p, "r"); if (!f) return;
	char line[512]; int cap = 0;
	while (fgets(line, sizeof line, f)) {
		unsigned long a; char t; char name[400];
		if (sscanf(line, "%lx %c %399s", &a, &t, name) != 3) continue;
		if (t != 'T' && t != 't' && t != 'W' && t != 'w') continue;
		if (nsyms == cap) { cap = cap ? cap * 2 : 4096; syms = realloc(syms, sizeof(sym_t) * (size_t) cap); }
		syms[nsyms].addr = a; snprintf(syms[nsyms].name, sizeof syms[nsyms].name, "%s", name); nsyms++;
	}
	fclose(f);
}
const char *hx_sym(uintptr_t pc) {
	int lo = 0, hi = nsyms - 1, best = -1;
	while (lo <= hi) { int mid = (lo + hi) / 2; if (syms[mid].addr <= pc) { best = mid; lo = mid + 1; } else hi = mid - 1; }
	return best >= 0 ? syms[best].name : "?";
}
static int san_seen; static char *emitted_cls[64]; static int n_emitted;
static void fatal_cb(const san_event_t *e) {
	const char *fn = "?"; char stack[500]; size_t so = 0; stack[0] = 0;
	for (int i = 0; i < e->npcs; i++) { const char *s = hx_sym(e->pcs[i] - (i ? 1 : 0)); if (so + 60 < sizeof stack) so += (size_t) snprintf(stack + so, sizeof stack - so, "%s ", s); if (!strcmp(fn, "?") && !strncmp(s, "bidib_", 6)) fn = s; }
	char line[900]; snprintf(line, sizeof line, "V sanitizer kind=%s %s fn=%s\t%s; stack: %s\n", e->kind, e->is_write ? "write" : "read", fn, fatal_what, stack);
	res_emit_now(line);
}
void hx_set_context(const char *what) { fatal_what = what; san_fatal_cb = fatal_cb; }
int hx_san_last_was_write;
int hx_emit_san_events(const char *what) {
	int n = 0; hx_san_last_was_write = 0;
	for (; san_seen < san_nevents(); san_seen++) {
		const san_event_t *e = san_event(san_seen);
		/* first frame that belongs to the library */
		const char *fn = "?"; char stack[600]; size_t so = 0; stack[0] = 0;
		for (int i = 0; i < e->npcs; i++) {
			if (!e->pcs[i]) { so += (size_t) snprintf(stack + so, sizeof stack - so, "| "); continue; }
			const char *s = hx_sym(e->pcs[i] - (i ? 1 : 0));
			if (so + 60 < sizeof stack) so += (size_t) snprintf(stack + so, sizeof stack - so, "%s ", s);
			if (!strcmp(fn, "?") && !strncmp(s, "bidib_", 6)) fn = s;
		}
		if (e->is_write || strstr(e->kind, "free")) hx_san_last_was_write = 1;
		char cls[200]; snprintf(cls, sizeof cls, "sanitizer kind=%s %s fn=%s", e->kind, e->is_write ? "write" : "read", fn);
		n++;
		int dup = 0; for (int k = 0; k < n_emitted; k++) if (!strcmp(emitted_cls[k], cls)) dup = 1;
		if (dup) { res_printf("C sanitizer_events_repeated 1\n"); continue; }     /* one witness per class and child is enough */
		if (n_emitted < 64) emitted_cls[n_emitted++] = strdup(cls);
		res_violation(cls, "%s; access size %d; stack: %s", what, e->size, stack);
	}
	if (san_count() > san_nevents()) hx_san_last_was_write = 1;   /* event buffer overflowed: be conservative */
	return n;
}

/* ---- LeakSanitizer: recoverable leak check with the report captured and mapped to library functions */
#include <sys/mman.h>
#include <unistd.h>
#include <fcntl.h>
#if defined(VARIANT_ASAN)
int __lsan_do_recoverable_leak_check(void);
int hx_leak_check(const char *what) {
	fflush(stderr);
	int saved = dup(2); int mfd = memfd_create("lsan", 0);
	if (mfd < 0) return 0;
	dup2(mfd, 2);
	int leaks = __lsan_do_recoverable_leak_check();
	dup2(saved, 2); close(saved);
	if (!leaks) { close(mfd); return 0; }
	static char rep[1 << 16]; lseek(mfd, 0, SEEK_SET); ssize_t n = read(mfd, rep, sizeof rep - 1); close(mfd); if (n < 0) n = 0; rep[n] = 0;
	/* per leak record: "Direct leak of N byte(s) in M object(s) allocated from:" followed by "#k 0xPC ..." frames */
	int reported = 0; char *p = rep;
	while ((p = strstr(p, " leak of ")) != NULL && reported < 8) {
		long bytes = atol(p + 9); char *end = strstr(p + 1, " leak of "); if (!end) end = rep + n;
		const char *fn = "?"; char stack[400]; size_t so = 0; stack[0] = 0;
		for (char *q = p; q < end; ) { char *h = strstr(q, " 0x"); if (!h || h >= end) break; uintptr_t pc = (uintptr_t) strtoul(h + 1, NULL, 16); q = h + 3;
			if (!pc) continue; const char *sname = hx_sym(pc - 1);
			if (so + 50 < sizeof stack) so += (size_t) snprintf(stack + so, sizeof stack - so, "%s ", sname);
			if (!strcmp(fn, "?") && !strncmp(sname, "bidib_", 6)) fn = sname; }
		int indirect = (p - rep >= 8 && !strncmp(p - 8, "Indirect", 8));
		if (!indirect && strcmp(fn, "?")) { char cls[160]; snprintf(cls, sizeof cls, "leak allocated-in=%s", fn); res_violation(cls, "%s: %ld bytes leaked; allocation stack: %s", what, bytes, stack); reported++; }
		else if (!indirect) res_printf("C leaks_outside_library_ignored 1\n");     /* allocated by the harness itself */
		p = end == rep + n ? end : end;
		if (p >= rep + n) break;
	}
	return reported > 0;
}
#else
int hx_leak_check(const char *what) { (void) what; return 0; }
#endif

#if defined(VARIANT_TSAN)
/* TSan reports since the last san_reset() as violations (class = report kind + the two library functions); reports on the four
 * mode flags that only start / stop / reset write are ignored (the README excludes those calls from concurrent use) */
void hx_emit_tsan_races(const char *what) {
	for (int i = 0; i < san_nevents(); i++) { const san_event_t *e = san_event(i);
		uintptr_t a = e->addr; if (a == (uintptr_t) &bidib_running || a == (uintptr_t) &bidib_discard_rx || a == (uintptr_t) &bidib_seq_num_enabled || a == (uintptr_t) &bidib_lowlevel_debug_mode) { res_printf("C tsan_reports_on_mode_flags_ignored 1\n"); continue; }
		const char *fn[2] = {"?", "?"}; int k = 0; char stack[500]; size_t so = 0; stack[0] = 0;
		for (int p = 0; p < e->npcs; p++) { if (!e->pcs[p]) { k++; so += (size_t) snprintf(stack + so, sizeof stack - so, "| "); continue; } const char *s = hx_sym(e->pcs[p] - 1); if (so + 50 < sizeof stack) so += (size_t) snprintf(stack + so, sizeof stack - so, "%s ", s);
			if (k < 2 && !strcmp(fn[k], "?") && (!strncmp(s, "bidib_", 6) || !strncmp(s, "__wrap_g_", 9))) fn[k] = s; }
		const char *f0 = fn[0], *f1 = fn[1]; if (strcmp(f0, f1) > 0) { const char *t = f0; f0 = f1; f1 = t; }
		char cls[220]; snprintf(cls, sizeof cls, "tsan %s between %s and %s", e->kind, f0, f1);
		res_violation(cls, "%s: %s of %d bytes; stacks: %s", what, e->is_write ? "write" : "read", e->size, stack);
	}
}
#else
void hx_emit_tsan_races(const char *what) { (void) what; }
#endif
