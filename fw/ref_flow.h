/* ref_flow — reference model of per-node response budget, deferral and stall (C03, C04, C19). */
#ifndef REF_FLOW_H
#define REF_FLOW_H
#include <stdint.h>
#include "refcodec.h"
#define RF_MAXN 8
#define RF_MAXQ 128
#define RF_LIMIT 48
#define RF_EXPIRY_US 2000000ull
typedef struct { uint8_t type; int size; uint64_t t_us; } rf_req_t;
typedef struct {
	uint8_t addr[4]; int used;
	rf_req_t eager[RF_MAXQ]; int n_eager;   /* frees as eagerly as any correct implementation could (safety side) */
	rf_req_t lazy[RF_MAXQ]; int n_lazy;     /* frees only what the property obliges (non-stranding side) */
	rf_req_t noexp[RF_MAXQ]; int n_noexp;   /* like lazy but never expires (to attribute a stranding to expiry) */
	int stalled;
	int wire_count;                         /* messages to this node seen on the wire */
	int last_seq;
} rf_node_t;
typedef struct { rf_node_t n[RF_MAXN]; int nn; } rf_t;

typedef struct { int size; int nacc; uint8_t acc[3]; } rf_resp_t;
extern const rf_resp_t rf_resp[128];

void rf_init(rf_t *r);
rf_node_t *rf_node(rf_t *r, const uint8_t addr[4]);
void rf_on_wire(rf_t *r, const rc_msg_t *m, uint64_t now_us);    /* a message reached the wire / transmit buffer */
void rf_on_uplink(rf_t *r, const uint8_t addr[4], uint8_t type, uint64_t now_us);
void rf_expire(rf_t *r, uint64_t now_us);
int  rf_sum(const rf_req_t *q, int n);
size_t rf_dump(const rf_t *r, char *buf, size_t n, uint64_t now_us);
#endif
