#include "refcodec.h"
#include <stdio.h>
#include <string.h>

uint8_t rc_crc8_update(uint8_t crc, uint8_t byte) {
	crc ^= byte;
	for (int i = 0; i < 8; i++) crc = (crc & 1) ? (uint8_t) ((crc >> 1) ^ 0x8C) : (uint8_t) (crc >> 1);
	return crc;
}
uint8_t rc_crc8(const uint8_t *p, size_t n) {
	uint8_t c = 0; for (size_t i = 0; i < n; i++) c = rc_crc8_update(c, p[i]); return c;
}
int rc_build_msg(uint8_t *out, const uint8_t addr[4], uint8_t seq, uint8_t type, const uint8_t *data, int dlen) {
	int k = 1;
	for (int i = 0; i < 4 && addr[i]; i++) out[k++] = addr[i];
	if (!(addr[0] && addr[1] && addr[2] && addr[3])) out[k++] = 0;
	out[k++] = seq; out[k++] = type;
	for (int i = 0; i < dlen; i++) out[k++] = data[i];
	out[0] = (uint8_t) (k - 1);
	return k;
}
static size_t put_esc(uint8_t *out, size_t o, uint8_t b) {
	if (b == RC_MAGIC || b == RC_ESCAPE) { out[o++] = RC_ESCAPE; out[o++] = b ^ 0x20; }
	else out[o++] = b;
	return o;
}
size_t rc_frame(uint8_t *out, const uint8_t *payload, size_t plen, int lead) {
	size_t o = 0;
	if (lead) out[o++] = RC_MAGIC;
	for (size_t i = 0; i < plen; i++) o = put_esc(out, o, payload[i]);
	o = put_esc(out, o, rc_crc8(payload, plen));
	out[o++] = RC_MAGIC;
	return o;
}
int rc_split(rc_pkt_t *p) {
	p->nmsgs = 0; p->wellformed = 1;
	int i = 0;
	if (p->plen == 0) { p->wellformed = 0; return 0; }
	while (i < p->plen) {
		int len = p->payload[i];
		if (len < 3 || i + len + 1 > p->plen) { p->wellformed = 0; return 0; }
		const uint8_t *m = p->payload + i;
		rc_msg_t *r = &p->msgs[p->nmsgs];
		memset(r, 0, sizeof *r);
		int k = 1, d = 0;
		while (k <= len && m[k] != 0 && d < 4) { r->addr[d++] = m[k++]; }
		if (d == 4) { /* four non-zero bytes: over-deep/unterminated unless a 0 follows */ p->wellformed = 0; return 0; }
		if (k > len || m[k] != 0) { p->wellformed = 0; return 0; }
		k++;                               /* terminator */
		if (k + 1 > len) { p->wellformed = 0; return 0; }  /* need seq and type */
		r->depth = d; r->seq = m[k]; r->type = m[k + 1];
		r->data = m + k + 2; r->dlen = len - (k + 1);
		r->raw = m; r->rawlen = len + 1;
		if (p->nmsgs < 127) p->nmsgs++;
		i += len + 1;
	}
	return 1;
}
int rc_decode_strict(const uint8_t *s, size_t n, rc_pkt_t *pk, int maxpk, char *err, size_t errn) {
	size_t i = 0; int np = 0;
	err[0] = 0;
	while (i < n) {
		if (s[i] != RC_MAGIC) { snprintf(err, errn, "offset %zu: expected start delimiter, found %02x", i, s[i]); return -1; }
		size_t start = i++;
		if (np >= maxpk) { snprintf(err, errn, "too many packets"); return -1; }
		rc_pkt_t *p = &pk[np]; p->plen = 0; p->start = start; p->dontcare = 0;
		uint8_t buf[1100]; int bl = 0;
		for (;;) {
			if (i >= n) { snprintf(err, errn, "offset %zu: stream ends inside a packet (no end delimiter)", i); return -1; }
			uint8_t b = s[i++];
			if (b == RC_MAGIC) break;
			if (b == RC_ESCAPE) {
				if (i >= n) { snprintf(err, errn, "offset %zu: escape at end of stream", i); return -1; }
				uint8_t c = s[i++];
				if (c != (RC_MAGIC ^ 0x20) && c != (RC_ESCAPE ^ 0x20)) {
					snprintf(err, errn, "offset %zu: escape followed by %02x (only FE/FD are escaped)", i - 1, c); return -1; }
				b = c ^ 0x20;
			}
			if (bl >= 1090) { snprintf(err, errn, "packet too long"); return -1; }
			buf[bl++] = b;
		}
		p->end = i - 1;
		if (bl < 2) { snprintf(err, errn, "offset %zu: empty packet (delimiter pair with %d bytes)", start, bl); return -1; }
		uint8_t crc = rc_crc8(buf, (size_t) bl - 1);
		p->crc_ok = (crc == buf[bl - 1]);
		if (!p->crc_ok) { snprintf(err, errn, "offset %zu: CRC %02x, expected %02x", start, buf[bl - 1], crc); return -1; }
		p->plen = bl - 1; memcpy(p->payload, buf, (size_t) p->plen);
		if (!rc_split(p)) { snprintf(err, errn, "offset %zu: payload is not a concatenation of whole messages", start); return -1; }
		np++;
	}
	return np;
}
int rc_decode_rx(const uint8_t *s, size_t n, rc_pkt_t *pk, int maxpk, int synced) {
	int np = 0; size_t i = 0;
	/* a receiver synchronises on the first delimiter */
	if (!synced) while (i < n && s[i] != RC_MAGIC) i++;
	while (i < n) {
		/* skip delimiters */
		while (i < n && s[i] == RC_MAGIC) i++;
		if (i >= n) break;
		size_t start = i ? i - 1 : 0;
		uint8_t buf[1100]; int bl = 0; int esc = 0; int dontcare = 0; int closed = 0;
		while (i < n) {
			uint8_t b = s[i++];
			if (b == RC_MAGIC) { if (esc) dontcare = 1; closed = 1; break; }
			if (b == RC_ESCAPE) { if (esc) dontcare = 1; esc = 1; continue; }
			if (esc) { b ^= 0x20; esc = 0; }
			if (bl < 1090) buf[bl++] = b; else dontcare = 1;
		}
		if (!closed) break;                 /* incomplete tail: nothing to deliver yet */
		if (bl == 0) { i--; continue; }     /* only escapes between delimiters */
		if (np >= maxpk) break;
		rc_pkt_t *p = &pk[np++];
		p->start = start; p->end = i - 1; p->dontcare = dontcare; p->nmsgs = 0; p->wellformed = 0;
		p->crc_ok = (rc_crc8(buf, (size_t) bl) == 0);   /* crc over payload+crc is 0 */
		p->plen = bl - 1; if (p->plen < 0) p->plen = 0;
		memcpy(p->payload, buf, (size_t) p->plen);
		if (bl > 256) p->dontcare = 1;      /* larger than any legal packet: C12 territory */
		if (p->crc_ok) rc_split(p);
		i--;                                /* closing delimiter may also open the next packet */
	}
	return np;
}
