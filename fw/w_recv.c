#include "src/transmission/bidib_transmission_receive.c"
#include "vx.h"
#include <stdio.h>
static size_t dump_q(GQueue *q, const char *name, char *buf, size_t n) {
	size_t o = 0;
	if (!q) return (size_t) snprintf(buf, n, "%s=NULL;", name);
	o += (size_t) snprintf(buf + o, n - o, "%s[%u]:", name, g_queue_get_length(q));
	for (GList *l = q->head; l && o + 600 < n; l = l->next) {
		t_bidib_message_queue_entry *e = l->data;
		o += (size_t) snprintf(buf + o, n - o, "{t%02x a%02x%02x%02x%02x ", e->type, e->addr[0], e->addr[1], e->addr[2], e->addr[3]);
		if (e->message) for (int i = 0; i <= e->message[0] && o + 8 < n; i++) o += (size_t) snprintf(buf + o, n - o, "%02x", e->message[i]);
		o += (size_t) snprintf(buf + o, n - o, "}");
	}
	o += (size_t) snprintf(buf + o, n - o, ";");
	return o;
}
size_t vx_dump_uplink_queues(char *buf, size_t n) {
	size_t o = 0;
	o += dump_q(uplink_queue, "msgq", buf + o, n - o);
	o += dump_q(uplink_error_queue, "errq", buf + o, n - o);
	o += dump_q(uplink_intern_queue, "intq", buf + o, n - o);
	return o;
}
unsigned vx_queue_len(int which) {
	GQueue *q = which == 0 ? uplink_queue : which == 1 ? uplink_error_queue : uplink_intern_queue;
	return q ? g_queue_get_length(q) : 0;
}
