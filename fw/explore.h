/* explore — the three exhaustive drivers (parent side):
 *   e1_explore : stateless deviation-bounded schedule exploration (CHESS iteration) of one harness
 *   e2_explore : explicit-state breadth-first search over event histories, de-duplicated on the canonical dump
 *   ex_map     : exhaustive catalogue of independent cases
 * Every explored case is an execution of the real library in a forked child. */
#ifndef EXPLORE_H
#define EXPLORE_H
#include "rep.h"

typedef struct {
	const char *harness; const void *param; size_t nparam; int bound; const char *label;
	int unlock_points;      /* vs_unlock_points for the exploration window of every execution (0: scheduling points at acquisitions only) */
	/* results */
	long schedules_by_cost[8]; int completed_bound; long distinct_outcomes; long contended_execs; long choice_points;
	int exhaustive;
} e1_spec_t;
int e1_explore(e1_spec_t *s);

typedef struct {
	const char *harness; const void *param; size_t nparam; int nevents; int max_depth; const char *label;
	const char *(*evname)(int ev);
	void (*on_result)(const run_res_t *r, const uint8_t *hist, int len, const void *job, size_t jn, const char *human);   /* optional: parent-side cross-history oracles */
	long states, transitions, execs; int depth_completed; int exhaustive; long states_by_depth[16];
	int audit; long audit_checked, audit_mismatches;   /* abstraction audit (see e2_explore) */
} e2_spec_t;
int e2_explore(e2_spec_t *s);

typedef size_t (*ex_gen_fn)(long idx, uint8_t *payload, char *human, size_t humann);  /* returns payload size */
typedef void (*ex_res_fn)(long idx, const run_res_t *r);
typedef struct {
	const char *harness; long ncases; ex_gen_fn gen; ex_res_fn on_result; const char *label;
	long done; int exhaustive; long distinct_outcomes;
} ex_spec_t;
int ex_map(ex_spec_t *s);

void det_check(const char *harness, run_fn fn, const void *job, size_t jn);

/* small open-addressing set of 128-bit keys */
typedef struct { uint64_t (*tab)[2]; size_t cap, n; } kset_t;
int kset_add(kset_t *s, uint64_t a, uint64_t b);   /* 1 if new */
void kset_free(kset_t *s);
#endif
