/* hx — common harness helpers (child side) */
#ifndef HX_H
#define HX_H
#include <stdint.h>
#include <stddef.h>
#include "vsched.h"
#include "env.h"
#include "run.h"
#include "refcodec.h"
#include "vx.h"

typedef struct { uint64_t a, b; } hx_hash_t;
void hx_hash_init(hx_hash_t *h);
void hx_hash_add(hx_hash_t *h, const void *p, size_t n);
void hx_hash_str(hx_hash_t *h, const char *s);

/* child set-up: environment + scheduler; devs may be NULL */
void hx_child_begin(const vs_dev_t *devs, int ndevs, int record_trace, void *(*early_fn)(void *), int early_budget,
                    uint64_t horizon_us);
int  hx_start_debug(unsigned flush_interval_ms);
int  hx_start_normal(unsigned flush_interval_ms);     /* config from env_set_cfg; simulated bus must be installed first */
void hx_quiesce(void);
void hx_feed(const uint8_t *bytes, size_t n);         /* push uplink bytes then wait for quiescence */
void hx_feed_msg(const uint8_t addr[4], uint8_t seq, uint8_t type, const uint8_t *data, int dlen); /* one framed packet */
size_t hx_dump_tx(char *buf, size_t n);               /* canonical dump of the transmission layer */
void hx_emit_trace(void);                             /* T line for E1 */
void hx_emit_ledger_violations(const char *prop);     /* lock/thread ledger events as violations */
const char *hx_hex(const uint8_t *p, size_t n);       /* static buffer ring */
void hx_symtab_load(void);                            /* parent, before the pool is created */
const char *hx_sym(uintptr_t pc);
extern int hx_san_last_was_write;                     /* set by hx_emit_san_events: memory may be corrupted */
int hx_emit_san_events(const char *what);
int hx_leak_check(const char *what);
void hx_emit_tsan_races(const char *what);            /* tsan variant: race reports since san_reset() -> violations; no-op elsewhere */
void hx_set_context(const char *what);                /* description of the running case, used if a fatal signal ends the child */                  /* LSan recoverable check (asan variant only); emits violations */             /* sanitizer reports since the last call -> violations; returns count */

extern volatile _Bool bidib_running, bidib_discard_rx, bidib_seq_num_enabled, bidib_lowlevel_debug_mode;
#endif
