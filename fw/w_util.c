#include "src/highlevel/bidib_highlevel_util.c"
#include "vx.h"
void vx_thread_handles(unsigned long out[3]) {
	out[0] = (unsigned long) bidib_receiver_thread; out[1] = (unsigned long) bidib_autoflush_thread;
	out[2] = (unsigned long) bidib_heartbeat_thread;
}
