/* cfg — standard configurations (YAML text) and matching simulated node trees */
#ifndef CFG_H
#define CFG_H
#include <stdint.h>
extern const char *CFG_STD_BOARD, *CFG_STD_TRACK, *CFG_STD_TRAIN;
/* uids of the standard boards */
extern const uint8_t UID_MASTER[7], UID_OC1[7], UID_LC1[7], UID_UNKNOWN[7];
/* installs the standard configuration and the node tree: root = master (interface, track output, booster, occupancy),
 * 1 = oc1 (accessories, SecAck feature on), 2 = lc1 (peripherals, signals).  returns nothing; nodes: SB.n[0..2] */
void cfg_install_std(void);
#endif
