/* sanitizer report hooks: turn ASan / TSan reports into recorded events the harness can emit as violations */
#include "sanhooks.h"
#include <stdio.h>
#include <string.h>
#include <stdlib.h>
#include <stdint.h>
#include <execinfo.h>

#define MAXEV 4096
static san_event_t ev[MAXEV]; static int nev; static int total;
int san_count(void) { return total; }
int san_nevents(void) { return nev; }
const san_event_t *san_event(int i) { return &ev[i]; }
void san_reset(void) { nev = 0; total = 0; }
void (*san_fatal_cb)(const san_event_t *e);

#if defined(VARIANT_ASAN)
const char *__asan_get_report_description(void);
void *__asan_get_report_pc(void);
void *__asan_get_report_bp(void);
void *__asan_get_report_address(void);
int __asan_get_report_access_type(void);
size_t __asan_get_report_access_size(void);
extern char __executable_start, etext;
void __asan_on_error(void) {
	total++;
	if (nev >= MAXEV) return;
	san_event_t *e = &ev[nev++];
	memset(e, 0, sizeof *e);
	snprintf(e->kind, sizeof e->kind, "%s", __asan_get_report_description());
	if (getenv("VERIF_DEBUG")) fprintf(stderr, "asan hook: kind=%s\n", e->kind);
	e->is_write = __asan_get_report_access_type();
	e->size = (int) __asan_get_report_access_size();
	e->pcs[0] = (uintptr_t) __asan_get_report_pc(); e->npcs = 1;
	/* call stack of the reporting thread (unwinder; the interceptors' own frames are skipped by the symbol filter later) */
	void *bt[40]; int nb = backtrace(bt, 40);
	for (int i = 0; i < nb && e->npcs < SAN_MAXPC; i++) { uintptr_t pc = (uintptr_t) bt[i]; if (pc >= (uintptr_t) &__executable_start && pc < (uintptr_t) &etext) e->pcs[e->npcs++] = pc; }
	/* a deadly signal ends the process right after this hook: report it now */
	static const char *fatal[] = {"SEGV", "FPE", "ILL", "BUS", "ABRT", "stack-overflow", "null-deref", "wild-jump", "wild-addr", "high-value", "unknown-crash", "signal", "bad-free", "double-free", "mismatch", "bad-malloc", "bad-__sanitizer", "invalid-pointer", NULL};   /* the last ones are reports ASan cannot recover from */
	if (san_fatal_cb) for (int i = 0; fatal[i]; i++) if (strstr(e->kind, fatal[i])) { san_fatal_cb(e); break; }
}
const char *__asan_default_options(void) {
	return "halt_on_error=0:detect_leaks=1:symbolize=0:abort_on_error=0:print_summary=0:detect_stack_use_after_return=0:allocator_may_return_null=1:handle_segv=1:handle_abort=0:fast_unwind_on_malloc=0";
}
#endif

#if defined(VARIANT_TSAN)
void *__tsan_get_current_report(void);
int __tsan_get_report_data(void *report, const char **description, int *count, int *stack_count, int *mop_count,
                           int *loc_count, int *mutex_count, int *thread_count, int *unique_tid_count, void **sleep_trace,
                           unsigned long trace_size);
int __tsan_get_report_mop(void *report, unsigned long idx, int *tid, void **addr, int *size, int *write, int *atomic,
                          void **trace, unsigned long trace_size);
int __tsan_get_report_loc(void *report, unsigned long idx, const char **type, void **addr, unsigned long *start,
                          unsigned long *size, int *tid, int *fd, int *suppressable, void **trace, unsigned long trace_size);
static int tsan_ignore;
void san_tsan_ignore(int on) { tsan_ignore = on; }
/* called by the TSan runtime for every report; returning 1 suppresses printing */
int __tsan_on_report(void *report) {
	if (tsan_ignore) return 1;
	total++;
	if (nev >= MAXEV) return 1;
	const char *desc = "?"; int count, sc, mc = 0, lc, muc, tc, utc; void *sleep[1];
	__tsan_get_report_data(report, &desc, &count, &sc, &mc, &lc, &muc, &tc, &utc, sleep, 1);
	san_event_t *e = &ev[nev++];
	memset(e, 0, sizeof *e);
	snprintf(e->kind, sizeof e->kind, "%s", desc);
	for (int m = 0; m < mc && m < 2; m++) {
		int tid, size, wr, at; void *addr; void *trace[8] = {0};
		__tsan_get_report_mop(report, (unsigned long) m, &tid, &addr, &size, &wr, &at, trace, 8);
		if (m == 0) { e->is_write = wr; e->size = size; e->addr = (uintptr_t) addr; }
		for (int k = 0; k < 8 && trace[k] && e->npcs < SAN_MAXPC; k++) e->pcs[e->npcs++] = (uintptr_t) trace[k];
		if (e->npcs < SAN_MAXPC) e->pcs[e->npcs++] = 0;   /* separator between the two accesses */
	}
	return 1;
}
const char *__tsan_default_options(void) {
	return "atexit_sleep_ms=0:detect_deadlocks=0:report_signal_unsafe=0:halt_on_error=0:report_thread_leaks=0:exitcode=0";
}
#else
void san_tsan_ignore(int on) { (void) on; }
#endif
