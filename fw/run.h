/* run — fork-per-execution pool (parent side) and result emission (child side). */
#ifndef RUN_H
#define RUN_H
#include <stddef.h>
#include <stdint.h>

typedef struct {
	int status;            /* 0 = child reported completion; 1 = killed by signal; 2 = wall-clock timeout; 3 = exited without completion */
	int sig, exitcode;
	char *text; size_t len; /* result lines (NUL terminated); owned by the pool until the next run_wait */
	void *tag;
	double wall_ms;
} run_res_t;

typedef void (*run_fn)(const void *job, size_t n);   /* executes in the child; must end with res_finish() */

void run_init(int parallel, double timeout_s);
int  run_parallel(void);
int  run_outstanding(void);
void run_submit(run_fn fn, const void *job, size_t n, void *tag);   /* caller must ensure run_outstanding() < run_parallel() */
int  run_wait(run_res_t *out);                                      /* 0 when nothing is outstanding */
unsigned long run_total(void);

/* child side */
void res_printf(const char *fmt, ...) __attribute__((format(printf, 1, 2)));
void res_finish(void) __attribute__((noreturn));
void res_violation(const char *cls, const char *fmt, ...) __attribute__((format(printf, 2, 3)));
void res_infra(const char *fmt, ...) __attribute__((format(printf, 1, 2), noreturn));
int  res_nviol(void);
void res_emit_now(const char *line);   /* written to the parent immediately (used from fatal-signal hooks) */
void res_progress(long idx);   /* written to the parent immediately: survives a crash of the child */
long res_last_progress(const run_res_t *r);

/* parent-side helpers to walk result lines */
const char *res_line(const run_res_t *r, char tag, int k);  /* k-th line starting with tag, without the "X " prefix; NULL if none. returned pointer valid until next call */
#endif
