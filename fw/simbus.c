#include "simbus.h"
#include "env.h"
#include "vsched.h"
#include "ref_flow.h"
#include <stdio.h>
#include <string.h>
#include "include/definitions/bidib_messages.h"

simbus_t SB;
static void on_write(const uint8_t *buf, int32_t len);

void sb_init(void) {
	memset(&SB, 0, sizeof SB);
	SB.pkt_capacity = 64; SB.use_seq = 1;
	static const uint8_t root_uid[7] = {0xDA, 0x00, 0x0D, 0x68, 0x00, 0x01, 0xEE};
	sb_node_t *r = &SB.n[0]; memcpy(r->uid, root_uid, 7); r->parent = -1; r->present = 1; r->seq = 1; r->tab_version = 1;
	SB.nn = 1;
	env_on_write = on_write;
}
int sb_add_node(int parent, uint8_t local, const uint8_t uid[7]) {
	if (SB.nn >= SB_MAXNODES) return -1;
	sb_node_t *n = &SB.n[SB.nn]; memset(n, 0, sizeof *n);
	memcpy(n->addr, SB.n[parent].addr, 4);
	int d = 0; while (d < 3 && n->addr[d]) d++;
	n->addr[d] = local; n->parent = parent; n->local = local; n->present = 1; n->seq = 1; n->tab_version = 1;
	memcpy(n->uid, uid, 7);
	return SB.nn++;
}
int sb_find(const uint8_t addr[4]) {
	for (int i = 0; i < SB.nn; i++) if (!memcmp(SB.n[i].addr, addr, 4)) {
		/* reachable only when it and all its ancestors are present (an address may have been re-used) */
		int k = i, ok = 1; while (k >= 0) { if (!SB.n[k].present) { ok = 0; break; } k = SB.n[k].parent; }
		if (ok) return i;
	}
	return -1;
}
void sb_send_from(const uint8_t addr[4], uint8_t seq, uint8_t type, const uint8_t *data, int dlen) {
	uint8_t m[300], f[700];
	int ml = rc_build_msg(m, addr, seq, type, data, dlen);
	size_t fl = rc_frame(f, m, (size_t) ml, 1);
	env_push_quiet(f, fl);
}
void sb_send(int node, uint8_t type, const uint8_t *data, int dlen) {
	sb_node_t *n = &SB.n[node]; uint8_t seq = 0;
	if (SB.use_seq) { seq = n->seq; n->seq = n->seq == 255 ? 1 : (uint8_t) (n->seq + 1); }
	sb_send_from(n->addr, seq, type, data, dlen);
}
int sb_log_count(void) { return SB.nlog; }

static int table_rows(int node, int rows[SB_MAXNODES]) {
	int k = 0; rows[k++] = node;
	for (int i = 0; i < SB.nn; i++) if (SB.n[i].parent == node && SB.n[i].present) rows[k++] = i;
	return k;
}
static void answer(int ni, const rc_msg_t *m) {
	sb_node_t *n = &SB.n[ni]; uint8_t d[140]; memset(d, 0, sizeof d);
	const uint8_t *q = m->data; int ql = m->dlen;
	switch (m->type) {
	case MSG_SYS_GET_MAGIC: d[0] = 0xFE; d[1] = 0xAF; sb_send(ni, MSG_SYS_MAGIC, d, 2); break;
	case MSG_SYS_GET_P_VERSION: d[0] = 7; d[1] = 0; sb_send(ni, MSG_SYS_P_VERSION, d, 2); break;
	case MSG_SYS_GET_UNIQUE_ID: sb_send(ni, MSG_SYS_UNIQUE_ID, n->uid, 7); break;
	case MSG_SYS_GET_SW_VERSION: d[0] = 1; d[1] = 2; d[2] = 3; sb_send(ni, MSG_SYS_SW_VERSION, d, 3); break;
	case MSG_SYS_PING: d[0] = ql ? q[0] : 0; sb_send(ni, MSG_SYS_PONG, d, 1); break;
	case MSG_SYS_IDENTIFY: d[0] = ql ? q[0] : 0; sb_send(ni, MSG_SYS_IDENTIFY_STATE, d, 1); break;
	case MSG_SYS_GET_ERROR: d[0] = 0; sb_send(ni, MSG_SYS_ERROR, d, 1); break;
	case MSG_SYS_RESET: for (int i = 0; i < SB.nn; i++) { SB.n[i].seq = 1; SB.n[i].tab_iter = 0; } break;
	case MSG_SYS_ENABLE: case MSG_SYS_DISABLE: case MSG_SYS_CLOCK: case MSG_NODE_CHANGED_ACK:
	case MSG_BM_MIRROR_MULTIPLE: case MSG_BM_MIRROR_OCC: case MSG_BM_MIRROR_FREE: case MSG_BM_MIRROR_POSITION:
	case MSG_BM_ADDR_GET_RANGE: case MSG_LC_PORT_QUERY_ALL: case MSG_LC_CONFIGX_GET_ALL: case MSG_CS_ALLOCATE:
		break;
	case MSG_NODETAB_GETALL: { int rows[SB_MAXNODES]; d[0] = (uint8_t) table_rows(ni, rows); n->tab_iter = 0; sb_send(ni, MSG_NODETAB_COUNT, d, 1); break; }
	case MSG_NODETAB_GETNEXT: {
		int rows[SB_MAXNODES]; int k = table_rows(ni, rows);
		if (n->tab_iter >= k) { d[0] = 255; sb_send(ni, MSG_NODE_NA, d, 1); break; }
		sb_node_t *r = &SB.n[rows[n->tab_iter]];
		d[0] = n->tab_version; d[1] = n->tab_iter == 0 ? 0 : r->local; memcpy(d + 2, r->uid, 7);
		n->tab_iter++; sb_send(ni, MSG_NODETAB, d, 9); break; }
	case MSG_GET_PKT_CAPACITY: d[0] = SB.pkt_capacity; sb_send(ni, MSG_PKT_CAPACITY, d, 1); break;
	case MSG_FEATURE_GETALL: d[0] = 0; sb_send(ni, MSG_FEATURE_COUNT, d, 1); break;
	case MSG_FEATURE_GETNEXT: d[0] = 255; sb_send(ni, MSG_FEATURE_NA, d, 1); break;
	case MSG_FEATURE_GET: d[0] = ql ? q[0] : 0; d[1] = 0; sb_send(ni, MSG_FEATURE, d, 2); break;
	case MSG_FEATURE_SET: d[0] = ql ? q[0] : 0; d[1] = (uint8_t) ((ql > 1 ? q[1] : 0) ^ n->feature_xor); sb_send(ni, MSG_FEATURE, d, 2); break;
	case MSG_VENDOR_ENABLE: d[0] = 1; sb_send(ni, MSG_VENDOR_ACK, d, 1); break;
	case MSG_VENDOR_DISABLE: d[0] = 0; sb_send(ni, MSG_VENDOR_ACK, d, 1); break;
	case MSG_VENDOR_SET: case MSG_VENDOR_GET: {
		int nl = ql ? q[0] : 0; if (nl > 30) nl = 30; d[0] = (uint8_t) nl; memcpy(d + 1, q + 1, (size_t) nl); d[1 + nl] = 1; d[2 + nl] = '0';
		sb_send(ni, MSG_VENDOR, d, nl + 3); break; }
	case MSG_STRING_GET: case MSG_STRING_SET: d[0] = ql ? q[0] : 0; d[1] = ql > 1 ? q[1] : 0; d[2] = 0; sb_send(ni, MSG_STRING, d, 3); break;
	case MSG_BM_GET_RANGE: {
		int start = ql ? q[0] : 0, end = ql > 1 ? q[1] : 0; int size = end - start; if (size < 0) size = 0; if (size > 128) size = 128;
		size = (size + 7) / 8 * 8; d[0] = (uint8_t) start; d[1] = (uint8_t) size;
		for (int i = 0; i < size; i++) { int bit = start + i; if (bit < 256 && (n->occ[bit / 8] >> (bit % 8) & 1)) d[2 + i / 8] |= (uint8_t) (1 << (i % 8)); }
		sb_send(ni, MSG_BM_MULTIPLE, d, 2 + size / 8); break; }
	case MSG_BM_GET_CONFIDENCE: sb_send(ni, MSG_BM_CONFIDENCE, d, 3); break;
	case MSG_BOOST_ON: d[0] = 0x80; sb_send(ni, MSG_BOOST_STAT, d, 1); break;
	case MSG_BOOST_OFF: d[0] = 0x00; sb_send(ni, MSG_BOOST_STAT, d, 1); break;
	case MSG_BOOST_QUERY: d[0] = 0x00; sb_send(ni, MSG_BOOST_STAT, d, 1); break;
	case MSG_ACCESSORY_SET: d[0] = ql ? q[0] : 0; d[1] = ql > 1 ? q[1] : 0; n->acc_aspect[d[0]] = d[1]; d[2] = 2; d[3] = 0; d[4] = 0; sb_send(ni, MSG_ACCESSORY_STATE, d, 5); break;
	case MSG_ACCESSORY_GET: d[0] = ql ? q[0] : 0; d[1] = n->acc_aspect[d[0]]; d[2] = 2; d[3] = 0; d[4] = 0; sb_send(ni, MSG_ACCESSORY_STATE, d, 5); break;
	case MSG_ACCESSORY_PARA_SET: case MSG_ACCESSORY_PARA_GET: d[0] = ql ? q[0] : 0; d[1] = ql > 1 ? q[1] : 0; sb_send(ni, MSG_ACCESSORY_PARA, d, 3); break;
	case MSG_LC_OUTPUT: d[0] = ql ? q[0] : 0; d[1] = ql > 1 ? q[1] : 0; d[2] = ql > 2 ? q[2] : 0; sb_send(ni, MSG_LC_STAT, d, 3); break;
	case MSG_LC_PORT_QUERY: d[0] = ql ? q[0] : 0; d[1] = ql > 1 ? q[1] : 0; d[2] = 0; sb_send(ni, MSG_LC_STAT, d, 3); break;
	case MSG_LC_CONFIGX_SET: case MSG_LC_CONFIGX_GET: d[0] = ql ? q[0] : 0; d[1] = ql > 1 ? q[1] : 0; sb_send(ni, MSG_LC_CONFIGX, d, 2); break;
	case MSG_CS_SET_STATE: if (ql && q[0] != 0xFF) n->cs_state = q[0]; d[0] = n->cs_state; sb_send(ni, MSG_CS_STATE, d, 1); break;
	case MSG_CS_DRIVE: d[0] = ql ? q[0] : 0; d[1] = ql > 1 ? q[1] : 0; d[2] = 1; sb_send(ni, MSG_CS_DRIVE_ACK, d, 3); break;
	case MSG_CS_BIN_STATE: d[0] = ql ? q[0] : 0; d[1] = ql > 1 ? q[1] : 0; d[2] = 1; sb_send(ni, MSG_CS_DRIVE_ACK, d, 3); break;
	case MSG_CS_ACCESSORY: d[0] = ql ? q[0] : 0; d[1] = ql > 1 ? q[1] : 0; d[2] = 1; sb_send(ni, MSG_CS_ACCESSORY_ACK, d, 3); break;
	case MSG_CS_POM: d[0] = ql ? q[0] : 0; d[1] = ql > 1 ? q[1] : 0; d[5] = 1; sb_send(ni, MSG_CS_POM_ACK, d, 6); break;
	case MSG_CS_PROG: d[0] = 0; sb_send(ni, MSG_CS_PROG_STATE, d, 4); break;
	default:
		/* any other request that expects an answer gets its first accepted answer type with a zero payload */
		if (m->type < 128 && rf_resp[m->type].size > 0 && rf_resp[m->type].nacc > 0) sb_send(ni, rf_resp[m->type].acc[0], d, 9);
		break;
	}
}
static void handle_packet(const uint8_t *raw, size_t len, int write_idx) {
	static rc_pkt_t pk[2]; char err[100];
	int np = rc_decode_strict(raw, len, pk, 2, err, sizeof err);
	if (np != 1) { SB.malformed += (long) len; return; }
	for (int j = 0; j < pk[0].nmsgs; j++) {
		rc_msg_t *m = &pk[0].msgs[j];
		if (SB.nlog < 4096) {
			memcpy(SB.log[SB.nlog].addr, m->addr, 4); SB.log[SB.nlog].seq = m->seq; SB.log[SB.nlog].type = m->type;
			SB.log[SB.nlog].dlen = m->dlen > 132 ? 132 : m->dlen; memcpy(SB.log[SB.nlog].data, m->data, (size_t) SB.log[SB.nlog].dlen);
			SB.log[SB.nlog].t_us = vs_now_us(); SB.log[SB.nlog].write_idx = write_idx; SB.log[SB.nlog].tid = (uint8_t) vs_self_id(); SB.nlog++;
		}
		int ni = sb_find(m->addr);
		if (SB.on_msg && SB.on_msg(ni, m)) continue;
		if (ni >= 0) answer(ni, m);
	}
}
static void on_write(const uint8_t *buf, int32_t len) {
	/* accumulate, cut into delimiter-framed packets */
	for (int32_t i = 0; i < len; i++) {
		if (SB.acc_len < sizeof SB.acc) SB.acc[SB.acc_len++] = buf[i];
		if (buf[i] == RC_MAGIC && SB.acc_len > 1) {
			if (SB.acc[0] == RC_MAGIC) handle_packet(SB.acc, SB.acc_len, env_nwrites() - 1); else SB.malformed += (long) SB.acc_len;
			SB.acc_len = 0;
		} else if (buf[i] == RC_MAGIC && SB.acc_len == 1) { /* leading delimiter: keep */ }
	}
}
