#include "statedump.h"
#include "include/bidib.h"
#include <stdio.h>
#include <string.h>
#define P(...) do { if (o + 256 < n) o += (size_t) snprintf(buf + o, n - o, __VA_ARGS__); } while (0)
static size_t dump_bacc(char *buf, size_t n, size_t o, const char *tag, const t_bidib_board_accessory_state *a, size_t cnt) {
	for (size_t i = 0; i < cnt; i++) P("%s %s id=%s val=%u exec=%d wait=%u;", tag, a[i].id, a[i].data.state_id ? a[i].data.state_id : "-", a[i].data.state_value, (int) a[i].data.execution_state, a[i].data.wait_details);
	return o;
}
static size_t dump_dacc(char *buf, size_t n, size_t o, const char *tag, const t_bidib_dcc_accessory_state *a, size_t cnt, int with_coil) {
	for (size_t i = 0; i < cnt; i++) { P("%s %s id=%s val=%u oct=%d ack=%d tu=%d st=%u", tag, a[i].id, a[i].data.state_id ? a[i].data.state_id : "-", a[i].data.state_value,
		a[i].data.output_controls_timing, (int) a[i].data.ack, (int) a[i].data.time_unit, a[i].data.switch_time); if (with_coil) P(" coil=%d", a[i].data.coil_on); P(";"); }
	return o;
}
size_t sd_dump(char *buf, size_t n) {
	size_t o = 0; t_bidib_track_state s = bidib_get_state();
	o = dump_bacc(buf, n, o, "PB", s.points_board, s.points_board_count);
	o = dump_dacc(buf, n, o, "PD", s.points_dcc, s.points_dcc_count, 1);
	o = dump_bacc(buf, n, o, "SB", s.signals_board, s.signals_board_count);
	o = dump_dacc(buf, n, o, "SD", s.signals_dcc, s.signals_dcc_count, 1);
	for (size_t i = 0; i < s.peripherals_count; i++) P("PE %s id=%s val=%u tu=%d wait=%u;", s.peripherals[i].id, s.peripherals[i].data.state_id ? s.peripherals[i].data.state_id : "-", s.peripherals[i].data.state_value, (int) s.peripherals[i].data.time_unit, s.peripherals[i].data.wait);
	for (size_t i = 0; i < s.segments_count; i++) { const t_bidib_segment_state_data *d = &s.segments[i].data;
		P("SG %s occ=%d conf=%d%d%d pk=%d", s.segments[i].id, d->occupied, d->confidence.conf_void, d->confidence.freeze, d->confidence.nosignal, d->power_consumption.known);
		if (d->power_consumption.known) { P(" oc=%d", d->power_consumption.overcurrent); if (!d->power_consumption.overcurrent) P(" cur=%u", d->power_consumption.current); }
		P(" addrs=["); for (size_t k = 0; k < d->dcc_address_cnt; k++) P("%02x%02x/%u,", d->dcc_addresses[k].addrh, d->dcc_addresses[k].addrl, d->dcc_addresses[k].type); P("];"); }
	for (size_t i = 0; i < s.reversers_count; i++) P("RV %s id=%s val=%d;", s.reversers[i].id, s.reversers[i].data.state_id ? s.reversers[i].data.state_id : "-", (int) s.reversers[i].data.state_value);
	for (size_t i = 0; i < s.trains_count; i++) { const t_bidib_train_state_data *d = &s.trains[i].data;
		P("TR %s on=%d", s.trains[i].id, d->on_track); if (d->on_track) P(" ori=%d", (int) d->orientation);
		P(" step=%d fwd=%d ack=%d kmh=%d per=[", d->set_speed_step, d->set_is_forwards, (int) d->ack, d->detected_kmh_speed);
		for (size_t k = 0; k < d->peripheral_cnt; k++) P("%s=%u,", d->peripherals[k].id, d->peripherals[k].state);
		P("] dec="); if (d->decoder_state.signal_quality_known) P("q%u", d->decoder_state.signal_quality); if (d->decoder_state.temp_known) P("t%d", d->decoder_state.temp_celsius);
		if (d->decoder_state.energy_storage_known) P("e%u", d->decoder_state.energy_storage); if (d->decoder_state.container2_storage_known) P("c%u", d->decoder_state.container2_storage);
		if (d->decoder_state.container3_storage_known) P("d%u", d->decoder_state.container3_storage); P(";"); }
	for (size_t i = 0; i < s.booster_count; i++) { const t_bidib_booster_state_data *d = &s.booster[i].data;
		P("BO %s ps=%d simple=%d pk=%d", s.booster[i].id, (int) d->power_state, (int) d->power_state_simple, d->power_consumption.known);
		if (d->power_consumption.known) { P(" oc=%d", d->power_consumption.overcurrent); if (!d->power_consumption.overcurrent) P(" cur=%u", d->power_consumption.current); }
		if (d->voltage_known) P(" v=%u", d->voltage); if (d->temp_known) P(" t=%d", d->temp_celsius); P(";"); }
	for (size_t i = 0; i < s.track_outputs_count; i++) P("TO %s cs=%d;", s.track_outputs[i].id, (int) s.track_outputs[i].cs_state);
	bidib_free_track_state(s);
	return o;
}
size_t sd_dump_boards(char *buf, size_t n) {
	size_t o = 0; t_bidib_id_list_query b = bidib_get_boards();
	for (size_t i = 0; i < b.length; i++) { t_bidib_node_address_query a = bidib_get_nodeaddr(b.ids[i]); bool c = bidib_get_board_connected(b.ids[i]);
		P("BD %s c=%d", b.ids[i], c); if (c) P(" @%02x.%02x.%02x", a.address.top, a.address.sub, a.address.subsub); P(";"); }
	bidib_free_id_list_query(b);
	return o;
}
