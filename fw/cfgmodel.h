/* cfgmodel — in-memory model of a configuration triple + simulated presence, YAML emitter, reference encoder of the
 * high-level commands (what the configuration prescribes).  Used by C07, C08, C09, C14, C16, C17, C20. */
#ifndef CFGMODEL_H
#define CFGMODEL_H
#include <stdint.h>
#include <stddef.h>
#define CM_MAXB 4
#define CM_MAXT 8
typedef struct { char id[24]; uint8_t value; } cm_aspect_t;
typedef struct { uint8_t port, value; } cm_portval_t;
typedef struct { char id[24]; int nports; cm_portval_t ports[3]; } cm_dccaspect_t;
typedef struct { char id[24]; uint8_t number; int naspects; cm_aspect_t aspects[3]; char initial[24]; } cm_bacc_t;
typedef struct { char id[24]; uint8_t addrl, addrh, extended; int naspects; cm_dccaspect_t aspects[3]; char initial[24]; } cm_dacc_t;
typedef struct { char id[24]; uint8_t number, port0, port1; int naspects; cm_aspect_t aspects[3]; char initial[24]; } cm_periph_t;
typedef struct { char id[24]; uint8_t addr; char length[16]; } cm_seg_t;
typedef struct { char id[24]; char cv[12]; } cm_rev_t;
typedef struct { uint8_t number, value; } cm_feature_t;
typedef struct {
	char id[24]; uint8_t uid[7]; int nfeatures; cm_feature_t features[12];
	int in_track;
	int npb; cm_bacc_t pb[3]; int npd; cm_dacc_t pd[3]; int nsb; cm_bacc_t sb[3]; int nsd; cm_dacc_t sd[3];
	int nper; cm_periph_t per[3]; int nseg; cm_seg_t seg[4]; int nrev; cm_rev_t rev[2];
	/* simulated bus */
	int present; uint8_t local; int parent;      /* parent: model index of the interface board, -1 = root; board 0 is the root */
	uint8_t hub_local;                            /* != 0 (and parent < 0): the board sits beneath a hub that is NOT in the configuration, which has this local address at the root */
	int sbnode;                                   /* simbus node index after cm_install */
} cm_board_t;
typedef struct { char id[24]; uint8_t bit; int has_initial; uint8_t initial; } cm_tper_t;
typedef struct { char id[24]; uint8_t addrl, addrh; int steps; int ncal; int cal[10]; int nper; cm_tper_t per[32];
	int cal_form; /* 0 list; malformed forms for fault injection: 1 `calibration: 120` (scalar), 2 `calibration:` (empty), 3 scalar followed by a further plain key */ } cm_train_t;
typedef struct { int hex_case;   /* 0: as written by the emitter, 1: all hex digits upper case, 2: all lower case */
	int reverse_boards;             /* 1: the boards are listed in reverse order in the board and track files (the interface board last); 2: in the track file only; 3: in the board file only */
	int num_style;                  /* byte-sized values (written 0xNN by the emitter): 0 hexadecimal, 1 decimal, 2 decimal with leading zeros (010 is ten) */
	int nb; cm_board_t b[CM_MAXB]; int nt; cm_train_t t[CM_MAXT]; char board_txt[6000], track_txt[12000], train_txt[8000]; } cm_model_t;

void cm_add_function_train(cm_model_t *m);  /* adds train3 with one function f<bit> on every function slot (bits 0-4, 8-31) */
void cm_std(cm_model_t *m);                 /* the standard model: master (root, track output, booster), oc1, lc1, booster2 (second track output) */
void cm_emit(cm_model_t *m);                /* fills board_txt / track_txt / train_txt */
void cm_install(cm_model_t *m);             /* emit + env_set_cfg + build the simulated tree from present/parent/local */
int  cm_is_track_output(const cm_board_t *b);
int  cm_is_booster(const cm_board_t *b);
int  cm_board_connected(const cm_model_t *m, int bi);   /* present and all ancestors present */
void cm_board_addr(const cm_model_t *m, int bi, uint8_t addr[4]);

/* expected downlink message */
typedef struct { uint8_t addr[4]; uint8_t type; uint8_t data[12]; int dlen; } cm_msg_t;
/* reference encoders: return number of messages (0 = command must be rejected with nothing sent), out[] filled */
int cm_ref_board_accessory(const cm_model_t *m, int is_point, const char *id, const char *aspect, cm_msg_t *out);
int cm_ref_dcc_accessory(const cm_model_t *m, int is_point, const char *id, const char *aspect, cm_msg_t *out);
int cm_ref_peripheral(const cm_model_t *m, const char *id, const char *aspect, cm_msg_t *out);
/* speed -126..126 via track output board; fwd_if_zero: direction bit kept when speed is 0 */
int cm_ref_train_speed(const cm_model_t *m, const char *train, int speed, const char *track_output, int fwd_if_zero, cm_msg_t *out);
/* funcbits: current state of all 32 function bits of that train before the command */
int cm_ref_train_peripheral(const cm_model_t *m, const char *train, const char *periph, int state, const char *track_output, uint32_t funcbits, cm_msg_t *out);
const cm_train_t *cm_train(const cm_model_t *m, const char *id);
int cm_find_board(const cm_model_t *m, const char *id);
#endif
