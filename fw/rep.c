#define _GNU_SOURCE
#include "rep.h"
#include <stdarg.h>
#include <stdio.h>
#include <stdlib.h>
#include <string.h>
#include <sys/stat.h>

#define MAXH 64
static harness_t hs[MAXH]; static int nhs;
void harness_register(const char *name, run_fn fn) { if (nhs < MAXH) { hs[nhs].name = name; hs[nhs].fn = fn; nhs++; } }
run_fn harness_find(const char *name) { for (int i = 0; i < nhs; i++) if (!strcmp(hs[i].name, name)) return hs[i].fn; return NULL; }

typedef struct { char key[64]; long v; } ctr_t;
static ctr_t ctr[128]; static int nctr;
typedef struct { char key[64]; int v; } flag_t;
static flag_t flags[32]; static int nflags;
static char *samples[12]; static int nsamples;
static char *notes[64]; static int nnotes;
typedef struct { char *cls, *detail, *replay, *human; long count; size_t jobn; } viol_t;
static viol_t viols[256]; static int nviols; static long total_viol;
static int infra; static char *infra_msgs[16];
static char prop[16], tier[16], outdir[256];
static uint64_t t0;
double rep_deadline_s = 1e9;

double rep_elapsed(void) { return (double) (vs_real_now_ns() - t0) / 1e9; }
void rep_begin(const char *p, const char *t) {
	snprintf(prop, sizeof prop, "%s", p); snprintf(tier, sizeof tier, "%s", t);
	const char *root = getenv("VERIF_OUT"); if (!root) root = "/verif/out";
	mkdir(root, 0777);
	snprintf(outdir, sizeof outdir, "%s/%s", root, p); mkdir(outdir, 0777);
	nctr = nflags = nsamples = nnotes = nviols = infra = 0; total_viol = 0; t0 = vs_real_now_ns();
}
static ctr_t *cfind(const char *key) {
	for (int i = 0; i < nctr; i++) if (!strcmp(ctr[i].key, key)) return &ctr[i];
	if (nctr >= 128) return &ctr[127];
	snprintf(ctr[nctr].key, sizeof ctr[nctr].key, "%s", key); ctr[nctr].v = 0; return &ctr[nctr++];
}
void rep_count(const char *key, long d) { cfind(key)->v += d; }
void rep_setmax(const char *key, long v) { ctr_t *c = cfind(key); if (v > c->v) c->v = v; }
long rep_get(const char *key) { return cfind(key)->v; }
void rep_flag(const char *key, int v) {
	for (int i = 0; i < nflags; i++) if (!strcmp(flags[i].key, key)) { flags[i].v = v; return; }
	if (nflags < 32) { snprintf(flags[nflags].key, sizeof flags[nflags].key, "%s", key); flags[nflags++].v = v; }
}
void rep_sample(const char *fmt, ...) {
	if (nsamples >= 12) return;
	char *s = NULL; va_list ap; va_start(ap, fmt); if (vasprintf(&s, fmt, ap) < 0) s = NULL; va_end(ap);
	if (s) samples[nsamples++] = s;
}
void rep_note(const char *fmt, ...) {
	if (nnotes >= 64) return;
	char *s = NULL; va_list ap; va_start(ap, fmt); if (vasprintf(&s, fmt, ap) < 0) s = NULL; va_end(ap);
	if (s) notes[nnotes++] = s;
}
void rep_infra(const char *fmt, ...) {
	char *s = NULL; va_list ap; va_start(ap, fmt); if (vasprintf(&s, fmt, ap) < 0) s = NULL; va_end(ap);
	if (s) { fprintf(stderr, "INFRA: %s\n", s); if (infra < 16) infra_msgs[infra] = s; }
	infra++;
}
int rep_infra_errors(void) { return infra; }
int rep_nviol(void) { return nviols; }

static void jstr(FILE *f, const char *s) {
	fputc('"', f);
	for (; s && *s; s++) {
		unsigned char c = (unsigned char) *s;
		if (c == '"' || c == '\\') { fputc('\\', f); fputc(c, f); }
		else if (c == '\n') fputs("\\n", f);
		else if (c == '\t') fputs("\\t", f);
		else if (c < 0x20 || c >= 0x7f) fprintf(f, "\\u%04x", c);
		else fputc(c, f);
	}
	fputc('"', f);
}
static void write_replay(viol_t *v, const char *harness, const void *job, size_t n) {
	FILE *f = fopen(v->replay, "w");
	if (!f) return;
	fprintf(f, "{\"property\":"); jstr(f, prop); fprintf(f, ",\"harness\":"); jstr(f, harness);
	fprintf(f, ",\"class\":"); jstr(f, v->cls); fprintf(f, ",\"detail\":"); jstr(f, v->detail);
	fprintf(f, ",\"case\":"); jstr(f, v->human); fprintf(f, ",\"job_hex\":\"");
	for (size_t i = 0; i < n; i++) fprintf(f, "%02x", ((const uint8_t *) job)[i]);
	fprintf(f, "\"}\n"); fclose(f);
}
void rep_violation(const char *cls, const char *detail, const char *harness, const void *job, size_t n, const char *human) {
	total_viol++;
	for (int i = 0; i < nviols; i++) if (!strcmp(viols[i].cls, cls)) {
		viols[i].count++;
		if (n < viols[i].jobn || (human && strstr(human, "single case") && !strstr(viols[i].human, "single case"))) {   /* keep the smallest witness */
			free(viols[i].detail); free(viols[i].human);
			viols[i].detail = strdup(detail ? detail : ""); viols[i].human = strdup(human ? human : ""); viols[i].jobn = n;
			write_replay(&viols[i], harness, job, n);
		}
		return;
	}
	if (nviols >= 256) return;
	viol_t *v = &viols[nviols];
	v->cls = strdup(cls); v->detail = strdup(detail ? detail : ""); v->count = 1; v->human = strdup(human ? human : ""); v->jobn = n;
	char path[400]; snprintf(path, sizeof path, "%s/%s-%d.replay.json", outdir, tier, nviols);
	v->replay = strdup(path);
	write_replay(v, harness, job, n);
	nviols++;
}
/* outcome log (definedness differential, DESIGN 2.7): one line per execution = harness, job, outcome/state hashes.  vcheck
 * compares the logs of two builds that differ only in how uninitialised automatic variables are filled. */
static FILE *olog; static int olog_tried;
static void outcome_log(const run_res_t *r, const char *harness, const void *job, size_t n, const char *human) {
	if (!olog_tried) { olog_tried = 1; const char *p = getenv("VERIF_OUTCOME_LOG"); if (p && *p) olog = fopen(p, "w"); }
	if (!olog) return;
	fprintf(olog, "%s\t", harness);
	for (size_t i = 0; i < n; i++) fprintf(olog, "%02x", ((const uint8_t *) job)[i]);
	fputc('\t', olog);
	const char *l; int any = 0;
	for (int i = 0; i < 4 && (l = res_line(r, 'O', i)); i++) { fprintf(olog, "O %s|", l); any = 1; }
	for (int i = 0; i < 4 && (l = res_line(r, 'S', i)); i++) { fprintf(olog, "S %s|", l); any = 1; }
	if (!any) fprintf(olog, "status=%d", r->status);
	fputc('\t', olog);
	for (const char *c = human ? human : ""; *c; c++) fputc(*c == '\n' || *c == '\t' ? ' ' : *c, olog);
	fputc('\n', olog);
}
int rep_collect(const run_res_t *r, const char *harness, const void *job, size_t n, const char *human) {
	int k = 0;
	outcome_log(r, harness, job, n, human);
	if (r->status == 2) { rep_violation("hang wall-clock-timeout", "child exceeded the wall-clock limit (no scheduling point reached)", harness, job, n, human); return 1; }
	const char *l;
	for (int i = 0; (l = res_line(r, 'V', i)); i++) {
		char cls[512]; const char *tab = strchr(l, '\t');
		size_t cl = tab ? (size_t) (tab - l) : strlen(l); if (cl >= sizeof cls) cl = sizeof cls - 1;
		memcpy(cls, l, cl); cls[cl] = 0;
		rep_violation(cls, tab ? tab + 1 : "", harness, job, n, human); k++;
	}
	if ((l = res_line(r, 'A', 0))) {
		char cls[512]; const char *tab = strchr(l, '\t');
		size_t cl = tab ? (size_t) (tab - l) : strlen(l); if (cl >= 400) cl = 400;
		memcpy(cls, l, cl); cls[cl] = 0;
		if (!strcmp(cls, "replay-divergence") || !strcmp(cls, "unmodelled")) rep_infra("%s: %s (%s)", cls, tab ? tab + 1 : "", human ? human : "");
		else { rep_violation(cls, tab ? tab + 1 : "", harness, job, n, human); k++; }
	}
	for (int i = 0; (l = res_line(r, 'C', i)); i++) { char key[64]; long v; if (sscanf(l, "%63s %ld", key, &v) == 2) rep_count(key, v); }
	if ((l = res_line(r, 'E', 0))) rep_infra("child: %s (%s)", l, human ? human : "");
	if (r->status == 1 || r->status == 3) {
		if (k == 0) {
			char cls[64], det[128];
			if (r->status == 1) { snprintf(cls, sizeof cls, "crash signal=%d", r->sig); snprintf(det, sizeof det, "child killed by signal %d", r->sig); }
			else { snprintf(cls, sizeof cls, "crash exit=%d", r->exitcode); snprintf(det, sizeof det, "child exited with %d without reporting", r->exitcode); }
			rep_violation(cls, det, harness, job, n, human); k++;
		}
	}
	return k;
}
void rep_end(void) {
	char path[400]; snprintf(path, sizeof path, "%s/%s-result.json", outdir, tier);
	FILE *f = fopen(path, "w");
	if (!f) { perror(path); exit(2); }
	fprintf(f, "{\"property\":"); jstr(f, prop); fprintf(f, ",\"tier\":"); jstr(f, tier);
	fprintf(f, ",\"wall_s\":%.3f,\"infra_errors\":%d,\"infra_messages\":[", rep_elapsed(), infra);
	for (int i = 0; i < infra && i < 16; i++) { if (i) fputc(',', f); jstr(f, infra_msgs[i]); }
	fprintf(f, "],\"counters\":{");
	for (int i = 0; i < nctr; i++) { if (i) fputc(',', f); jstr(f, ctr[i].key); fprintf(f, ":%ld", ctr[i].v); }
	fprintf(f, "},\"flags\":{");
	for (int i = 0; i < nflags; i++) { if (i) fputc(',', f); jstr(f, flags[i].key); fprintf(f, ":%s", flags[i].v ? "true" : "false"); }
	fprintf(f, "},\"samples\":[");
	for (int i = 0; i < nsamples; i++) { if (i) fputc(',', f); jstr(f, samples[i]); }
	fprintf(f, "],\"notes\":[");
	for (int i = 0; i < nnotes; i++) { if (i) fputc(',', f); jstr(f, notes[i]); }
	fprintf(f, "],\"total_violations\":%ld,\"violations\":[", total_viol);
	for (int i = 0; i < nviols; i++) {
		if (i) fputc(',', f);
		fprintf(f, "{\"class\":"); jstr(f, viols[i].cls); fprintf(f, ",\"detail\":"); jstr(f, viols[i].detail);
		fprintf(f, ",\"case\":"); jstr(f, viols[i].human);
		fprintf(f, ",\"replay\":"); jstr(f, viols[i].replay); fprintf(f, ",\"count\":%ld}", viols[i].count);
	}
	fprintf(f, "]}\n"); fclose(f);
	if (olog) { fclose(olog); olog = NULL; olog_tried = 0; }
}

size_t job_build(uint8_t *out, const vs_dev_t *devs, int ndevs, const void *payload, size_t n) {
	size_t o = 0; out[o++] = (uint8_t) ndevs;
	for (int i = 0; i < ndevs; i++) { memcpy(out + o, &devs[i].pos, 4); o += 4; out[o++] = devs[i].alt; memcpy(out + o, &devs[i].sig, 4); o += 4; }
	if (n) memcpy(out + o, payload, n); o += n;
	return o;
}
const uint8_t *job_parse(const void *job, size_t n, vs_dev_t *devs, int *ndevs, size_t *plen) {
	const uint8_t *p = job; size_t o = 0; int k = p[o++];
	vs_unlock_points_req = k >> 6; k &= 63;      /* e1_spec_t.unlock_points travels in the two top bits of the deviation count */
	for (int i = 0; i < k; i++) { memcpy(&devs[i].pos, p + o, 4); o += 4; devs[i].alt = p[o++]; memcpy(&devs[i].sig, p + o, 4); o += 4; }
	*ndevs = k; *plen = n - o;
	return p + o;
}
