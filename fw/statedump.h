/* statedump — canonical text of the whole tracked state, obtained through the public snapshot getter */
#ifndef STATEDUMP_H
#define STATEDUMP_H
#include <stddef.h>
size_t sd_dump(char *buf, size_t n);          /* bidib_get_state() serialised; values behind a false 'known' flag are not printed */
size_t sd_dump_boards(char *buf, size_t n);   /* connectivity and addresses of all boards */
#endif
