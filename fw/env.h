/* env — the closed environment: uplink byte queue, downlink transcript, virtual config files, log sink. */
#ifndef ENV_H
#define ENV_H
#include <stdint.h>
#include <stddef.h>

#define ENV_IN_MAX 65536
#define ENV_OUT_MAX (1 << 20)
#define ENV_WR_MAX 8192
#define ENV_NOBYTE 0x100      /* out-of-band marker in the input queue: report "no byte" once */

typedef struct { uint32_t off, len; uint8_t tid; uint64_t t_us; uint8_t joined_seen; uint32_t consumed; /* uplink bytes the library had read when it made this write */ } env_write_t;

void env_reset(void);
/* callbacks handed to bidib_start_pointer */
uint8_t env_read(int *ok);
void env_write(uint8_t *buf, int32_t len);
/* feeding the uplink */
void env_push(const uint8_t *bytes, size_t n);          /* scheduling point */
void env_push_quiet(const uint8_t *bytes, size_t n);    /* no scheduling point (used from inside write callback) */
void env_push_nobyte(void);
int  env_input_pending(void);
void env_clear_io(void);                                /* forget pending uplink bytes and the downlink transcript (between sessions) */
size_t env_input_dump(char *buf, size_t n);             /* uplink bytes not yet read by the library (part of the environment's state) */
size_t env_bytes_consumed(void);
/* downlink transcript */
const uint8_t *env_out(void); size_t env_out_len(void);
const env_write_t *env_writes(void); int env_nwrites(void);
extern void (*env_on_write)(const uint8_t *buf, int32_t len);   /* simulated bus hook */
extern int env_write_yields;                            /* the write callback yields to the scheduler before it reads the buffer (slow device) */
/* virtual config files: directory name "vcfg:<anything>/" */
void env_set_cfg(const char *board, const char *track, const char *train); /* NULL = missing file */
#define ENV_CFG_DIR "vcfg:/"
/* log */
extern int env_log_to_stderr;
extern unsigned env_log_lines;
#endif
