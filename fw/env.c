#define _GNU_SOURCE
#include "env.h"
#include "vsched.h"
#include <stdarg.h>
#include <stdio.h>
#include <stdlib.h>
#include <string.h>
#include <stdlib.h>

static uint16_t inq[ENV_IN_MAX]; static size_t in_head, in_tail; static size_t consumed;
static uint8_t *outb; static size_t out_len;
static env_write_t *wr; static int nwr;
void (*env_on_write)(const uint8_t *, int32_t);
int env_log_to_stderr; unsigned env_log_lines;
static const char *cfg_txt[3]; static int cfg_set;

void env_reset(void) {
	env_log_to_stderr = getenv("VERIF_LOG") != NULL;
	in_head = in_tail = 0; consumed = 0; out_len = 0; nwr = 0; env_write_yields = 0;
	if (!outb) outb = malloc(ENV_OUT_MAX);
	if (!wr) wr = malloc(sizeof(env_write_t) * ENV_WR_MAX);
	env_on_write = NULL; cfg_set = 0; cfg_txt[0] = cfg_txt[1] = cfg_txt[2] = NULL;
}
int env_input_pending(void) { return in_head != in_tail; }
void env_clear_io(void) { in_head = in_tail = 0; consumed = 0; out_len = 0; nwr = 0; }
size_t env_input_dump(char *buf, size_t n) { size_t o = 0; buf[0] = 0; for (size_t i = in_head; i != in_tail && o + 4 < n; i++) o += (size_t) snprintf(buf + o, n - o, "%02x", inq[i % ENV_IN_MAX]); return o; }
size_t env_bytes_consumed(void) { return consumed; }

uint8_t env_read(int *ok) {
	if (in_head == in_tail) { *ok = 0; vs_hint_wait_input(); return 0; }
	uint16_t v = inq[in_head % ENV_IN_MAX]; in_head++;
	if (v == ENV_NOBYTE) { *ok = 0; vs_hint_wait_input(); return 0; }
	*ok = 1; consumed++;
	return (uint8_t) v;
}
void env_push_quiet(const uint8_t *b, size_t n) {
	for (size_t i = 0; i < n; i++) {
		if (in_tail - in_head >= ENV_IN_MAX) { fprintf(stderr, "env: input queue overflow\n"); _Exit(98); }
		inq[in_tail % ENV_IN_MAX] = b[i]; in_tail++;
	}
}
void env_push(const uint8_t *b, size_t n) { env_push_quiet(b, n); vs_point(); }
void env_push_nobyte(void) { inq[in_tail % ENV_IN_MAX] = ENV_NOBYTE; in_tail++; }

int env_write_yields;   /* 1: the write callback is a scheduling point before it consumes the bytes (a write that blocks on a slow serial port: other threads run while this one sits in the callback) */
void env_write(uint8_t *buf, int32_t len) {
	if (len < 0) len = 0;
	if (env_write_yields && vs_active()) vs_point();
	if (nwr < ENV_WR_MAX && out_len + (size_t) len <= ENV_OUT_MAX) {
		wr[nwr].off = (uint32_t) out_len; wr[nwr].len = (uint32_t) len;
		wr[nwr].tid = (uint8_t) vs_self_id(); wr[nwr].t_us = vs_now_us();
		wr[nwr].joined_seen = (uint8_t) vs_threads_joined(); wr[nwr].consumed = (uint32_t) consumed;
		nwr++;
		memcpy(outb + out_len, buf, (size_t) len); out_len += (size_t) len;
	} else { fprintf(stderr, "env: transcript overflow\n"); _Exit(98); }
	if (env_on_write) env_on_write(buf, len);
}
const uint8_t *env_out(void) { return outb; }
size_t env_out_len(void) { return out_len; }
const env_write_t *env_writes(void) { return wr; }
int env_nwrites(void) { return nwr; }

void env_set_cfg(const char *board, const char *track, const char *train) {
	cfg_txt[0] = board; cfg_txt[1] = track; cfg_txt[2] = train; cfg_set = 1;
}
FILE *__real_fopen(const char *path, const char *mode);
FILE *__wrap_fopen(const char *path, const char *mode) {
	if (path && !strncmp(path, "vcfg:", 5)) {
		const char *t = NULL; int known = 0;
		if (strstr(path, "bidib_board_config.yml")) { t = cfg_txt[0]; known = 1; }
		else if (strstr(path, "bidib_track_config.yml")) { t = cfg_txt[1]; known = 1; }
		else if (strstr(path, "bidib_train_config.yml")) { t = cfg_txt[2]; known = 1; }
		if (!known || !t) return NULL;
		size_t n = strlen(t);
		if (n == 0) return __real_fopen("/dev/null", "r");
		return fmemopen((void *) t, n, "r");
	}
	return __real_fopen(path, mode);
}

/* log sink */
void __wrap_syslog(int prio, const char *fmt, ...) {
	env_log_lines++;
	if (env_log_to_stderr) {
		va_list ap; va_start(ap, fmt);
		fprintf(stderr, "[t%d %8llu us p%d] ", vs_self_id(), (unsigned long long) vs_now_us(), prio);
		vfprintf(stderr, fmt, ap); fputc('\n', stderr); va_end(ap);
	}
}
void __wrap_openlog(const char *ident, int opt, int fac) { (void) ident; (void) opt; (void) fac; }
void __wrap_closelog(void) {}
