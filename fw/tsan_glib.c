/* tsan_glib — ThreadSanitizer annotations for the glib containers the library shares between threads.
 * glib itself is not instrumented, so a race on a GQueue / GHashTable / GArray would be invisible; the library's calls are
 * redirected here (-Wl,--wrap, tsan variant only) and reported to TSan as reads/writes of the container object. */
#if defined(VARIANT_TSAN)
#include <glib.h>
void __tsan_read_range(void *addr, unsigned long size);
void __tsan_write_range(void *addr, unsigned long size);
#define RD(p) do { if (p) __tsan_read_range((void *) (p), 8); } while (0)
#define WR(p) do { if (p) __tsan_write_range((void *) (p), 8); } while (0)
void __real_g_queue_push_tail(GQueue *q, gpointer d); void __wrap_g_queue_push_tail(GQueue *q, gpointer d) { WR(q); __real_g_queue_push_tail(q, d); }
gpointer __real_g_queue_pop_head(GQueue *q); gpointer __wrap_g_queue_pop_head(GQueue *q) { WR(q); return __real_g_queue_pop_head(q); }
gpointer __real_g_queue_peek_head(GQueue *q); gpointer __wrap_g_queue_peek_head(GQueue *q) { RD(q); return __real_g_queue_peek_head(q); }
gboolean __real_g_queue_is_empty(GQueue *q); gboolean __wrap_g_queue_is_empty(GQueue *q) { RD(q); return __real_g_queue_is_empty(q); }
guint __real_g_queue_get_length(GQueue *q); guint __wrap_g_queue_get_length(GQueue *q) { RD(q); return __real_g_queue_get_length(q); }
GList *__real_g_queue_find_custom(GQueue *q, gconstpointer d, GCompareFunc f); GList *__wrap_g_queue_find_custom(GQueue *q, gconstpointer d, GCompareFunc f) { RD(q); return __real_g_queue_find_custom(q, d, f); }
void __real_g_queue_free(GQueue *q); void __wrap_g_queue_free(GQueue *q) { WR(q); __real_g_queue_free(q); }
gpointer __real_g_hash_table_lookup(GHashTable *h, gconstpointer k); gpointer __wrap_g_hash_table_lookup(GHashTable *h, gconstpointer k) { RD(h); return __real_g_hash_table_lookup(h, k); }
gboolean __real_g_hash_table_insert(GHashTable *h, gpointer k, gpointer v); gboolean __wrap_g_hash_table_insert(GHashTable *h, gpointer k, gpointer v) { WR(h); return __real_g_hash_table_insert(h, k, v); }
void __real_g_hash_table_iter_init(GHashTableIter *it, GHashTable *h); void __wrap_g_hash_table_iter_init(GHashTableIter *it, GHashTable *h) { RD(h); __real_g_hash_table_iter_init(it, h); }
void __real_g_hash_table_destroy(GHashTable *h); void __wrap_g_hash_table_destroy(GHashTable *h) { WR(h); __real_g_hash_table_destroy(h); }
GArray *__real_g_array_append_vals(GArray *a, gconstpointer d, guint n); GArray *__wrap_g_array_append_vals(GArray *a, gconstpointer d, guint n) { if (a) __tsan_write_range(a, sizeof(GArray)); return __real_g_array_append_vals(a, d, n); }
GArray *__real_g_array_remove_range(GArray *a, guint i, guint n); GArray *__wrap_g_array_remove_range(GArray *a, guint i, guint n) { if (a) { __tsan_write_range(a, sizeof(GArray)); if (a->data) __tsan_write_range(a->data, 1); } return __real_g_array_remove_range(a, i, n); }
gchar *__real_g_array_free(GArray *a, gboolean f); gchar *__wrap_g_array_free(GArray *a, gboolean f) { if (a) __tsan_write_range(a, sizeof(GArray)); return __real_g_array_free(a, f); }
#else
typedef int tsan_glib_unused;
#endif
