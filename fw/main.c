#define _GNU_SOURCE
#include "explore.h"
#include "hx.h"
#include <stdio.h>
#include <stdlib.h>
#include <string.h>
#include <unistd.h>

typedef struct { const char *id; void (*reg)(void); int (*run)(const char *tier); } check_t;
#define CHECK(x) void x##_register(void); int x##_run(const char *tier);
#include "checks.inc"
#undef CHECK
#define CHECK(x) { #x, x##_register, x##_run },
static check_t checks[] = {
#include "checks.inc"
	{ NULL, NULL, NULL } };

static int hexval(int c) { return c >= '0' && c <= '9' ? c - '0' : c >= 'a' && c <= 'f' ? c - 'a' + 10 : c >= 'A' && c <= 'F' ? c - 'A' + 10 : -1; }
static char *json_str(const char *txt, const char *key) {
	char pat[64]; snprintf(pat, sizeof pat, "\"%s\":\"", key);
	const char *p = strstr(txt, pat); if (!p) return NULL;
	p += strlen(pat);
	char *out = malloc(strlen(p) + 1); size_t o = 0;
	while (*p && *p != '"') { if (*p == '\\' && p[1]) { p++; out[o++] = *p == 'n' ? '\n' : *p == 't' ? '\t' : *p; p++; } else out[o++] = *p++; }
	out[o] = 0; return out;
}
static int do_replay(const char *path) {
	FILE *f = fopen(path, "r"); if (!f) { perror(path); return 2; }
	char *txt = malloc(1 << 22); size_t n = fread(txt, 1, (1 << 22) - 1, f); txt[n] = 0; fclose(f);
	char *harness = json_str(txt, "harness"), *cls = json_str(txt, "class"), *hex = json_str(txt, "job_hex"), *prop = json_str(txt, "property");
	if (!harness || !hex) { fprintf(stderr, "bad replay file\n"); return 2; }
	size_t jn = strlen(hex) / 2; uint8_t *job = malloc(jn + 1);
	for (size_t i = 0; i < jn; i++) job[i] = (uint8_t) (hexval(hex[2 * i]) * 16 + hexval(hex[2 * i + 1]));
	run_fn fn = harness_find(harness);
	if (!fn) { fprintf(stderr, "unknown harness %s\n", harness); return 2; }
	setenv("VERIF_IN_REPLAY", "1", 1);   /* harnesses may print their full observation (X lines) when replayed */
	run_init(1, 120);
	int reproduced = 0; char *first = NULL;
	for (int k = 0; k < 2; k++) {
		run_submit(fn, job, jn, NULL); run_res_t r; run_wait(&r);
		printf("--- replay run %d: status=%d sig=%d\n%s", k + 1, r.status, r.sig, r.text ? r.text : "");
		int hit = 0;
		if (cls) {
			char pat[600]; snprintf(pat, sizeof pat, "V %s\t", cls); if (r.text && strstr(r.text, pat)) hit = 1;
			snprintf(pat, sizeof pat, "A %s\t", cls); if (r.text && strstr(r.text, pat)) hit = 1;
			if (!strncmp(cls, "crash", 5) && (r.status == 1 || r.status == 3)) hit = 1;
			if (!strncmp(cls, "hang wall", 9) && r.status == 2) hit = 1;
		}
		reproduced += hit;
		if (k == 0) first = strdup(r.text ? r.text : ""); else if (strcmp(first, r.text ? r.text : "")) printf("WARNING: the two replay runs differ\n");
	}
	if (reproduced == 2) { printf("VIOLATION property=%s replay=%s\n", prop ? prop : "?", path); return 1; }
	printf("not reproduced (%d/2)\n", reproduced);
	return 0;
}

int main(int argc, char **argv) {
	setvbuf(stdout, NULL, _IOLBF, 0);
	for (check_t *c = checks; c->id; c++) c->reg();
	hx_symtab_load();
	if (argc >= 3 && !strcmp(argv[1], "replay")) { int rc = do_replay(argv[2]); fflush(stdout); _exit(rc); }
	if (argc >= 4 && !strcmp(argv[1], "run")) {
		const char *jobs = getenv("VERIF_JOBS"); int P = jobs ? atoi(jobs) : 20; if (P < 1) P = 1; if (P > 200) P = 200;
		const char *to = getenv("VERIF_CHILD_TIMEOUT");
		run_init(P, to ? atof(to) : 120.0);   /* wall-clock limit per child: only loops without any scheduling point need it; generous so that a loaded machine cannot turn a slow batch into a "hang" */
		const char *dl = getenv("VERIF_DEADLINE"); if (dl) rep_deadline_s = atof(dl);
		for (check_t *c = checks; c->id; c++) if (!strcasecmp(c->id, argv[2])) {
			char up[16]; snprintf(up, sizeof up, "%s", argv[2]); for (char *p = up; *p; p++) if (*p >= 'a' && *p <= 'z') *p -= 32;
			rep_begin(up, argv[3]);
			int rc = c->run(argv[3]);
			rep_end();
			return rc;
		}
		fprintf(stderr, "unknown check %s\n", argv[2]); return 2;
	}
	fprintf(stderr, "usage: vharness run <check> <tier> | replay <file>\n");
	return 2;
}
