#define _GNU_SOURCE
#include "explore.h"
#include <stdio.h>
#include <stdlib.h>
#include <string.h>

int kset_add(kset_t *s, uint64_t a, uint64_t b) {
	if (a == 0 && b == 0) a = 1;
	if (s->n * 2 >= s->cap) {
		size_t nc = s->cap ? s->cap * 2 : 4096; uint64_t (*nt)[2] = calloc(nc, sizeof *nt);
		for (size_t i = 0; i < s->cap; i++) if (s->tab[i][0] || s->tab[i][1]) {
			size_t h = (size_t) (s->tab[i][0] ^ (s->tab[i][1] * 0x9E3779B97F4A7C15ull)) & (nc - 1);
			while (nt[h][0] || nt[h][1]) h = (h + 1) & (nc - 1);
			nt[h][0] = s->tab[i][0]; nt[h][1] = s->tab[i][1];
		}
		free(s->tab); s->tab = nt; s->cap = nc;
	}
	size_t h = (size_t) (a ^ (b * 0x9E3779B97F4A7C15ull)) & (s->cap - 1);
	while (s->tab[h][0] || s->tab[h][1]) { if (s->tab[h][0] == a && s->tab[h][1] == b) return 0; h = (h + 1) & (s->cap - 1); }
	s->tab[h][0] = a; s->tab[h][1] = b; s->n++;
	return 1;
}
void kset_free(kset_t *s) { free(s->tab); memset(s, 0, sizeof *s); }

static int parse_key(const run_res_t *r, char tag, uint64_t *a, uint64_t *b) {
	const char *l = res_line(r, tag, 0);
	if (!l) return 0;
	unsigned long long x = 0, y = 0;
	if (sscanf(l, "%llx %llx", &x, &y) < 1) return 0;
	*a = x; *b = y; return 1;
}

/* determinism self-test: run one job twice, the complete result text must be identical */
void det_check(const char *harness, run_fn fn, const void *job, size_t jn) {
	char *first = NULL;
	for (int k = 0; k < 2; k++) {
		run_submit(fn, job, jn, NULL);
		run_res_t r; run_wait(&r);
		if (k == 0) first = strdup(r.text ? r.text : "");
		else if (strcmp(first, r.text ? r.text : "")) rep_infra("determinism self-test failed for %s: two runs of the same job differ", harness);
	}
	rep_count("determinism_selftests", 1);
	free(first);
}

/* ------------------------------------------------------------------ E1 */
typedef struct { int ndevs; vs_dev_t devs[VS_MAXDEV]; int cost; } e1_item_t;
typedef struct { e1_item_t *v; size_t n, cap; } bucket_t;
static void bpush(bucket_t *b, const e1_item_t *it) {
	if (b->n == b->cap) { b->cap = b->cap ? b->cap * 2 : 256; b->v = realloc(b->v, b->cap * sizeof *b->v); }
	b->v[b->n++] = *it;
}
static void human_sched(const e1_item_t *it, char *buf, size_t n) {
	size_t o = (size_t) snprintf(buf, n, "schedule cost=%d deviations=[", it->cost);
	for (int i = 0; i < it->ndevs && o + 32 < n; i++) o += (size_t) snprintf(buf + o, n - o, "%s@%u:alt%u", i ? " " : "", it->devs[i].pos, it->devs[i].alt);
	snprintf(buf + o, n - o, "]");
}
int e1_explore(e1_spec_t *s) {
	run_fn fn = harness_find(s->harness);
	if (!fn) { rep_infra("unknown harness %s", s->harness); return -1; }
	bucket_t bk[8]; memset(bk, 0, sizeof bk);
	int out_cost[8]; memset(out_cost, 0, sizeof out_cost);   /* outstanding per cost */
	kset_t outcomes; memset(&outcomes, 0, sizeof outcomes);
	memset(s->schedules_by_cost, 0, sizeof s->schedules_by_cost);
	s->completed_bound = -1; s->contended_execs = 0; s->choice_points = 0; s->exhaustive = 1;
	e1_item_t root; memset(&root, 0, sizeof root); bpush(&bk[0], &root);
	e1_item_t *inflight = calloc((size_t) run_parallel(), sizeof *inflight); char *used = calloc((size_t) run_parallel(), 1);
	uint8_t *job = malloc(s->nparam + 1024);
	int stop_expanding = 0; int min_dropped = 99;
	{ size_t jn0 = job_build(job, NULL, 0, s->param, s->nparam); job[0] |= (uint8_t) (s->unlock_points << 6); det_check(s->harness, fn, job, jn0); }
	for (;;) {
		/* submit */
		while (run_outstanding() < run_parallel()) {
			int c = -1;
			for (int i = 0; i <= s->bound && i < 8; i++) if (bk[i].n) { c = i; break; }
			if (c < 0) break;
			if (rep_elapsed() > rep_deadline_s) { stop_expanding = 1; break; }
			e1_item_t it = bk[c].v[--bk[c].n];
			int slot = 0; while (used[slot]) slot++;
			used[slot] = 1; inflight[slot] = it;
			size_t jn = job_build(job, it.devs, it.ndevs, s->param, s->nparam); job[0] |= (uint8_t) (s->unlock_points << 6);
			run_submit(fn, job, jn, (void *) (intptr_t) slot);
			out_cost[c]++;
		}
		if (stop_expanding && run_outstanding() == 0) break;
		run_res_t r;
		if (!run_wait(&r)) break;
		int slot = (int) (intptr_t) r.tag; e1_item_t it = inflight[slot]; used[slot] = 0;
		out_cost[it.cost]--; s->schedules_by_cost[it.cost]++;
		char human[512]; human_sched(&it, human, sizeof human);
		size_t jn = job_build(job, it.devs, it.ndevs, s->param, s->nparam); job[0] |= (uint8_t) (s->unlock_points << 6);
		char hbuf[700]; snprintf(hbuf, sizeof hbuf, "%s %s", s->label ? s->label : s->harness, human);
		rep_collect(&r, s->harness, job, jn, hbuf);
		uint64_t a, b;
		if (parse_key(&r, 'O', &a, &b)) kset_add(&outcomes, a, b);
		if (rep_get("e1_sample_n") < 3) { rep_count("e1_sample_n", 1); rep_sample("%s -> %s", hbuf, res_line(&r, 'O', 0) ? res_line(&r, 'O', 0) : "(no outcome)"); }
		const char *t = res_line(&r, 'T', 0);
		if (stop_expanding && it.cost < min_dropped) min_dropped = it.cost;
		if (t && !stop_expanding) {
			int last = it.ndevs ? (int) it.devs[it.ndevs - 1].pos : -1;
			int i = 0; int cost = 0; int contended = 0;
			const char *p = t;
			while (*p) {
				unsigned n, cm, ch, sig; int used_chars = 0;
				if (sscanf(p, "%x.%x.%x.%x,%n", &n, &cm, &ch, &sig, &used_chars) < 4) break;
				p += used_chars;
				if (cm & 2u) contended = 1;
				if (i > last && it.ndevs < VS_MAXDEV) {
					for (unsigned alt = 1; alt < n; alt++) {
						int c2 = cost + ((cm >> alt) & 1u);
						if (c2 > s->bound) continue;
						e1_item_t ni = it; ni.devs[ni.ndevs].pos = (uint32_t) i; ni.devs[ni.ndevs].alt = (uint8_t) alt;
						ni.devs[ni.ndevs].sig = sig; ni.ndevs++; ni.cost = c2;
						bpush(&bk[c2], &ni);
					}
				}
				if (ch && ((cm >> ch) & 1u)) cost++;
				i++;
			}
			s->choice_points += i;
			if (contended) s->contended_execs++;
		}
	}
	/* which bounds completed?  without a deadline: all of them.  otherwise: everything strictly below the cheapest
	 * schedule that was left unexplored or whose successors were not generated */
	int complete = s->bound;
	if (stop_expanding) {
		int lowest = min_dropped;
		for (int c = 0; c <= s->bound && c < 8; c++) if (bk[c].n && c < lowest) lowest = c;
		complete = lowest - 1; s->exhaustive = 0;
	}
	s->completed_bound = complete; s->distinct_outcomes = (long) outcomes.n;
	for (int i = 0; i < 8; i++) free(bk[i].v);
	kset_free(&outcomes); free(inflight); free(used); free(job);
	return 0;
}

/* ------------------------------------------------------------------ E2 */
typedef struct { uint8_t len; uint8_t ev[15]; } hist_t;
static void human_hist(const e2_spec_t *s, const hist_t *h, char *buf, size_t n) {
	size_t o = (size_t) snprintf(buf, n, "history=[");
	for (int i = 0; i < h->len && o + 48 < n; i++) {
		if (s->evname) o += (size_t) snprintf(buf + o, n - o, "%s%s", i ? ", " : "", s->evname(h->ev[i]));
		else o += (size_t) snprintf(buf + o, n - o, "%s%d", i ? "," : "", h->ev[i]);
	}
	snprintf(buf + o, n - o, "]");
}
/* key -> value map for the abstraction audit: state key -> index of its successor-key row */
typedef struct { uint64_t (*k)[2]; long *v; size_t cap, n; } kmap_t;
static size_t kslot(uint64_t a, uint64_t b, size_t cap) { return (size_t) (a ^ (b * 0x9E3779B97F4A7C15ull)) & (cap - 1); }
static long kmap_get(kmap_t *m, uint64_t a, uint64_t b) {
	if (!m->cap) return -1;
	if (a == 0 && b == 0) a = 1;
	size_t h = kslot(a, b, m->cap);
	while (m->k[h][0] || m->k[h][1]) { if (m->k[h][0] == a && m->k[h][1] == b) return m->v[h]; h = (h + 1) & (m->cap - 1); }
	return -1;
}
static void kmap_put(kmap_t *m, uint64_t a, uint64_t b, long v) {
	if (a == 0 && b == 0) a = 1;
	if (m->n * 2 >= m->cap) { size_t nc = m->cap ? m->cap * 2 : 4096; uint64_t (*nk)[2] = calloc(nc, sizeof *nk); long *nv = calloc(nc, sizeof *nv);
		for (size_t i = 0; i < m->cap; i++) if (m->k[i][0] || m->k[i][1]) { size_t h = kslot(m->k[i][0], m->k[i][1], nc); while (nk[h][0] || nk[h][1]) h = (h + 1) & (nc - 1); nk[h][0] = m->k[i][0]; nk[h][1] = m->k[i][1]; nv[h] = m->v[i]; }
		free(m->k); free(m->v); m->k = nk; m->v = nv; m->cap = nc; }
	size_t h = kslot(a, b, m->cap);
	while (m->k[h][0] || m->k[h][1]) { if (m->k[h][0] == a && m->k[h][1] == b) { m->v[h] = v; return; } h = (h + 1) & (m->cap - 1); }
	m->k[h][0] = a; m->k[h][1] = b; m->v[h] = v; m->n++;
}
static void kmap_free(kmap_t *m) { free(m->k); free(m->v); memset(m, 0, sizeof *m); }

/* E2.  Level-synchronous BFS.  The results of one level are collected first and then processed in ISSUE order, so the
 * representative history of every state (and with it every count) does not depend on the order in which children finish.
 * Abstraction audit (VERIF_E2_AUDIT=1 or spec.audit): every history that reaches an already known state is extended by
 * every event as well, and each successor key must equal the successor key of the state's representative for the same
 * event; a mismatch means the canonical dump merges states with different futures (reported, never a property verdict). */
typedef struct { uint8_t applicable, has_key; int nv; uint64_t a, b; } e2_res_t;
typedef struct { hist_t h; uint64_t a, b; } e2_fr_t;
static void e2_succ_key(const e2_res_t *Q, uint64_t *a, uint64_t *b) { if (!Q->applicable) { *a = 0; *b = 0; } else if (!Q->has_key) { *a = 2; *b = 0; } else { *a = Q->a; *b = Q->b; } }
int e2_explore(e2_spec_t *s) {
	run_fn fn = harness_find(s->harness);
	if (!fn) { rep_infra("unknown harness %s", s->harness); return -1; }
	const char *aud = getenv("VERIF_E2_AUDIT"); int audit = s->audit || (aud && atoi(aud));
	kset_t seen; memset(&seen, 0, sizeof seen);
	e2_fr_t *frontier = calloc(1, sizeof(e2_fr_t)); size_t nfront = 1;
	e2_fr_t *dups = NULL; size_t ndups = 0;                 /* audit: histories that hit a known state in the previous level */
	kmap_t rowof; memset(&rowof, 0, sizeof rowof); uint64_t (*rows)[2] = NULL; size_t nrows = 0, caprows = 0;   /* audit: successor keys per representative */
	s->states = 0; s->transitions = 0; s->execs = 0; s->depth_completed = -1; s->exhaustive = 1; s->audit_checked = 0; s->audit_mismatches = 0;
	memset(s->states_by_depth, 0, sizeof s->states_by_depth);
	size_t *inflight = calloc((size_t) run_parallel(), sizeof(size_t)); char *used = calloc((size_t) run_parallel(), 1);
	uint8_t *job = malloc(s->nparam + 64); uint8_t *payload = malloc(s->nparam + 32);
	int stop = 0; size_t NE = (size_t) s->nevents;
	{ memcpy(payload, s->param, s->nparam); payload[s->nparam] = 0; size_t jn0 = job_build(job, NULL, 0, payload, s->nparam + 1); det_check(s->harness, fn, job, jn0); }
	for (int depth = 0; depth <= s->max_depth && nfront > 0 && !stop; depth++) {
		e2_fr_t *next = NULL; size_t nnext = 0, capnext = 0;
		e2_fr_t *ndup = NULL; size_t nndup = 0, capndup = 0;
		/* at depth 0 the single job is the empty history; at depth d every frontier history is extended by every event;
		 * audit jobs (extensions of last level's duplicates) follow behind the regular ones */
		size_t regular = depth == 0 ? 1 : nfront * NE;
		size_t total = regular + (audit && depth > 0 ? ndups * NE : 0);
		e2_res_t *res = calloc(total ? total : 1, sizeof *res);
		size_t issued = 0;
#define E2_HIST(i, h) do { if (depth == 0) memset(&(h), 0, sizeof(h)); else if ((i) < regular) { (h) = frontier[(i) / NE].h; (h).ev[(h).len++] = (uint8_t) ((i) % NE); } \
			else { (h) = dups[((i) - regular) / NE].h; (h).ev[(h).len++] = (uint8_t) (((i) - regular) % NE); } } while (0)
		for (;;) {
			while (issued < total && run_outstanding() < run_parallel()) {
				if (rep_elapsed() > rep_deadline_s) { stop = 1; break; }
				hist_t h; E2_HIST(issued, h);
				int slot = 0; while (used[slot]) slot++;
				used[slot] = 1; inflight[slot] = issued;
				memcpy(payload, s->param, s->nparam); payload[s->nparam] = h.len; memcpy(payload + s->nparam + 1, h.ev, h.len);
				size_t jn = job_build(job, NULL, 0, payload, s->nparam + 1 + h.len);
				run_submit(fn, job, jn, (void *) (intptr_t) slot);
				issued++;
			}
			run_res_t r;
			if (run_outstanding() == 0) break;
			run_wait(&r);
			int slot = (int) (intptr_t) r.tag; size_t idx = inflight[slot]; used[slot] = 0;
			hist_t h; E2_HIST(idx, h);
			s->execs++;
			char human[900]; size_t o = (size_t) snprintf(human, sizeof human, "%s ", s->label ? s->label : s->harness);
			human_hist(s, &h, human + o, sizeof human - o);
			e2_res_t *R = &res[idx];
			R->applicable = !res_line(&r, 'N', 0); R->has_key = (uint8_t) parse_key(&r, 'S', &R->a, &R->b);
			if (idx >= regular) {      /* audit job: only the key matters; this path's violations are reported through the representative */
				if (res_line(&r, 'E', 0)) rep_infra("child (audit): %s (%s)", res_line(&r, 'E', 0), human);
				continue;
			}
			memcpy(payload, s->param, s->nparam); payload[s->nparam] = h.len; memcpy(payload + s->nparam + 1, h.ev, h.len);
			size_t jn = job_build(job, NULL, 0, payload, s->nparam + 1 + h.len);
			R->nv = rep_collect(&r, s->harness, job, jn, human);
			if (s->on_result) s->on_result(&r, h.ev, h.len, job, jn, human);
			if (R->applicable && !R->has_key && R->nv == 0 && r.status == 0) rep_infra("no state key from %s", human);
		}
		if (stop) { free(res); free(next); free(ndup); break; }     /* an interrupted level is not processed: only completed depths count */
		/* process the level in issue order */
		for (size_t i = 0; i < regular; i++) {
			e2_res_t *R = &res[i]; hist_t h; E2_HIST(i, h);
			if (audit && depth > 0 && i % NE == 0) {     /* successor row of the representative frontier[i / NE] */
				if (nrows + NE > caprows) { if (!caprows) caprows = 65536; while (nrows + NE > caprows) caprows *= 2; rows = realloc(rows, caprows * sizeof *rows); }
				for (size_t e = 0; e < NE; e++) e2_succ_key(&res[i + e], &rows[nrows + e][0], &rows[nrows + e][1]);
				kmap_put(&rowof, frontier[i / NE].a, frontier[i / NE].b, (long) nrows); nrows += NE;
			}
			if (!R->applicable) continue;
			if (depth > 0) s->transitions++;
			if (!R->has_key) continue;
			if (kset_add(&seen, R->a, R->b)) {
				s->states++; if (depth < 16) s->states_by_depth[depth]++;
				if (s->states % 997 == 1 || s->states < 4) { char human[900]; size_t o = (size_t) snprintf(human, sizeof human, "%s ", s->label ? s->label : s->harness); human_hist(s, &h, human + o, sizeof human - o); rep_sample("%s", human); }
				if (R->nv == 0) {   /* do not extend histories that already violate: the shortest witness is what we keep */
					if (nnext == capnext) { capnext = capnext ? capnext * 2 : 1024; next = realloc(next, capnext * sizeof *next); }
					next[nnext].h = h; next[nnext].a = R->a; next[nnext].b = R->b; nnext++;
				}
			} else if (audit && R->nv == 0 && h.len < 15 && depth < s->max_depth) {
				if (nndup == capndup) { capndup = capndup ? capndup * 2 : 1024; ndup = realloc(ndup, capndup * sizeof *ndup); }
				ndup[nndup].h = h; ndup[nndup].a = R->a; ndup[nndup].b = R->b; nndup++;
			}
		}
		/* audit: the successors of last level's duplicates against the rows of their representatives */
		for (size_t d = 0; audit && depth > 0 && d < ndups; d++) {
			long row = kmap_get(&rowof, dups[d].a, dups[d].b);
			if (row < 0) continue;      /* the representative was not expanded (violating state) */
			for (size_t e = 0; e < NE; e++) {
				uint64_t qa, qb; e2_succ_key(&res[regular + d * NE + e], &qa, &qb);
				s->audit_checked++;
				if (qa != rows[(size_t) row + e][0] || qb != rows[(size_t) row + e][1]) {
					if (s->audit_mismatches < 5) { char hh[700]; human_hist(s, &dups[d].h, hh, sizeof hh);
						rep_note("%s ABSTRACTION AUDIT: %s reaches a state with the same canonical dump as an earlier history, but event '%s' leads to a different successor (%llx vs %llx): the dump misses a component that influences the future",
						         s->label ? s->label : s->harness, hh, s->evname ? s->evname((int) e) : "?", (unsigned long long) qa, (unsigned long long) rows[(size_t) row + e][0]); }
					s->audit_mismatches++;
				}
			}
		}
		free(res);
		s->depth_completed = depth;
		free(frontier); frontier = next; nfront = nnext;
		free(dups); dups = ndup; ndups = nndup;
	}
	if (stop) s->exhaustive = 0;
	if (nfront == 0 && !stop) rep_note("%s: state space closed at depth %d (no new states)", s->label ? s->label : s->harness, s->depth_completed);
	if (audit) { rep_count("abstraction_audit_checked", s->audit_checked); rep_count("abstraction_audit_mismatches", s->audit_mismatches);
		rep_note("%s abstraction audit: %ld successor keys of histories that reached an already known state compared with their representative's, %ld mismatches", s->label ? s->label : s->harness, s->audit_checked, s->audit_mismatches); }
	free(frontier); free(inflight); free(used); free(job); free(payload); kset_free(&seen); free(dups); free(rows); kmap_free(&rowof);
	return 0;
}

/* ------------------------------------------------------------------ catalogue */
int ex_map(ex_spec_t *s) {
	run_fn fn = harness_find(s->harness);
	if (!fn) { rep_infra("unknown harness %s", s->harness); return -1; }
	int P = run_parallel();
	long *idxs = calloc((size_t) P, sizeof(long)); char *used = calloc((size_t) P, 1);
	uint8_t *payload = malloc(1 << 16), *job = malloc((1 << 16) + 64); char human[1024];
	kset_t outcomes; memset(&outcomes, 0, sizeof outcomes);
	long issued = 0; s->done = 0; s->exhaustive = 1; int stop = 0;
	for (;;) {
		while (issued < s->ncases && run_outstanding() < P) {
			if (rep_elapsed() > rep_deadline_s) { stop = 1; break; }
			int slot = 0; while (used[slot]) slot++;
			human[0] = 0;
			size_t pn = s->gen(issued, payload, human, sizeof human);
			size_t jn = job_build(job, NULL, 0, payload, pn);
			used[slot] = 1; idxs[slot] = issued;
			run_submit(fn, job, jn, (void *) (intptr_t) slot);
			issued++;
		}
		if (run_outstanding() == 0) break;
		run_res_t r; run_wait(&r);
		int slot = (int) (intptr_t) r.tag; long idx = idxs[slot]; used[slot] = 0;
		human[0] = 0;
		size_t pn = s->gen(idx, payload, human, sizeof human);
		size_t jn = job_build(job, NULL, 0, payload, pn);
		char hb[1200]; snprintf(hb, sizeof hb, "%s %s", s->label ? s->label : s->harness, human);
		rep_collect(&r, s->harness, job, jn, hb);
		uint64_t a, b; if (parse_key(&r, 'O', &a, &b)) kset_add(&outcomes, a, b);
		if (s->on_result) s->on_result(idx, &r);
		if (s->done < 3 || s->done % 4099 == 0) rep_sample("%s", hb);
		s->done++;
	}
	if (stop || s->done < s->ncases) s->exhaustive = 0;
	s->distinct_outcomes = (long) outcomes.n;
	free(idxs); free(used); free(payload); free(job); kset_free(&outcomes);
	return 0;
}
