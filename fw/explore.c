#define _GNU_SOURCE
#include "explore.h"
#include <stdio.h>
#include <stdlib.h>
#include <string.h>

int kset_add(kset_t *s, uint64_t a, uint64_t b) {
	if (a == 0 && b == 0) a = 1;
	if (s->n * 2 >= s->cap) {
		size_t nc = s->cap ? s->cap * 2 : 4096; uint64_t (*nt)[2] = calloc(nc, sizeof *nt);
		for (size_t i = 0; i < s->cap; i++) if (s->tab[i][0] || s->tab[i][1]) {
			size_t h = (size_t) (s->tab[i][0] ^ (s->tab[i][1] * 0x9E3779B97F4A7C15ull)) & (nc - 1);
			while (nt[h][0] || nt[h][1]) h = (h + 1) & (nc - 1);
			nt[h][0] = s->tab[i][0]; nt[h][1] = s->tab[i][1];
		}
		free(s->tab); s->tab = nt; s->cap = nc;
	}
	size_t h = (size_t) (a ^ (b * 0x9E3779B97F4A7C15ull)) & (s->cap - 1);
	while (s->tab[h][0] || s->tab[h][1]) { if (s->tab[h][0] == a && s->tab[h][1] == b) return 0; h = (h + 1) & (s->cap - 1); }
	s->tab[h][0] = a; s->tab[h][1] = b; s->n++;
	return 1;
}
void kset_free(kset_t *s) { free(s->tab); memset(s, 0, sizeof *s); }

static int parse_key(const run_res_t *r, char tag, uint64_t *a, uint64_t *b) {
	const char *l = res_line(r, tag, 0);
	if (!l) return 0;
	unsigned long long x = 0, y = 0;
	if (sscanf(l, "%llx %llx", &x, &y) < 1) return 0;
	*a = x; *b = y; return 1;
}

/* determinism self-test: run one job twice, the complete result text must be identical */
void det_check(const char *harness, run_fn fn, const void *job, size_t jn) {
	char *first = NULL;
	for (int k = 0; k < 2; k++) {
		run_submit(fn, job, jn, NULL);
		run_res_t r; run_wait(&r);
		if (k == 0) first = strdup(r.text ? r.text : "");
		else if (strcmp(first, r.text ? r.text : "")) rep_infra("determinism self-test failed for %s: two runs of the same job differ", harness);
	}
	rep_count("determinism_selftests", 1);
	free(first);
}

/* ------------------------------------------------------------------ E1 */
typedef struct { int ndevs; vs_dev_t devs[VS_MAXDEV]; int cost; } e1_item_t;
typedef struct { e1_item_t *v; size_t n, cap; } bucket_t;
static void bpush(bucket_t *b, const e1_item_t *it) {
	if (b->n == b->cap) { b->cap = b->cap ? b->cap * 2 : 256; b->v = realloc(b->v, b->cap * sizeof *b->v); }
	b->v[b->n++] = *it;
}
static void human_sched(const e1_item_t *it, char *buf, size_t n) {
	size_t o = (size_t) snprintf(buf, n, "schedule cost=%d deviations=[", it->cost);
	for (int i = 0; i < it->ndevs && o + 32 < n; i++) o += (size_t) snprintf(buf + o, n - o, "%s@%u:alt%u", i ? " " : "", it->devs[i].pos, it->devs[i].alt);
	snprintf(buf + o, n - o, "]");
}
int e1_explore(e1_spec_t *s) {
	run_fn fn = harness_find(s->harness);
	if (!fn) { rep_infra("unknown harness %s", s->harness); return -1; }
	bucket_t bk[8]; memset(bk, 0, sizeof bk);
	int out_cost[8]; memset(out_cost, 0, sizeof out_cost);   /* outstanding per cost */
	kset_t outcomes; memset(&outcomes, 0, sizeof outcomes);
	memset(s->schedules_by_cost, 0, sizeof s->schedules_by_cost);
	s->completed_bound = -1; s->contended_execs = 0; s->choice_points = 0; s->exhaustive = 1;
	e1_item_t root; memset(&root, 0, sizeof root); bpush(&bk[0], &root);
	e1_item_t *inflight = calloc((size_t) run_parallel(), sizeof *inflight); char *used = calloc((size_t) run_parallel(), 1);
	uint8_t *job = malloc(s->nparam + 1024);
	int stop_expanding = 0; int min_dropped = 99;
	{ size_t jn0 = job_build(job, NULL, 0, s->param, s->nparam); det_check(s->harness, fn, job, jn0); }
	for (;;) {
		/* submit */
		while (run_outstanding() < run_parallel()) {
			int c = -1;
			for (int i = 0; i <= s->bound && i < 8; i++) if (bk[i].n) { c = i; break; }
			if (c < 0) break;
			if (rep_elapsed() > rep_deadline_s) { stop_expanding = 1; break; }
			e1_item_t it = bk[c].v[--bk[c].n];
			int slot = 0; while (used[slot]) slot++;
			used[slot] = 1; inflight[slot] = it;
			size_t jn = job_build(job, it.devs, it.ndevs, s->param, s->nparam);
			run_submit(fn, job, jn, (void *) (intptr_t) slot);
			out_cost[c]++;
		}
		if (stop_expanding && run_outstanding() == 0) break;
		run_res_t r;
		if (!run_wait(&r)) break;
		int slot = (int) (intptr_t) r.tag; e1_item_t it = inflight[slot]; used[slot] = 0;
		out_cost[it.cost]--; s->schedules_by_cost[it.cost]++;
		char human[512]; human_sched(&it, human, sizeof human);
		size_t jn = job_build(job, it.devs, it.ndevs, s->param, s->nparam);
		char hbuf[700]; snprintf(hbuf, sizeof hbuf, "%s %s", s->label ? s->label : s->harness, human);
		rep_collect(&r, s->harness, job, jn, hbuf);
		uint64_t a, b;
		if (parse_key(&r, 'O', &a, &b)) kset_add(&outcomes, a, b);
		if (rep_get("e1_sample_n") < 3) { rep_count("e1_sample_n", 1); rep_sample("%s -> %s", hbuf, res_line(&r, 'O', 0) ? res_line(&r, 'O', 0) : "(no outcome)"); }
		const char *t = res_line(&r, 'T', 0);
		if (stop_expanding && it.cost < min_dropped) min_dropped = it.cost;
		if (t && !stop_expanding) {
			int last = it.ndevs ? (int) it.devs[it.ndevs - 1].pos : -1;
			int i = 0; int cost = 0; int contended = 0;
			const char *p = t;
			while (*p) {
				unsigned n, cm, ch, sig; int used_chars = 0;
				if (sscanf(p, "%x.%x.%x.%x,%n", &n, &cm, &ch, &sig, &used_chars) < 4) break;
				p += used_chars;
				if (cm & 2u) contended = 1;
				if (i > last && it.ndevs < VS_MAXDEV) {
					for (unsigned alt = 1; alt < n; alt++) {
						int c2 = cost + ((cm >> alt) & 1u);
						if (c2 > s->bound) continue;
						e1_item_t ni = it; ni.devs[ni.ndevs].pos = (uint32_t) i; ni.devs[ni.ndevs].alt = (uint8_t) alt;
						ni.devs[ni.ndevs].sig = sig; ni.ndevs++; ni.cost = c2;
						bpush(&bk[c2], &ni);
					}
				}
				if (ch && ((cm >> ch) & 1u)) cost++;
				i++;
			}
			s->choice_points += i;
			if (contended) s->contended_execs++;
		}
	}
	/* which bounds completed?  without a deadline: all of them.  otherwise: everything strictly below the cheapest
	 * schedule that was left unexplored or whose successors were not generated */
	int complete = s->bound;
	if (stop_expanding) {
		int lowest = min_dropped;
		for (int c = 0; c <= s->bound && c < 8; c++) if (bk[c].n && c < lowest) lowest = c;
		complete = lowest - 1; s->exhaustive = 0;
	}
	s->completed_bound = complete; s->distinct_outcomes = (long) outcomes.n;
	for (int i = 0; i < 8; i++) free(bk[i].v);
	kset_free(&outcomes); free(inflight); free(used); free(job);
	return 0;
}

/* ------------------------------------------------------------------ E2 */
typedef struct { uint8_t len; uint8_t ev[15]; } hist_t;
static void human_hist(const e2_spec_t *s, const hist_t *h, char *buf, size_t n) {
	size_t o = (size_t) snprintf(buf, n, "history=[");
	for (int i = 0; i < h->len && o + 48 < n; i++) {
		if (s->evname) o += (size_t) snprintf(buf + o, n - o, "%s%s", i ? ", " : "", s->evname(h->ev[i]));
		else o += (size_t) snprintf(buf + o, n - o, "%s%d", i ? "," : "", h->ev[i]);
	}
	snprintf(buf + o, n - o, "]");
}
int e2_explore(e2_spec_t *s) {
	run_fn fn = harness_find(s->harness);
	if (!fn) { rep_infra("unknown harness %s", s->harness); return -1; }
	kset_t seen; memset(&seen, 0, sizeof seen);
	hist_t *frontier = malloc(sizeof(hist_t)); size_t nfront = 1; memset(&frontier[0], 0, sizeof(hist_t));
	s->states = 0; s->transitions = 0; s->execs = 0; s->depth_completed = -1; s->exhaustive = 1;
	memset(s->states_by_depth, 0, sizeof s->states_by_depth);
	hist_t *inflight = calloc((size_t) run_parallel(), sizeof(hist_t)); char *used = calloc((size_t) run_parallel(), 1);
	uint8_t *job = malloc(s->nparam + 64); uint8_t *payload = malloc(s->nparam + 32);
	int stop = 0;
	{ memcpy(payload, s->param, s->nparam); payload[s->nparam] = 0; size_t jn0 = job_build(job, NULL, 0, payload, s->nparam + 1); det_check(s->harness, fn, job, jn0); }
	for (int depth = 0; depth <= s->max_depth && nfront > 0 && !stop; depth++) {
		hist_t *next = NULL; size_t nnext = 0, capnext = 0;
		/* at depth 0 the single job is the empty history; at depth d every frontier history is extended by every event */
		size_t total = depth == 0 ? 1 : nfront * (size_t) s->nevents;
		size_t issued = 0;
		for (;;) {
			while (issued < total && run_outstanding() < run_parallel()) {
				if (rep_elapsed() > rep_deadline_s) { stop = 1; break; }
				hist_t h;
				if (depth == 0) memset(&h, 0, sizeof h);
				else { h = frontier[issued / (size_t) s->nevents]; h.ev[h.len++] = (uint8_t) (issued % (size_t) s->nevents); }
				int slot = 0; while (used[slot]) slot++;
				used[slot] = 1; inflight[slot] = h;
				memcpy(payload, s->param, s->nparam); payload[s->nparam] = h.len; memcpy(payload + s->nparam + 1, h.ev, h.len);
				size_t jn = job_build(job, NULL, 0, payload, s->nparam + 1 + h.len);
				run_submit(fn, job, jn, (void *) (intptr_t) slot);
				issued++;
			}
			run_res_t r;
			if (run_outstanding() == 0) break;
			run_wait(&r);
			int slot = (int) (intptr_t) r.tag; hist_t h = inflight[slot]; used[slot] = 0;
			s->execs++;
			char human[900]; size_t o = (size_t) snprintf(human, sizeof human, "%s ", s->label ? s->label : s->harness);
			human_hist(s, &h, human + o, sizeof human - o);
			memcpy(payload, s->param, s->nparam); payload[s->nparam] = h.len; memcpy(payload + s->nparam + 1, h.ev, h.len);
			size_t jn = job_build(job, NULL, 0, payload, s->nparam + 1 + h.len);
			int nv = rep_collect(&r, s->harness, job, jn, human);
			if (s->on_result) s->on_result(&r, h.ev, h.len, job, jn, human);
			if (res_line(&r, 'N', 0)) continue;          /* event not applicable in this state */
			if (depth > 0) s->transitions++;
			uint64_t a, b;
			if (!parse_key(&r, 'S', &a, &b)) { if (nv == 0 && r.status == 0) rep_infra("no state key from %s", human); continue; }
			if (kset_add(&seen, a, b)) {
				s->states++; if (depth < 16) s->states_by_depth[depth]++;
				if (s->states % 997 == 1 || s->states < 4) rep_sample("%s", human);
				if (nv == 0) {   /* do not extend histories that already violate: the shortest witness is what we keep */
					if (nnext == capnext) { capnext = capnext ? capnext * 2 : 1024; next = realloc(next, capnext * sizeof *next); }
					next[nnext++] = h;
				}
			}
		}
		if (!stop) s->depth_completed = depth;
		free(frontier); frontier = next; nfront = nnext;
	}
	if (stop) s->exhaustive = 0;
	if (nfront == 0 && !stop) rep_note("%s: state space closed at depth %d (no new states)", s->label ? s->label : s->harness, s->depth_completed);
	free(frontier); free(inflight); free(used); free(job); free(payload); kset_free(&seen);
	return 0;
}

/* ------------------------------------------------------------------ catalogue */
int ex_map(ex_spec_t *s) {
	run_fn fn = harness_find(s->harness);
	if (!fn) { rep_infra("unknown harness %s", s->harness); return -1; }
	int P = run_parallel();
	long *idxs = calloc((size_t) P, sizeof(long)); char *used = calloc((size_t) P, 1);
	uint8_t *payload = malloc(1 << 16), *job = malloc((1 << 16) + 64); char human[1024];
	kset_t outcomes; memset(&outcomes, 0, sizeof outcomes);
	long issued = 0; s->done = 0; s->exhaustive = 1; int stop = 0;
	for (;;) {
		while (issued < s->ncases && run_outstanding() < P) {
			if (rep_elapsed() > rep_deadline_s) { stop = 1; break; }
			int slot = 0; while (used[slot]) slot++;
			human[0] = 0;
			size_t pn = s->gen(issued, payload, human, sizeof human);
			size_t jn = job_build(job, NULL, 0, payload, pn);
			used[slot] = 1; idxs[slot] = issued;
			run_submit(fn, job, jn, (void *) (intptr_t) slot);
			issued++;
		}
		if (run_outstanding() == 0) break;
		run_res_t r; run_wait(&r);
		int slot = (int) (intptr_t) r.tag; long idx = idxs[slot]; used[slot] = 0;
		human[0] = 0;
		size_t pn = s->gen(idx, payload, human, sizeof human);
		size_t jn = job_build(job, NULL, 0, payload, pn);
		char hb[1200]; snprintf(hb, sizeof hb, "%s %s", s->label ? s->label : s->harness, human);
		rep_collect(&r, s->harness, job, jn, hb);
		uint64_t a, b; if (parse_key(&r, 'O', &a, &b)) kset_add(&outcomes, a, b);
		if (s->on_result) s->on_result(idx, &r);
		if (s->done < 3 || s->done % 4099 == 0) rep_sample("%s", hb);
		s->done++;
	}
	if (stop || s->done < s->ncases) s->exhaustive = 0;
	s->distinct_outcomes = (long) outcomes.n;
	free(idxs); free(used); free(payload); free(job); kset_free(&outcomes);
	return 0;
}
