/* vsched.c — see vsched.h.  Compiled WITHOUT sanitizer instrumentation. */
#define _GNU_SOURCE
#include "vsched.h"
#include <errno.h>
#include <linux/futex.h>
#include <stdarg.h>
#include <stdio.h>
#include <stdlib.h>
#include <string.h>
#include <sys/syscall.h>
#include <time.h>
#include <unistd.h>

/* real functions (link-time --wrap) */
int __real_pthread_mutex_init(pthread_mutex_t *, const pthread_mutexattr_t *);
int __real_pthread_mutex_lock(pthread_mutex_t *);
int __real_pthread_mutex_unlock(pthread_mutex_t *);
int __real_pthread_rwlock_init(pthread_rwlock_t *, const pthread_rwlockattr_t *);
int __real_pthread_rwlock_rdlock(pthread_rwlock_t *);
int __real_pthread_rwlock_wrlock(pthread_rwlock_t *);
int __real_pthread_rwlock_unlock(pthread_rwlock_t *);
int __real_pthread_create(pthread_t *, const pthread_attr_t *, void *(*)(void *), void *);
int __real_pthread_join(pthread_t, void **);
int __real_usleep(useconds_t);
time_t __real_time(time_t *);
int __real_clock_gettime(clockid_t, struct timespec *);

enum { TS_UNUSED, TS_RUNNABLE, TS_WANT_MUTEX, TS_WANT_RD, TS_WANT_WR, TS_JOIN,
       TS_WAIT_INPUT, TS_TIMER, TS_IDLE_WAIT, TS_DONE };

typedef struct {
	int state;
	int want;                 /* lock index or join target */
	uint64_t wake_us;
	int flags_snap;
	volatile int go;          /* futex word */
	pthread_t real;
	void *(*fn)(void *);
	void *arg;
	int joined;
	int harness;              /* created by vs_spawn (slot may be reused once joined) */
	int is_early;             /* TIMER waits may be woken early */
	int held[VS_MAXL]; uint8_t heldmode[VS_MAXL]; int nheld;   /* heldmode: 1 exclusive (mutex / write lock), 2 shared (read lock) */
	int kind;                 /* kind of pending operation (for cp records) */
	const char *label;
} vs_thread_t;

typedef struct {
	void *addr; int is_rw; int owner; int rcount[VS_MAXT]; int nreaders; int wpref;   /* wpref: created with PTHREAD_RWLOCK_PREFER_WRITER_NONRECURSIVE_NP */
	const char *name; char namebuf[24];
} vs_lock_t;

#define VHANDLE_BASE 0x56530000UL

static vs_thread_t th[VS_MAXT];
static int nth;
static vs_lock_t lk[VS_MAXL];
static int nlk;
static int active;
static int cur;               /* token holder */
static __thread int self_id = -1;
static __thread int hint_wait_input;
static uint64_t now_us;
static vs_cfg_t cfg;
static vs_cp_t *cps; static int ncp; static int cp_index; /* cp_index counts all choice points */
static int next_dev;
static int cost_used;
static int early_left;
static uint32_t steps;
static int contended;
static char events[8192]; static size_t events_len; static int nevents;
static uint8_t edges[VS_MAXL][VS_MAXL];
static const char *edge_label[VS_MAXL][VS_MAXL];
static int n_created, n_joined;
static int window = 1;        /* choice points are branchable only inside the exploration window */

void (*vs_abort_cb)(const char *, const char *);
int (*vs_input_ready_cb)(void);
int (*vs_flags_cb)(void);

static void futex_wait(volatile int *w) {
	while (__atomic_load_n(w, __ATOMIC_SEQ_CST) == 0)
		syscall(SYS_futex, w, FUTEX_WAIT, 0, NULL, NULL, 0);
	__atomic_store_n(w, 0, __ATOMIC_SEQ_CST);
}
static void futex_wake(volatile int *w) {
	__atomic_store_n(w, 1, __ATOMIC_SEQ_CST);
	syscall(SYS_futex, w, FUTEX_WAKE, 1, NULL, NULL, 0);
}

static void vs_event(const char *fmt, ...) {
	va_list ap; va_start(ap, fmt);
	if (events_len < sizeof events - 200) {
		int n = vsnprintf(events + events_len, 190, fmt, ap);
		if (n > 189) n = 189;
		events_len += (size_t) n;
		events[events_len++] = '\n'; events[events_len] = 0;
	}
	va_end(ap);
	nevents++;
}
const char *vs_events(void) { return events; }
int vs_event_count(void) { return nevents; }

static void vs_abort(const char *kind, const char *fmt, ...) {
	char buf[1024]; va_list ap; va_start(ap, fmt); vsnprintf(buf, sizeof buf, fmt, ap); va_end(ap);
	if (vs_abort_cb) vs_abort_cb(kind, buf);
	fprintf(stderr, "vsched abort: %s: %s\n", kind, buf);
	_exit(97);
}

int vs_active(void) { return active; }
int vs_self_id(void) { return self_id; }
uint64_t vs_now_us(void) { return now_us; }
int vs_ncp(void) { return ncp; }
const vs_cp_t *vs_cps(void) { return cps; }
int vs_cost_used(void) { return cost_used; }
int vs_contended_points(void) { return contended; }
int vs_nlocks(void) { return nlk; }
uint8_t vs_edge(int a, int b) { return edges[a][b]; }
const char *vs_edge_label(int a, int b) { return edge_label[a][b] ? edge_label[a][b] : ""; }
void vs_set_label(const char *label) { if (self_id >= 0) th[self_id].label = label; }
int vs_unlock_points_req;
void vs_window(int on) { window = on; if (vs_unlock_points_req) vs_unlock_points = on ? (vs_unlock_points | vs_unlock_points_req) : 0; }
void vs_edges_reset(void) { memset(edges, 0, sizeof edges); memset(edge_label, 0, sizeof edge_label); }
void vs_set_thread_label(int tid, const char *label) { if (tid >= 0 && tid < nth) th[tid].label = label; }
int vs_threads_created(void) { return n_created; }
int vs_threads_joined(void) { return n_joined; }
int vs_thread_live_unjoined(void) {
	int n = 0;
	for (int i = 1; i < nth; i++) if (th[i].state != TS_UNUSED && !th[i].joined) n++;
	return n;
}
uint64_t vs_real_now_ns(void) {
	struct timespec ts; __real_clock_gettime(CLOCK_MONOTONIC, &ts);
	return (uint64_t) ts.tv_sec * 1000000000ull + (uint64_t) ts.tv_nsec;
}

const char *vs_lock_name(int idx) {
	if (idx < 0 || idx >= nlk) return "?";
	return lk[idx].name ? lk[idx].name : lk[idx].namebuf;
}
static int lock_find(void *addr, int is_rw, int create) {
	for (int i = 0; i < nlk; i++) if (lk[i].addr == addr) return i;
	if (!create) return -1;
	if (nlk >= VS_MAXL) vs_abort("unmodelled", "too many locks");
	memset(&lk[nlk], 0, sizeof lk[nlk]);
	lk[nlk].addr = addr; lk[nlk].is_rw = is_rw; lk[nlk].owner = -1;
	snprintf(lk[nlk].namebuf, sizeof lk[nlk].namebuf, "lock%d", nlk);
	return nlk++;
}
void vs_name_lock(void *addr, const char *name) {
	int i = lock_find(addr, 0, 1);
	lk[i].name = name;
}
int vs_held_count(int tid) { return th[tid].nheld; }
void vs_held_desc(int tid, char *buf, size_t n) {
	size_t o = 0; buf[0] = 0;
	for (int i = 0; i < th[tid].nheld && o + 40 < n; i++)
		o += (size_t) snprintf(buf + o, n - o, "%s%s", i ? "," : "", vs_lock_name(th[tid].held[i]));
}
void vs_describe_threads(char *buf, size_t n) {
	static const char *sn[] = {"unused","runnable","want-mutex","want-rd","want-wr","join","wait-input","timer","idle","done"};
	size_t o = 0; buf[0] = 0;
	for (int i = 0; i < nth && o + 120 < n; i++) {
		char held[256]; vs_held_desc(i, held, sizeof held);
		o += (size_t) snprintf(buf + o, n - o, "t%d:%s", i, sn[th[i].state]);
		if (th[i].state >= TS_WANT_MUTEX && th[i].state <= TS_WANT_WR)
			o += (size_t) snprintf(buf + o, n - o, "(%s)", vs_lock_name(th[i].want));
		if (th[i].state == TS_JOIN) o += (size_t) snprintf(buf + o, n - o, "(t%d)", th[i].want);
		if (held[0]) o += (size_t) snprintf(buf + o, n - o, "[holds %s]", held);
		o += (size_t) snprintf(buf + o, n - o, " ");
	}
}

/* ---------------------------------------------------------------- enabledness */
static int enabled_basic(int t) {
	vs_thread_t *T = &th[t];
	switch (T->state) {
	case TS_RUNNABLE: return 1;
	case TS_WANT_MUTEX: return lk[T->want].owner < 0;
	case TS_WANT_RD: if (lk[T->want].owner >= 0) return 0;      /* glibc default: reader preference */
		if (lk[T->want].wpref) for (int o = 0; o < nth; o++) if (o != t && th[o].state == TS_WANT_WR && th[o].want == T->want) return 0;   /* writer preference: readers queue behind a waiting writer — also a thread that already holds the lock for reading */
		return 1;
	case TS_WANT_WR: return lk[T->want].owner < 0 && lk[T->want].nreaders == 0;
	case TS_JOIN: return th[T->want].state == TS_DONE;
	case TS_WAIT_INPUT:
		return (vs_input_ready_cb && vs_input_ready_cb()) ||
		       (vs_flags_cb && vs_flags_cb() != T->flags_snap);
	case TS_TIMER: return now_us >= T->wake_us;
	default: return 0;
	}
}

/* wait-for cycle detection starting at thread t (which is about to block) */
static int blocker_of(int t, int *out, int max) {
	vs_thread_t *T = &th[t]; int n = 0;
	if (T->state == TS_WANT_MUTEX) { if (lk[T->want].owner >= 0) out[n++] = lk[T->want].owner; }
	else if (T->state == TS_WANT_RD) { if (lk[T->want].owner >= 0) out[n++] = lk[T->want].owner;
		if (lk[T->want].wpref) for (int i = 0; i < nth && n < max; i++) if (i != t && th[i].state == TS_WANT_WR && th[i].want == T->want) out[n++] = i; }
	else if (T->state == TS_WANT_WR) {
		if (lk[T->want].owner >= 0) out[n++] = lk[T->want].owner;
		for (int i = 0; i < nth && n < max; i++) if (lk[T->want].rcount[i] > 0) out[n++] = i;
	} else if (T->state == TS_JOIN) { if (th[T->want].state != TS_DONE) out[n++] = T->want; }
	return n;
}
static int reach(int from, int target, int depth) {
	if (depth > VS_MAXT) return 0;
	int b[VS_MAXT + 1]; int n = blocker_of(from, b, VS_MAXT);
	for (int i = 0; i < n; i++) {
		if (b[i] == target) return 1;
		if (reach(b[i], target, depth + 1)) return 1;
	}
	return 0;
}
static void check_deadlock(int t) {
	if (th[t].state < TS_WANT_MUTEX || th[t].state > TS_JOIN) return;
	if (enabled_basic(t)) return;
	if (reach(t, t, 0)) {
		char d[1500]; vs_describe_threads(d, sizeof d);
		vs_abort("deadlock", "wait-for cycle through t%d: %s", t, d);
	}
}

static void held_add(int t, int l, int mode) {
	vs_thread_t *T = &th[t];
	for (int i = 0; i < T->nheld; i++) {
		int a = T->held[i];
		/* edge bits: (held excl, acq excl)=1, (held excl, acq shared)=2, (held shared, acq excl)=4, (held shared, acq shared)=8 */
		uint8_t bit = (uint8_t) (T->heldmode[i] == 1 ? (mode == 1 ? 1 : 2) : (mode == 1 ? 4 : 8));
		if (a != l || bit == 8) { if (!edges[a][l]) edge_label[a][l] = T->label; edges[a][l] |= bit; }      /* a == l only for a read lock taken again by its holder */
	}
	if (T->nheld < VS_MAXL) { T->held[T->nheld] = l; T->heldmode[T->nheld] = (uint8_t) mode; T->nheld++; }
}
static void held_del(int t, int l) {
	vs_thread_t *T = &th[t];
	for (int i = T->nheld - 1; i >= 0; i--) if (T->held[i] == l) {
		memmove(&T->held[i], &T->held[i + 1], sizeof(int) * (size_t) (T->nheld - i - 1));
		memmove(&T->heldmode[i], &T->heldmode[i + 1], (size_t) (T->nheld - i - 1));
		T->nheld--; return;
	}
}

static void grant(int t) {
	vs_thread_t *T = &th[t];
	switch (T->state) {
	case TS_WANT_MUTEX: case TS_WANT_WR:
		lk[T->want].owner = t; held_add(t, T->want, 1); break;
	case TS_WANT_RD:
		lk[T->want].rcount[t]++; lk[T->want].nreaders++; held_add(t, T->want, 2); break;
	default: break;
	}
	T->state = TS_RUNNABLE;
}

static uint32_t mix(uint32_t h, uint32_t v) { h ^= v; h *= 16777619u; return h; }

/* pick the next thread to run; called by the token holder `me` after it set its own state.
 * Returns the chosen thread id (already granted). */
static int pick(int me) {
	for (;;) {
		if (++steps > cfg.max_steps) {
			char d[1500]; vs_describe_threads(d, sizeof d);
			vs_abort("steps", "step horizon %u reached: %s", cfg.max_steps, d);
		}
		int cand[VS_MAXT * 2]; int n = 0; uint16_t costmask = 0;
		int me_enabled = (me >= 0 && enabled_basic(me));
		if (me_enabled) cand[n++] = me;
		int others = 0;
		for (int t = 0; t < nth; t++) {
			if (t == me || th[t].state == TS_IDLE_WAIT) continue;
			if (enabled_basic(t)) { if (me_enabled) costmask |= (uint16_t) (1u << n); cand[n++] = t; others++; }
		}
		if (n == 0) {
			/* idle waiters are enabled when nothing else is */
			for (int t = 0; t < nth; t++) if (th[t].state == TS_IDLE_WAIT) cand[n++] = t;
		}
		if (n == 0) {
			/* advance virtual time to the earliest timer */
			uint64_t best = UINT64_MAX;
			for (int t = 0; t < nth; t++) if (th[t].state == TS_TIMER && th[t].wake_us < best) best = th[t].wake_us;
			if (best == UINT64_MAX) {
				char d[1500]; vs_describe_threads(d, sizeof d);
				vs_abort("deadlock", "no thread enabled and no timer pending: %s", d);
			}
			now_us = best;
			if (now_us > cfg.horizon_us) {
				char d[1500]; vs_describe_threads(d, sizeof d);
				vs_abort("horizon", "virtual time horizon %llu us exceeded: %s",
				         (unsigned long long) cfg.horizon_us, d);
			}
			continue;
		}
		/* early-wake candidates (each costs one deviation) */
		if (early_left > 0 && n > 0 && th[cand[0]].state != TS_IDLE_WAIT) {
			for (int t = 0; t < nth; t++)
				if (th[t].state == TS_TIMER && th[t].is_early && now_us < th[t].wake_us) {
					costmask |= (uint16_t) (1u << n); cand[n++] = t;
				}
		}
		int idx = 0;
		if (n > 1 && window) {
			uint32_t sig = 2166136261u;
			sig = mix(sig, (uint32_t) (me + 1)); sig = mix(sig, (uint32_t) (me >= 0 ? th[me].kind : 0));
			sig = mix(sig, (uint32_t) (me >= 0 && th[me].state >= TS_WANT_MUTEX && th[me].state <= TS_WANT_WR ? th[me].want + 1 : 0));
			for (int i = 0; i < n; i++) sig = mix(sig, (uint32_t) cand[i] + 17u);
			if (next_dev < cfg.ndevs && cfg.devs[next_dev].pos == (uint32_t) cp_index) {
				idx = cfg.devs[next_dev].alt;
				if (idx >= n || (cfg.devs[next_dev].sig && cfg.devs[next_dev].sig != sig))
					vs_abort("replay-divergence", "deviation %d at choice point %d: alt %d of %d, sig %08x expected %08x",
					         next_dev, cp_index, idx, n, sig, cfg.devs[next_dev].sig);
				next_dev++;
			}
			if (others > 0 && me_enabled) contended++;
			if (cfg.record_trace) {
				if (ncp >= VS_MAXCP) vs_abort("steps", "more than %d choice points", VS_MAXCP);
				vs_cp_t *c = &cps[ncp++];
				c->n = (uint8_t) n; c->chosen = (uint8_t) idx; c->costmask = costmask;
				c->cur = (uint8_t) (me < 0 ? 255 : me); c->kind = (uint8_t) (me >= 0 ? th[me].kind : 0);
				c->lock = (int8_t) ((me >= 0 && th[me].state >= TS_WANT_MUTEX && th[me].state <= TS_WANT_WR) ? th[me].want : -1);
				for (int i = 0; i < n && i < VS_MAXT; i++) c->tids[i] = (uint8_t) cand[i];
				c->sig = sig;
			}
			cp_index++;
			if (costmask & (1u << idx)) cost_used++;
		}
		int t = cand[idx];
		if (th[t].state == TS_TIMER && now_us < th[t].wake_us) early_left--;   /* early wake */
		if (th[t].state == TS_IDLE_WAIT || th[t].state == TS_TIMER || th[t].state == TS_WAIT_INPUT ||
		    th[t].state == TS_JOIN)
			th[t].state = TS_RUNNABLE;
		else
			grant(t);
		return t;
	}
}

/* the token holder yields (its state is already set); returns when it holds the token again */
static void reschedule(void) {
	int me = self_id;
	check_deadlock(me);
	int t = pick(me);
	if (t != me) {
		cur = t;
		futex_wake(&th[t].go);
		futex_wait(&th[me].go);
	}
}

/* ---------------------------------------------------------------- public entry points */
void vs_begin(const vs_cfg_t *c) {
	memset(th, 0, sizeof th); memset(lk, 0, sizeof lk); memset(edges, 0, sizeof edges);
	memset(edge_label, 0, sizeof edge_label);
	nth = 1; nlk = 0; now_us = 0; ncp = 0; cp_index = 0; next_dev = 0; cost_used = 0; steps = 0;
	window = 1; contended = 0; events_len = 0; nevents = 0; events[0] = 0; n_created = n_joined = 0;
	cfg = *c;
	if (!cfg.horizon_us) cfg.horizon_us = 600ull * 1000000ull;
	if (!cfg.max_steps) cfg.max_steps = 2000000;
	early_left = cfg.early_budget;
	if (cfg.record_trace && !cps) cps = malloc(sizeof(vs_cp_t) * VS_MAXCP);
	th[0].state = TS_RUNNABLE; th[0].real = pthread_self(); th[0].joined = 1;
	self_id = 0; cur = 0; active = 1;
}

void vs_point(void) {
	if (!active || self_id < 0) return;
	th[self_id].kind = VS_K_POINT;
	reschedule();
}
void vs_idle_wait(void) {
	if (!active || self_id < 0) return;
	th[self_id].kind = VS_K_IDLE; th[self_id].state = TS_IDLE_WAIT;
	reschedule();
}
void vs_sleep_us(uint64_t us) {
	if (!active || self_id < 0) return;
	th[self_id].kind = VS_K_USLEEP; th[self_id].state = TS_TIMER; th[self_id].wake_us = now_us + us;
	reschedule();
}
void vs_hint_wait_input(void) { hint_wait_input = 1; }

struct targ { int tid; };
static void *trampoline(void *p) {
	int tid = ((struct targ *) p)->tid; free(p);
	self_id = tid;
	futex_wait(&th[tid].go);
	th[tid].fn(th[tid].arg);
	/* exit: hand the token on and leave without waiting */
	th[tid].kind = VS_K_EXIT; th[tid].state = TS_DONE;
	if (th[tid].nheld > 0) {
		char held[256]; vs_held_desc(tid, held, sizeof held);
		vs_event("thread-exit-holding t%d locks=%s", tid, held);
	}
	int t = pick(-1);
	cur = t;
	futex_wake(&th[t].go);
	return NULL;
}
static int spawn(void *(*fn)(void *), void *arg, int harness) {
	int tid = -1;
	/* a harness thread that has finished and been joined by the harness leaves a slot that can be used again (library
	 * threads never: their virtual handles must stay distinguishable for the stale-join ledger) */
	if (harness) for (int t = 1; t < nth; t++) if (th[t].harness && th[t].state == TS_DONE && th[t].joined && th[t].nheld == 0) { tid = t; break; }
	if (tid < 0) { if (nth >= VS_MAXT) vs_abort("unmodelled", "too many threads"); tid = nth++; }
	memset(&th[tid], 0, sizeof th[tid]); th[tid].harness = harness;
	th[tid].state = TS_RUNNABLE; th[tid].fn = fn; th[tid].arg = arg;
	th[tid].is_early = (cfg.early_fn && fn == cfg.early_fn);
	struct targ *a = malloc(sizeof *a); a->tid = tid;
	if (__real_pthread_create(&th[tid].real, NULL, trampoline, a) != 0)
		vs_abort("unmodelled", "pthread_create failed");
	n_created++;
	th[self_id].kind = VS_K_CREATE;
	reschedule();
	return tid;
}
int vs_spawn(void *(*fn)(void *), void *arg) { return spawn(fn, arg, 1); }
void vs_join_tid(int tid) {
	if (th[tid].joined) { vs_event("double-join t%d", tid); return; }
	th[self_id].kind = VS_K_JOIN; th[self_id].state = TS_JOIN; th[self_id].want = tid;
	reschedule();
	__real_pthread_join(th[tid].real, NULL);
	th[tid].joined = 1; n_joined++;
}

/* ---------------------------------------------------------------- wrappers */
int __wrap_pthread_mutex_init(pthread_mutex_t *m, const pthread_mutexattr_t *a) {
	if (active && self_id >= 0) {
		int i = lock_find(m, 0, 1);
		if (lk[i].owner >= 0) {
			vs_event("reinit-held-lock %s owner=t%d", vs_lock_name(i), lk[i].owner);
			held_del(lk[i].owner, i);
		}
		lk[i].owner = -1; lk[i].is_rw = 0;
	}
	return __real_pthread_mutex_init(m, a);
}
/* rwlock kind: glibc's writer-preferring kind changes who may proceed, so it is part of the model */
static const void *wpref_attr[8]; static int n_wpref_attr;
int __real_pthread_rwlockattr_setkind_np(pthread_rwlockattr_t *a, int kind);
int __wrap_pthread_rwlockattr_setkind_np(pthread_rwlockattr_t *a, int kind) {
	if (kind == PTHREAD_RWLOCK_PREFER_WRITER_NONRECURSIVE_NP) { int k; for (k = 0; k < n_wpref_attr; k++) if (wpref_attr[k] == a) break; if (k == n_wpref_attr && n_wpref_attr < 8) wpref_attr[n_wpref_attr++] = a; }
	else for (int k = 0; k < n_wpref_attr; k++) if (wpref_attr[k] == a) wpref_attr[k] = NULL;
	return __real_pthread_rwlockattr_setkind_np(a, kind);
}
int __wrap_pthread_rwlock_init(pthread_rwlock_t *m, const pthread_rwlockattr_t *a) {
	if (active && self_id >= 0) {
		int i = lock_find(m, 1, 1);
		lk[i].wpref = 0; for (int k = 0; a && k < n_wpref_attr; k++) if (wpref_attr[k] == a) lk[i].wpref = 1;
		if (lk[i].owner >= 0 || lk[i].nreaders > 0) {
			vs_event("reinit-held-lock %s owner=t%d readers=%d", vs_lock_name(i), lk[i].owner, lk[i].nreaders);
			for (int t = 0; t < nth; t++) while (lk[i].rcount[t] > 0) { lk[i].rcount[t]--; held_del(t, i); }
			if (lk[i].owner >= 0) held_del(lk[i].owner, i);
		}
		lk[i].owner = -1; lk[i].nreaders = 0; lk[i].is_rw = 1;
	}
	return __real_pthread_rwlock_init(m, a);
}
int vs_unlock_points; static long trylock_busy; static void vs_event_quiet_busy(int i) { (void) i; trylock_busy++; }
/* pthread_mutex_trylock: a scheduling point (other threads may take or release the lock first), then the outcome is decided by
 * the modelled owner: free -> acquired like a lock, held (also by the caller itself) -> EBUSY */
int __real_pthread_mutex_trylock(pthread_mutex_t *);
int __wrap_pthread_mutex_trylock(pthread_mutex_t *m) {
	if (!active || self_id < 0) return __real_pthread_mutex_trylock(m);
	int i = lock_find(m, 0, 1);
	vs_point();
	if (lk[i].owner >= 0) { vs_event_quiet_busy(i); return EBUSY; }
	lk[i].owner = self_id; held_add(self_id, i, 1);
	return __real_pthread_mutex_trylock(m);
}
int __wrap_pthread_mutex_lock(pthread_mutex_t *m) {
	if (!active || self_id < 0) return __real_pthread_mutex_lock(m);
	int i = lock_find(m, 0, 1);
	th[self_id].kind = VS_K_MUTEX; th[self_id].state = TS_WANT_MUTEX; th[self_id].want = i;
	reschedule();
	return __real_pthread_mutex_lock(m);
}
int __wrap_pthread_mutex_unlock(pthread_mutex_t *m) {
	if (!active || self_id < 0) return __real_pthread_mutex_unlock(m);
	int i = lock_find(m, 0, 1);
	if (lk[i].owner != self_id) {
		vs_event("unlock-not-held %s by t%d owner=t%d", vs_lock_name(i), self_id, lk[i].owner);
		return EPERM;
	}
	if (vs_unlock_points & 2) vs_point();  /* before the unlock: others run while the lock is still held (matters for trylock users) */
	lk[i].owner = -1; held_del(self_id, i);
	int r = __real_pthread_mutex_unlock(m);
	if (vs_unlock_points & 1) vs_point();      /* harnesses that look for accesses made AFTER a lock was dropped: the code up to the next acquisition is not atomic */
	return r;
}
int __wrap_pthread_rwlock_rdlock(pthread_rwlock_t *m) {
	if (!active || self_id < 0) return __real_pthread_rwlock_rdlock(m);
	int i = lock_find(m, 1, 1);
	th[self_id].kind = VS_K_RD; th[self_id].state = TS_WANT_RD; th[self_id].want = i;
	reschedule();
	return __real_pthread_rwlock_rdlock(m);
}
int __wrap_pthread_rwlock_wrlock(pthread_rwlock_t *m) {
	if (!active || self_id < 0) return __real_pthread_rwlock_wrlock(m);
	int i = lock_find(m, 1, 1);
	th[self_id].kind = VS_K_WR; th[self_id].state = TS_WANT_WR; th[self_id].want = i;
	reschedule();
	return __real_pthread_rwlock_wrlock(m);
}
int __wrap_pthread_rwlock_unlock(pthread_rwlock_t *m) {
	if (!active || self_id < 0) return __real_pthread_rwlock_unlock(m);
	int i = lock_find(m, 1, 1);
	if (lk[i].owner == self_id) { lk[i].owner = -1; held_del(self_id, i); }
	else if (lk[i].rcount[self_id] > 0) { lk[i].rcount[self_id]--; lk[i].nreaders--; held_del(self_id, i); }
	else {
		vs_event("unlock-not-held %s by t%d", vs_lock_name(i), self_id);
		return EPERM;
	}
	int r = __real_pthread_rwlock_unlock(m);
	if (vs_unlock_points & 1) vs_point();
	return r;
}
int __wrap_pthread_create(pthread_t *h, const pthread_attr_t *a, void *(*fn)(void *), void *arg) {
	if (!active || self_id < 0) return __real_pthread_create(h, a, fn, arg);
	(void) a;
	int tid = spawn(fn, arg, 0);
	*h = (pthread_t) (VHANDLE_BASE + (unsigned long) tid);
	return 0;
}
int __wrap_pthread_join(pthread_t h, void **ret) {
	if (!active || self_id < 0) return __real_pthread_join(h, ret);
	unsigned long v = (unsigned long) h;
	if (v < VHANDLE_BASE + 1 || v >= VHANDLE_BASE + (unsigned long) nth) {
		vs_event("join-unknown-handle 0x%lx", v);
		return ESRCH;
	}
	int tid = (int) (v - VHANDLE_BASE);
	if (th[tid].joined) {
		vs_event("join-stale-handle t%d (already joined)", tid);
		return ESRCH;
	}
	if (ret) *ret = NULL;
	vs_join_tid(tid);
	return 0;
}
/* pthread_detach: the thread keeps running under the scheduler and is never joined; the thread ledger shows it as live and
 * unjoined (C16 judges that), a later join of the handle is a stale join */
int __real_pthread_detach(pthread_t h);
int __wrap_pthread_detach(pthread_t h) {
	if (!active || self_id < 0) return __real_pthread_detach(h);
	unsigned long v = (unsigned long) h;
	if (v < VHANDLE_BASE + 1 || v >= VHANDLE_BASE + (unsigned long) nth) { vs_event("detach-unknown-handle 0x%lx", v); return ESRCH; }
	vs_event("thread-detached t%d", (int) (v - VHANDLE_BASE));
	return 0;
}
int __wrap_usleep(useconds_t us) {
	if (!active || self_id < 0) return __real_usleep(us);
	if (hint_wait_input) {
		hint_wait_input = 0;
		th[self_id].kind = VS_K_USLEEP; th[self_id].state = TS_WAIT_INPUT;
		th[self_id].flags_snap = vs_flags_cb ? vs_flags_cb() : 0;
		reschedule();
		return 0;
	}
	vs_sleep_us(us);
	return 0;
}
#define VBASE_SEC 1700000000L
time_t __wrap_time(time_t *t) {
	if (!active) return __real_time(t);
	time_t v = (time_t) (VBASE_SEC + (long) (now_us / 1000000ull));
	if (t) *t = v;
	return v;
}
int __wrap_clock_gettime(clockid_t c, struct timespec *ts) {
	if (!active) return __real_clock_gettime(c, ts);
	ts->tv_sec = (time_t) (1000 + (long) (now_us / 1000000ull));
	ts->tv_nsec = (long) (now_us % 1000000ull) * 1000L;
	return 0;
}

/* unmodelled primitives: a changed tree must not silently escape the scheduler */
#define UNMODELLED(name) int __wrap_##name(void) { if (active) vs_abort("unmodelled", #name " is not modelled by vsched"); return ENOSYS; }
UNMODELLED(pthread_mutex_timedlock)
UNMODELLED(pthread_rwlock_tryrdlock)
UNMODELLED(pthread_rwlock_trywrlock)
UNMODELLED(pthread_rwlock_timedrdlock)
UNMODELLED(pthread_rwlock_timedwrlock)
UNMODELLED(pthread_cond_wait)
UNMODELLED(pthread_cond_timedwait)
UNMODELLED(pthread_cond_signal)
UNMODELLED(pthread_cond_broadcast)
UNMODELLED(pthread_cancel)
UNMODELLED(pthread_kill)
UNMODELLED(pthread_spin_lock)
UNMODELLED(pthread_spin_trylock)
UNMODELLED(sem_wait)
UNMODELLED(sem_post)
UNMODELLED(sem_timedwait)
UNMODELLED(nanosleep)
UNMODELLED(sleep)
