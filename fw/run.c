#define _GNU_SOURCE
#include "run.h"
#include "vsched.h"
#include <errno.h>
#include <fcntl.h>
#include <poll.h>
#include <signal.h>
#include <stdarg.h>
#include <stdio.h>
#include <stdlib.h>
#include <string.h>
#include <sys/wait.h>
#include <unistd.h>

/* The pool consists of P small "zygote" processes forked before the explorer allocates anything big.  The master
 * never forks again: it ships a job to an idle zygote, which forks the child that executes it (cheap: the zygote's
 * address space is small), collects the child's result with a wall-clock limit and sends it back. */
typedef struct { pid_t pid; int to, from; char *buf; size_t len, cap; size_t need; void *tag; uint64_t t0; int busy; int hdr[4]; size_t hdr_got; } slot_t;
static slot_t *slots; static int nslots; static int outstanding; static double timeout_s_ = 30;
static unsigned long total;
static int child_fd = -1;
static char *cbuf; static size_t clen, ccap; static int nviol;
static char *seen_cls[128]; static int n_seen_cls;

static int read_full(int fd, void *buf, size_t n) {
	size_t o = 0;
	while (o < n) { ssize_t r = read(fd, (char *) buf + o, n - o); if (r > 0) o += (size_t) r; else if (r == 0) return 0; else if (errno != EINTR) return 0; }
	return 1;
}
static int write_full(int fd, const void *buf, size_t n) {
	size_t o = 0;
	while (o < n) { ssize_t w = write(fd, (const char *) buf + o, n - o); if (w > 0) o += (size_t) w; else if (errno != EINTR) return 0; }
	return 1;
}
static void zygote_loop(int in, int out) {
	char *job = NULL; size_t jcap = 0; char *rb = NULL; size_t rcap = 0;
	for (;;) {
		uint64_t hdr[2];
		if (!read_full(in, hdr, sizeof hdr)) _exit(0);
		run_fn fn = (run_fn) (uintptr_t) hdr[0]; size_t n = (size_t) hdr[1];
		if (n + 1 > jcap) { jcap = n + 4096; job = realloc(job, jcap); }
		if (n && !read_full(in, job, n)) _exit(0);
		int p[2]; if (pipe(p)) _exit(3);
		uint64_t t0 = vs_real_now_ns();
		pid_t pid = fork();
		if (pid < 0) _exit(3);
		if (pid == 0) {
			close(p[0]); close(in); close(out);
			child_fd = p[1]; clen = 0; nviol = 0; n_seen_cls = 0;
			if (!getenv("VERIF_DEBUG")) { int dn = open("/dev/null", O_WRONLY); if (dn >= 0) { dup2(dn, 2); close(dn); } }
			fn(job, n);
			res_finish();
		}
		close(p[1]);
		size_t rl = 0; int timed_out = 0;
		for (;;) {
			struct pollfd pf = { p[0], POLLIN, 0 };
			int pr = poll(&pf, 1, 250);
			if (pr > 0) {
				if (rcap - rl < 4096) { rcap = rcap ? rcap * 2 : 16384; rb = realloc(rb, rcap); }
				ssize_t r = read(p[0], rb + rl, rcap - rl);
				if (r > 0) rl += (size_t) r; else if (r == 0) break; else if (errno != EINTR) break;
			}
			if ((double) (vs_real_now_ns() - t0) / 1e9 > timeout_s_) { kill(pid, SIGKILL); timed_out = 1; break; }
		}
		close(p[0]);
		int st = 0; waitpid(pid, &st, 0);
		int rh[4]; rh[0] = timed_out ? 2 : 0; rh[1] = WIFSIGNALED(st) ? WTERMSIG(st) : 0; rh[2] = WIFEXITED(st) ? WEXITSTATUS(st) : -1; rh[3] = (int) rl;
		if (!write_full(out, rh, sizeof rh) || (rl && !write_full(out, rb, rl))) _exit(0);
	}
}
void run_init(int parallel, double timeout_s) {
	if (slots) return;            /* the pool is created once, before the explorer grows */
	nslots = parallel; slots = calloc((size_t) parallel, sizeof(slot_t)); timeout_s_ = timeout_s; outstanding = 0;
	signal(SIGPIPE, SIG_IGN);
	fflush(stdout); fflush(stderr);
	for (int i = 0; i < parallel; i++) {
		int a[2], b[2]; if (pipe(a) || pipe(b)) { perror("pipe"); exit(2); }
		pid_t pid = fork();
		if (pid < 0) { perror("fork"); exit(2); }
		if (pid == 0) {
			close(a[1]); close(b[0]);
			for (int k = 0; k < i; k++) { close(slots[k].to); close(slots[k].from); }
			zygote_loop(a[0], b[1]);
			_exit(0);
		}
		close(a[0]); close(b[1]);
		slots[i].pid = pid; slots[i].to = a[1]; slots[i].from = b[0];
	}
}
int run_parallel(void) { return nslots; }
int run_outstanding(void) { return outstanding; }
unsigned long run_total(void) { return total; }

void run_submit(run_fn fn, const void *job, size_t n, void *tag) {
	int s = -1;
	for (int i = 0; i < nslots; i++) if (!slots[i].busy) { s = i; break; }
	if (s < 0) { fprintf(stderr, "run_submit: no free slot\n"); exit(2); }
	uint64_t hdr[2] = { (uint64_t) (uintptr_t) fn, (uint64_t) n };
	if (!write_full(slots[s].to, hdr, sizeof hdr) || (n && !write_full(slots[s].to, job, n))) { fprintf(stderr, "run_submit: zygote died\n"); exit(2); }
	slots[s].busy = 1; slots[s].tag = tag; slots[s].t0 = vs_real_now_ns(); slots[s].hdr_got = 0; slots[s].len = 0;
	outstanding++; total++;
}

int run_wait(run_res_t *out) {
	if (outstanding == 0) return 0;
	for (;;) {
		struct pollfd pf[256]; int map[256]; int n = 0;
		for (int i = 0; i < nslots && n < 256; i++) if (slots[i].busy) { pf[n].fd = slots[i].from; pf[n].events = POLLIN; pf[n].revents = 0; map[n++] = i; }
		int pr = poll(pf, (nfds_t) n, 1000);
		if (pr <= 0) continue;
		for (int k = 0; k < n; k++) {
			if (!(pf[k].revents & (POLLIN | POLLHUP | POLLERR))) continue;
			slot_t *s = &slots[map[k]];
			/* results are small; read header then body blocking (the zygote writes them in one go) */
			if (!read_full(s->from, s->hdr, sizeof s->hdr)) { fprintf(stderr, "run_wait: zygote died\n"); exit(2); }
			size_t rl = (size_t) s->hdr[3];
			if (rl + 1 > s->cap) { s->cap = rl + 4096; s->buf = realloc(s->buf, s->cap); }
			if (rl && !read_full(s->from, s->buf, rl)) { fprintf(stderr, "run_wait: zygote died\n"); exit(2); }
			s->buf[rl] = 0; s->len = rl;
			out->text = s->buf; out->len = rl; out->tag = s->tag;
			out->wall_ms = (double) (vs_real_now_ns() - s->t0) / 1e6;
			int done = rl >= 2 && (strstr(s->buf, "\nD\n") || !strncmp(s->buf, "D\n", 2));
			out->sig = s->hdr[1]; out->exitcode = s->hdr[2];
			if (s->hdr[0] == 2) out->status = 2; else if (done) out->status = 0; else if (s->hdr[1]) out->status = 1; else out->status = 3;
			s->busy = 0; outstanding--;
			return 1;
		}
	}
}

static void cappend(const char *s, size_t n) {
	if (clen + n + 1 > ccap) { ccap = (clen + n + 1) * 2 + 4096; cbuf = realloc(cbuf, ccap); }
	memcpy(cbuf + clen, s, n); clen += n; cbuf[clen] = 0;
}
void res_printf(const char *fmt, ...) {
	char tmp[2048]; va_list ap; va_start(ap, fmt); int n = vsnprintf(tmp, sizeof tmp, fmt, ap); va_end(ap);
	if (n < 0) return;
	if ((size_t) n < sizeof tmp) { cappend(tmp, (size_t) n); return; }
	char *big = malloc((size_t) n + 1); va_start(ap, fmt); vsnprintf(big, (size_t) n + 1, fmt, ap); va_end(ap);
	cappend(big, (size_t) n); free(big);
}
int res_nviol(void) { return nviol; }
void res_violation(const char *cls, const char *fmt, ...) {
	/* one witness per class and child: repeated occurrences are only counted */
	for (int i = 0; i < n_seen_cls; i++) if (!strcmp(seen_cls[i], cls)) { nviol++; res_printf("C violations_repeated_in_child 1\n"); return; }
	if (n_seen_cls < 128) seen_cls[n_seen_cls++] = strdup(cls);
	char tmp[4096]; va_list ap; va_start(ap, fmt); vsnprintf(tmp, sizeof tmp, fmt, ap); va_end(ap);
	for (char *p = tmp; *p; p++) if (*p == '\n' || *p == '\t') *p = ' ';
	nviol++;
	res_printf("V %s\t%s\n", cls, tmp);
}
void res_infra(const char *fmt, ...) {
	char tmp[2048]; va_list ap; va_start(ap, fmt); vsnprintf(tmp, sizeof tmp, fmt, ap); va_end(ap);
	for (char *p = tmp; *p; p++) if (*p == '\n') *p = ' ';
	res_printf("E %s\n", tmp);
	res_finish();
}
void res_emit_now(const char *line) { if (write(child_fd, line, strlen(line)) < 0) { } }
void res_progress(long idx) {
	char b[32]; int n = snprintf(b, sizeof b, "P %ld\n", idx);
	if (write(child_fd, b, (size_t) n) < 0) { }
}
void res_finish(void) {
	cappend("D\n", 2);
	size_t o = 0;
	while (o < clen) { ssize_t w = write(child_fd, cbuf + o, clen - o); if (w <= 0) { if (errno == EINTR) continue; break; } o += (size_t) w; }
	_exit(0);
}
const char *res_line(const run_res_t *r, char tag, int k) {
	static char line[16384];
	const char *p = r->text;
	while (p && *p) {
		const char *e = strchr(p, '\n'); size_t n = e ? (size_t) (e - p) : strlen(p);
		if (n >= 2 && p[0] == tag && p[1] == ' ') {
			if (k-- == 0) { size_t m = n - 2; if (m >= sizeof line) m = sizeof line - 1; memcpy(line, p + 2, m); line[m] = 0; return line; }
		}
		p = e ? e + 1 : NULL;
	}
	return NULL;
}

long res_last_progress(const run_res_t *r) {
	long last = -1; const char *p = r->text;
	while (p && *p) { if (p[0] == 'P' && p[1] == ' ') last = atol(p + 2); const char *e = strchr(p, '\n'); p = e ? e + 1 : NULL; }
	return last;
}
