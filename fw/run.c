#define _GNU_SOURCE
#include "run.h"
#include "vsched.h"
#include <errno.h>
#include <fcntl.h>
#include <poll.h>
#include <signal.h>
#include <stdarg.h>
#include <stdio.h>
#include <stdlib.h>
#include <string.h>
#include <sys/wait.h>
#include <unistd.h>

typedef struct { pid_t pid; int fd; char *buf; size_t len, cap; void *tag; uint64_t t0; int used; } slot_t;
static slot_t *slots; static int nslots; static int outstanding; static double timeout_s_ = 30;
static unsigned long total;
static int child_fd = -1;
static char *cbuf; static size_t clen, ccap; static int nviol;

void run_init(int parallel, double timeout_s) {
	if (slots) { for (int i = 0; i < nslots; i++) free(slots[i].buf); free(slots); }
	nslots = parallel; slots = calloc((size_t) parallel, sizeof(slot_t)); timeout_s_ = timeout_s; outstanding = 0;
	signal(SIGPIPE, SIG_IGN);
}
int run_parallel(void) { return nslots; }
int run_outstanding(void) { return outstanding; }
unsigned long run_total(void) { return total; }

void run_submit(run_fn fn, const void *job, size_t n, void *tag) {
	int s = -1;
	for (int i = 0; i < nslots; i++) if (!slots[i].used) { s = i; break; }
	if (s < 0) { fprintf(stderr, "run_submit: no free slot\n"); exit(2); }
	int p[2];
	if (pipe(p)) { perror("pipe"); exit(2); }
	fflush(stdout); fflush(stderr);
	pid_t pid = fork();
	if (pid < 0) { perror("fork"); exit(2); }
	if (pid == 0) {
		close(p[0]);
		for (int i = 0; i < nslots; i++) if (slots[i].used) close(slots[i].fd);
		child_fd = p[1]; clen = 0; nviol = 0;
		if (!getenv("VERIF_DEBUG")) { int dn = open("/dev/null", O_WRONLY); if (dn >= 0) { dup2(dn, 2); close(dn); } }
		fn(job, n);
		res_finish();
	}
	close(p[1]);
	slots[s].pid = pid; slots[s].fd = p[0]; slots[s].len = 0; slots[s].tag = tag; slots[s].used = 1;
	slots[s].t0 = vs_real_now_ns();
	outstanding++; total++;
}

static void slot_read(slot_t *s, int *eof) {
	if (s->cap - s->len < 4096) { s->cap = s->cap ? s->cap * 2 : 16384; s->buf = realloc(s->buf, s->cap + 1); }
	ssize_t r = read(s->fd, s->buf + s->len, s->cap - s->len);
	if (r > 0) s->len += (size_t) r;
	else if (r == 0) *eof = 1;
	else if (errno != EINTR && errno != EAGAIN) *eof = 1;
}

int run_wait(run_res_t *out) {
	if (outstanding == 0) return 0;
	for (;;) {
		struct pollfd pf[256]; int map[256]; int n = 0;
		for (int i = 0; i < nslots && n < 256; i++) if (slots[i].used) { pf[n].fd = slots[i].fd; pf[n].events = POLLIN; pf[n].revents = 0; map[n++] = i; }
		int pr = poll(pf, (nfds_t) n, 200);
		uint64_t now = vs_real_now_ns();
		for (int k = 0; k < n; k++) {
			slot_t *s = &slots[map[k]];
			int eof = 0, timed_out = 0;
			if (pr > 0 && (pf[k].revents & (POLLIN | POLLHUP | POLLERR))) slot_read(s, &eof);
			if (!eof && (double) (now - s->t0) / 1e9 > timeout_s_) { kill(s->pid, SIGKILL); timed_out = 1; eof = 1; }
			if (eof) {
				int st = 0; waitpid(s->pid, &st, 0); close(s->fd);
				if (!s->buf) { s->cap = 16; s->buf = malloc(17); }
				s->buf[s->len] = 0;
				out->text = s->buf; out->len = s->len; out->tag = s->tag;
				out->wall_ms = (double) (vs_real_now_ns() - s->t0) / 1e6;
				int done = s->len >= 2 && (strstr(s->buf, "\nD\n") || !strncmp(s->buf, "D\n", 2));
				out->sig = WIFSIGNALED(st) ? WTERMSIG(st) : 0; out->exitcode = WIFEXITED(st) ? WEXITSTATUS(st) : -1;
				if (timed_out) out->status = 2;
				else if (done) out->status = 0;
				else if (WIFSIGNALED(st)) out->status = 1;
				else out->status = 3;
				s->used = 0; outstanding--;
				return 1;
			}
		}
	}
}

static void cappend(const char *s, size_t n) {
	if (clen + n + 1 > ccap) { ccap = (clen + n + 1) * 2 + 4096; cbuf = realloc(cbuf, ccap); }
	memcpy(cbuf + clen, s, n); clen += n; cbuf[clen] = 0;
}
void res_printf(const char *fmt, ...) {
	char tmp[8192]; va_list ap; va_start(ap, fmt); int n = vsnprintf(tmp, sizeof tmp, fmt, ap); va_end(ap);
	if (n < 0) return; if ((size_t) n >= sizeof tmp) n = sizeof tmp - 1;
	cappend(tmp, (size_t) n);
}
int res_nviol(void) { return nviol; }
void res_violation(const char *cls, const char *fmt, ...) {
	char tmp[4096]; va_list ap; va_start(ap, fmt); vsnprintf(tmp, sizeof tmp, fmt, ap); va_end(ap);
	for (char *p = tmp; *p; p++) if (*p == '\n' || *p == '\t') *p = ' ';
	nviol++;
	res_printf("V %s\t%s\n", cls, tmp);
}
void res_infra(const char *fmt, ...) {
	char tmp[2048]; va_list ap; va_start(ap, fmt); vsnprintf(tmp, sizeof tmp, fmt, ap); va_end(ap);
	for (char *p = tmp; *p; p++) if (*p == '\n') *p = ' ';
	res_printf("E %s\n", tmp);
	res_finish();
}
void res_finish(void) {
	cappend("D\n", 2);
	size_t o = 0;
	while (o < clen) { ssize_t w = write(child_fd, cbuf + o, clen - o); if (w <= 0) { if (errno == EINTR) continue; break; } o += (size_t) w; }
	_exit(0);
}
const char *res_line(const run_res_t *r, char tag, int k) {
	static char line[16384];
	const char *p = r->text;
	while (p && *p) {
		const char *e = strchr(p, '\n'); size_t n = e ? (size_t) (e - p) : strlen(p);
		if (n >= 2 && p[0] == tag && p[1] == ' ') {
			if (k-- == 0) { size_t m = n - 2; if (m >= sizeof line) m = sizeof line - 1; memcpy(line, p + 2, m); line[m] = 0; return line; }
		}
		p = e ? e + 1 : NULL;
	}
	return NULL;
}
