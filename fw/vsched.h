/* vsched — deterministic serialising scheduler for the real library threads.
 * Exactly one thread holds the token; hand-off by raw futex (this TU is never
 * sanitizer-instrumented, so the hand-off creates no happens-before edge that
 * a race detector could see).  See DESIGN.md §2.2. */
#ifndef VSCHED_H
#define VSCHED_H
#include <stdint.h>
#include <stddef.h>
#include <pthread.h>

#define VS_MAXT 12
#define VS_MAXL 40
#define VS_MAXCP 6000
#define VS_MAXDEV 16

enum { VS_K_NONE, VS_K_MUTEX, VS_K_RD, VS_K_WR, VS_K_USLEEP, VS_K_CREATE,
       VS_K_JOIN, VS_K_EXIT, VS_K_POINT, VS_K_IDLE, VS_K_TIMEADV };

typedef struct {
	uint8_t n;          /* number of candidates */
	uint8_t chosen;     /* index taken */
	uint16_t costmask;  /* bit i set: candidate i costs one deviation */
	uint8_t cur;        /* thread that reached the point */
	uint8_t kind;       /* what the current thread was about to do */
	int8_t lock;        /* lock index or -1 */
	uint8_t tids[VS_MAXT];
	uint32_t sig;       /* signature for replay validation */
} vs_cp_t;

typedef struct { uint32_t pos; uint8_t alt; uint32_t sig; } vs_dev_t;

typedef struct {
	const vs_dev_t *devs; int ndevs;     /* schedule = deviations from default */
	uint64_t horizon_us;                 /* virtual time horizon (0 = default 600 s) */
	uint32_t max_steps;                  /* scheduling step horizon (0 = default) */
	void *(*early_fn)(void *);           /* start routine whose TIMER waits may be woken early */
	int early_budget;                    /* how many early wakes may be offered */
	int record_trace;                    /* keep vs_cp_t list */
} vs_cfg_t;

/* abort callback: kind in {"deadlock","horizon","steps","replay-divergence","unmodelled"} */
extern void (*vs_abort_cb)(const char *kind, const char *detail);
/* input readiness callback (environment) for WAIT_INPUT threads */
extern int (*vs_input_ready_cb)(void);
/* flags snapshot callback: returns a small integer capturing bidib_running/bidib_discard_rx */
extern int (*vs_flags_cb)(void);

void vs_begin(const vs_cfg_t *cfg);     /* calling thread becomes thread 0 and holds the token */
int  vs_active(void);
int  vs_self_id(void);
void vs_point(void);                    /* explicit scheduling point (environment operations) */
extern int vs_unlock_points_req;        /* set from the job (e1_spec_t.unlock_points): applied to vs_unlock_points while the exploration window is open */
extern int vs_unlock_points;            /* bit 0: every unlock is followed by a scheduling point, bit 1: every mutex unlock is preceded by one (default 0: points at acquisitions only) */
void vs_idle_wait(void);                /* block until no other thread is enabled (no time passes) */
void vs_sleep_us(uint64_t us);          /* virtual sleep of the calling thread */
void vs_hint_wait_input(void);          /* next usleep of this thread is a wait-for-input */
uint64_t vs_now_us(void);
int  vs_spawn(void *(*fn)(void *), void *arg);  /* harness thread; returns tid */
void vs_join_tid(int tid);
void vs_set_timer_budget(int tid_or_minus1, int n); /* unused */

/* ledgers */
int  vs_ncp(void);
const vs_cp_t *vs_cps(void);
int  vs_cost_used(void);
int  vs_contended_points(void);
const char *vs_events(void);            /* newline separated list of ledger events */
int  vs_event_count(void);
int  vs_held_count(int tid);            /* number of locks currently held by tid */
void vs_held_desc(int tid, char *buf, size_t n);
const char *vs_lock_name(int idx);
void vs_name_lock(void *addr, const char *name);
int  vs_nlocks(void);
/* lock order edges: edge[a][b] != 0 when b was acquired while a held. value = mode bits */
uint8_t vs_edge(int a, int b);
const char *vs_edge_label(int a, int b);
void vs_window(int on);                 /* 0: following choice points take the default and are not branch points (set-up / settle phases) */
void vs_edges_reset(void);
void vs_set_thread_label(int tid, const char *label);
void vs_set_label(const char *label);   /* label attached to edges recorded from now on (calling thread) */
int  vs_threads_created(void);
int  vs_threads_joined(void);
int  vs_thread_live_unjoined(void);
void vs_describe_threads(char *buf, size_t n);
uint64_t vs_real_now_ns(void);
#endif
