/* accessors into file-static library state (provided by the textual-inclusion wrappers w_*.c) */
#ifndef VX_H
#define VX_H
#include <stdint.h>
#include <stddef.h>
typedef struct { int recv_seq, send_seq, stall, used, n_outstanding, n_deferred, n_waiters; } vx_node_info_t;
size_t vx_send_buffer_index(void);
const uint8_t *vx_send_buffer(void);
unsigned vx_pkt_max_cap(void);
size_t vx_dump_uplink_queues(char *buf, size_t n);
unsigned vx_queue_len(int which);
int vx_node_count(void);
int vx_node_info(const uint8_t addr[4], vx_node_info_t *out);
int vx_node_deferred(const uint8_t addr[4], uint8_t *types, int max);
size_t vx_dump_nodes(char *buf, size_t n, long now_sec);
void vx_thread_handles(unsigned long out[3]);
#endif
