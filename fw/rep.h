/* rep — parent-side aggregation of an exploration into out/<prop>/result.json (consumed by vcheck) */
#ifndef REP_H
#define REP_H
#include <stddef.h>
#include <stdint.h>
#include "run.h"

typedef struct { const char *name; run_fn fn; } harness_t;
void harness_register(const char *name, run_fn fn);
run_fn harness_find(const char *name);

void rep_begin(const char *prop, const char *tier);
void rep_count(const char *key, long delta);
void rep_setmax(const char *key, long v);
long rep_get(const char *key);
void rep_sample(const char *fmt, ...) __attribute__((format(printf, 1, 2)));   /* only the first 12 are kept */
void rep_note(const char *fmt, ...) __attribute__((format(printf, 1, 2)));
void rep_flag(const char *key, int v);                                             /* booleans such as exhaustive */
/* record violation(s) found in a child result; harness+job make the replay artefact. returns number recorded */
int  rep_collect(const run_res_t *r, const char *harness, const void *job, size_t n, const char *human);
void rep_violation(const char *cls, const char *detail, const char *harness, const void *job, size_t n, const char *human);
int  rep_nviol(void);
int  rep_infra_errors(void);
void rep_infra(const char *fmt, ...) __attribute__((format(printf, 1, 2)));
void rep_end(void);
double rep_elapsed(void);
extern double rep_deadline_s;   /* wall-clock budget of the current tier; explorers stop expanding after it */

/* job encoding helpers: [u8 ndevs][ndevs*(u32 pos,u8 alt,u32 sig)][payload] */
#include "vsched.h"
size_t job_build(uint8_t *out, const vs_dev_t *devs, int ndevs, const void *payload, size_t n);
const uint8_t *job_parse(const void *job, size_t n, vs_dev_t *devs, int *ndevs, size_t *payload_len);
#endif
