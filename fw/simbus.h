/* simbus — simulated BiDiB bus: a tree of scripted nodes answering decoded downlink messages (DESIGN.md §2.5) */
#ifndef SIMBUS_H
#define SIMBUS_H
#include <stdint.h>
#include <stddef.h>
#include "refcodec.h"
#define SB_MAXNODES 16
typedef struct {
	uint8_t addr[4];          /* full address path (0-terminated) */
	uint8_t uid[7];
	int parent;               /* index of the parent interface, -1 for the root */
	uint8_t local;            /* local address within the parent */
	int present;              /* listed in the parent's node table */
	uint8_t seq;              /* next uplink sequence number */
	int tab_iter;             /* node table iteration pointer */
	uint8_t tab_version;
	uint8_t cs_state;
	uint8_t feature_xor;      /* FEATURE answers carry value ^ feature_xor (0 = as requested) */
	uint8_t occ[32];          /* occupancy bitmap for BM_GET_RANGE */
	uint8_t acc_aspect[256];
} sb_node_t;
typedef struct {
	sb_node_t n[SB_MAXNODES]; int nn;
	uint8_t pkt_capacity;
	int use_seq;              /* 1: real sequence numbers, 0: always 0 */
	/* script hook: called for every decoded downlink message before the default answer. return 1 = handled */
	int (*on_msg)(int node /* -1 = unknown destination */, const rc_msg_t *m);
	/* transcript of decoded downlink messages */
	struct { uint8_t addr[4]; uint8_t seq, type; uint8_t data[132]; int dlen; uint64_t t_us; int write_idx; uint8_t tid; } log[4096]; int nlog;
	long malformed;           /* bytes that did not decode as packets */
	uint8_t acc[2048]; size_t acc_len;   /* partial packet accumulator */
} simbus_t;
extern simbus_t SB;
void sb_init(void);                                   /* root interface only (uid class 0xDA..), installs env_on_write */
int  sb_add_node(int parent, uint8_t local, const uint8_t uid[7]);
int  sb_find(const uint8_t addr[4]);
void sb_send(int node, uint8_t type, const uint8_t *data, int dlen);   /* uplink message from a node (queued, no scheduling point) */
void sb_send_from(const uint8_t addr[4], uint8_t seq, uint8_t type, const uint8_t *data, int dlen);
int  sb_log_count(void);
#endif
