#include "ref_flow.h"
#include <stdio.h>
#include <string.h>
const rf_resp_t rf_resp[128] = {
#include "ref_resp_table.inc"
};
void rf_init(rf_t *r) { memset(r, 0, sizeof *r); }
rf_node_t *rf_node(rf_t *r, const uint8_t addr[4]) {
	for (int i = 0; i < r->nn; i++) if (!memcmp(r->n[i].addr, addr, 4)) return &r->n[i];
	if (r->nn >= RF_MAXN) return &r->n[RF_MAXN - 1];
	rf_node_t *n = &r->n[r->nn++]; memset(n, 0, sizeof *n); memcpy(n->addr, addr, 4); n->used = 1; return n;
}
static void qpush(rf_req_t *q, int *n, rf_req_t e) { if (*n < RF_MAXQ) q[(*n)++] = e; }
static void qdrop_front(rf_req_t *q, int *n, int k) { memmove(q, q + k, sizeof(rf_req_t) * (size_t) (*n - k)); *n -= k; }
static int accepts(uint8_t req, uint8_t type) {
	if (req >= 128) return 0;
	for (int i = 0; i < rf_resp[req].nacc; i++) if (rf_resp[req].acc[i] == type) return 1;
	return 0;
}
void rf_on_wire(rf_t *r, const rc_msg_t *m, uint64_t now) {
	rf_node_t *n = rf_node(r, m->addr);
	n->wire_count++; n->last_seq = m->seq;
	if (m->type < 128 && rf_resp[m->type].size > 0) {
		rf_req_t e = { m->type, rf_resp[m->type].size, now };
		qpush(n->eager, &n->n_eager, e); qpush(n->lazy, &n->n_lazy, e); qpush(n->noexp, &n->n_noexp, e);
	}
}
static void expire_q(rf_req_t *q, int *n, uint64_t now) {
	int k = 0;
	for (int i = 0; i < *n; i++) if (now - q[i].t_us < RF_EXPIRY_US) q[k++] = q[i];
	*n = k;
}
void rf_expire(rf_t *r, uint64_t now) {
	for (int i = 0; i < r->nn; i++) { expire_q(r->n[i].eager, &r->n[i].n_eager, now); expire_q(r->n[i].lazy, &r->n[i].n_lazy, now); }
}
void rf_on_uplink(rf_t *r, const uint8_t addr[4], uint8_t type, uint64_t now) {
	rf_node_t *n = rf_node(r, addr);
	rf_expire(r, now);
	/* eager: the first outstanding request that accepts the type is answered; nodes answer in order, so every
	 * request before it lost its answer and is freed as well */
	for (int i = 0; i < n->n_eager; i++) if (accepts(n->eager[i].type, type)) { qdrop_front(n->eager, &n->n_eager, i + 1); break; }
	/* lazy: only the oldest outstanding request can be answered */
	if (n->n_lazy > 0 && accepts(n->lazy[0].type, type)) qdrop_front(n->lazy, &n->n_lazy, 1);
	if (n->n_noexp > 0 && accepts(n->noexp[0].type, type)) qdrop_front(n->noexp, &n->n_noexp, 1);
}
int rf_sum(const rf_req_t *q, int n) { int s = 0; for (int i = 0; i < n; i++) s += q[i].size; return s; }
size_t rf_dump(const rf_t *r, char *buf, size_t n, uint64_t now) {
	size_t o = 0;
	for (int i = 0; i < r->nn && o + 600 < n; i++) {
		const rf_node_t *x = &r->n[i];
		o += (size_t) snprintf(buf + o, n - o, "R%02x%02x%02x st%d w%d E[", x->addr[0], x->addr[1], x->addr[2], x->stalled, x->wire_count);
		for (int k = 0; k < x->n_eager && o + 40 < n; k++) o += (size_t) snprintf(buf + o, n - o, "%02x@%d,", x->eager[k].type, (int) ((now - x->eager[k].t_us) / 1000000ull));
		o += (size_t) snprintf(buf + o, n - o, "]L[");
		for (int k = 0; k < x->n_lazy && o + 40 < n; k++) o += (size_t) snprintf(buf + o, n - o, "%02x@%d,", x->lazy[k].type, (int) ((now - x->lazy[k].t_us) / 1000000ull));
		o += (size_t) snprintf(buf + o, n - o, "]X[");
		for (int k = 0; k < x->n_noexp && o + 40 < n; k++) o += (size_t) snprintf(buf + o, n - o, "%02x,", x->noexp[k].type);
		o += (size_t) snprintf(buf + o, n - o, "];");
	}
	return o;
}
