/* textual inclusion: the code under test is the repository's text; we only add read-only accessors */
#include "src/transmission/bidib_transmission_send.c"
#include "vx.h"
size_t vx_send_buffer_index(void) { return buffer_index; }
const uint8_t *vx_send_buffer(void) { return (const uint8_t *) buffer; }
unsigned vx_pkt_max_cap(void) { return pkt_max_cap; }
