/* refcodec — independent BiDiB serial framing codec written from the specification.
 * CRC8 is computed bit-wise from the polynomial x^8+x^5+x^4+1 (reflected, 0x8C), never from the library table. */
#ifndef REFCODEC_H
#define REFCODEC_H
#include <stdint.h>
#include <stddef.h>

#define RC_MAGIC 0xFE
#define RC_ESCAPE 0xFD

typedef struct {
	uint8_t addr[4]; int depth;     /* depth = number of non-zero address bytes (0..3; 4 = unterminated) */
	uint8_t seq, type;
	const uint8_t *data; int dlen;  /* points into the packet payload */
	const uint8_t *raw; int rawlen; /* whole message incl. length byte */
} rc_msg_t;

typedef struct {
	size_t start, end;              /* byte offsets in the stream: first delimiter .. last delimiter (inclusive) */
	uint8_t payload[1024]; int plen; /* unescaped payload without CRC */
	int crc_ok;
	int wellformed;                 /* messages tile the payload exactly, each with terminated address, len>=3+depth */
	int dontcare;                   /* escape directly before delimiter, or similar case the properties leave open */
	rc_msg_t msgs[128]; int nmsgs;
} rc_pkt_t;

uint8_t rc_crc8_update(uint8_t crc, uint8_t byte);
uint8_t rc_crc8(const uint8_t *p, size_t n);

/* build one message: len|addr..|0|seq|type|data ; returns total bytes */
int rc_build_msg(uint8_t *out, const uint8_t addr[4], uint8_t seq, uint8_t type, const uint8_t *data, int dlen);
/* frame a payload into a serial packet FE <escaped payload> <escaped crc> FE ; lead_delim: emit leading FE */
size_t rc_frame(uint8_t *out, const uint8_t *payload, size_t plen, int lead_delim);

/* strict sender-side decoder (C01): the stream must be  (FE body FE)*  ; returns number of packets or -1 and
 * fills err.  Each packet is parsed into messages. */
int rc_decode_strict(const uint8_t *s, size_t n, rc_pkt_t *pk, int maxpk, char *err, size_t errn);

/* receiver-side reference decoder (C02): what a conforming receiver must extract from an arbitrary stream.
 * Packets are the maximal delimiter-free runs (non-empty after unescaping); returns number of packets. */
int rc_decode_rx(const uint8_t *s, size_t n, rc_pkt_t *pk, int maxpk, int synced);  /* synced: the receiver has already seen a delimiter */

/* parse payload into messages; returns 1 when well-formed */
int rc_split(rc_pkt_t *p);
#endif
