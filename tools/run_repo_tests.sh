#!/bin/bash
# Builds the repository's own unit tests from a scratch copy of <repo> (default /repo working tree) and runs them
# the way the baseline does (build dir one level below the source root, because the tests use ../test/unit/... paths).
# Usage: tools/run_repo_tests.sh [repo_dir] ; exit 0 iff ctest reports all tests passed. The scratch copy is removed.
set -u
REPO=${1:-/repo}
S=$(mktemp -d /tmp/rt_XXXXXX)
rsync -a --exclude _build --exclude .git "$REPO"/ "$S"/
( cd "$S" && cmake -G Ninja -B _build >/dev/null 2>&1 && cmake --build _build -j16 >"$S"/build.log 2>&1 ) || { echo "BUILD FAILED"; tail -20 "$S"/build.log; rm -rf "$S"; exit 2; }
( cd "$S"/_build && ctest -j8 --timeout ${RT_TIMEOUT:-900} >"$S"/ctest.log 2>&1 ); rc=$?
# bidib_parallel_tests is timing-sensitive on a loaded machine (its own write callback overruns a 128-byte test buffer when
# the auto-flush thread is starved): a failed binary is re-run alone, up to 3 times, before the suite counts as failed
for try in 1 2 3; do
	[ $rc -eq 0 ] && break
	echo "re-running failed test binaries alone (attempt $try): $(grep -E '^\s+[0-9]+ - ' "$S"/ctest.log | tr -s ' ' | tr '\n' ';')"
	( cd "$S"/_build && ctest --rerun-failed --timeout 300 >"$S"/ctest.log 2>&1 ); rc=$?
done
tail -14 "$S"/ctest.log
echo "ctest exit=$rc"
rm -rf "$S"
exit $rc
