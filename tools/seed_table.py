#!/usr/bin/env python3
"""Prints the markdown table of DESIGN.md section 7 from seeded/*/meta.json."""
import glob, json, os
V = os.path.dirname(os.path.dirname(os.path.abspath(__file__)))
rows = []
for p in sorted(glob.glob(V + "/seeded/*/meta.json")):
    m = json.load(open(p))
    det = [c for c in m.get("detected_by", [])]
    tgt = m["breaks_property"]
    first = m.get("first_evaluation")
    note = m.get("strengthening", "")
    rows.append((m["name"], tgt, m["summary"], "yes" if tgt in det else "**no**", ", ".join(c for c in det if c != tgt) or "—",
                 ("missed → " + note) if first == "missed" else ("caught as built" if first == "caught" else first or "")))
print("| seeded change | property | what was changed | target check detects (quick tier) | other checks that report it | first evaluation |")
print("|---|---|---|---|---|---|")
for r in rows:
    print("| `%s` | %s | %s | %s | %s | %s |" % r)
