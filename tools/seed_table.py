#!/usr/bin/env python3
"""Prints the markdown table of DESIGN.md section 7 from seeded/*/meta.json (sorted by property, then round)."""
import glob, json, os
V = os.path.dirname(os.path.dirname(os.path.abspath(__file__)))
rows = []
for p in sorted(glob.glob(V + "/seeded/*/meta.json")):
    m = json.load(open(p))
    det = list(m.get("detected_by", []))
    tgt = m["breaks_property"]
    first = m.get("first_evaluation")
    note = (m.get("strengthening") or "").strip()
    c = m.get("confirmed_by_me") or {}
    conf = c.get("demo_on_changed_tree_exit") not in (None, 0) and c.get("demo_on_unchanged_tree_exit") == 0 and (c.get("repository_tests_on_changed_tree") or {}).get("exit") == 0
    others = ", ".join(x for x in det if x != tgt)
    hist = "caught as built" if first == "caught" else ("missed → " + note) if first == "missed" else (first or "")
    if first == "caught" and note: hist += " (" + note + ")"
    rows.append((tgt, m.get("round", 1), m["name"], m["summary"].replace("|", "/"), "yes" if tgt in det else ("**no** (" + others + ")" if others else "**no**"),
                 others or "—", hist.replace("|", "/"), "yes" if conf else "**no**"))
rows.sort()
print("| property | round | seeded change (`seeded/<name>/`) | what was changed | target check reports it (quick tier) | other checks run that report it | first evaluation → what was strengthened | demo fails / passes, repository tests pass (re-run by me) |")
print("|---|---|---|---|---|---|---|---|")
for r in rows:
    print("| %s | %d | `%s` | %s | %s | %s | %s | %s |" % r)
n = len(rows); caught = sum(1 for r in rows if r[6].startswith("caught")); tg = sum(1 for r in rows if r[4] == "yes")
print()
print("%d seeded changes kept; %d were reported by the checks as they stood when the change arrived, %d were missed first; %d are reported by the target check's quick tier now." % (n, caught, n - caught, tg))
