#!/usr/bin/env python3
"""Re-evaluates every stored seeded change against the current checks and rewrites seeded/<name>/meta.json.
usage: finalize_seeds.py [--jobs N] [name-prefix ...]
For each seeded/<name>/ (patch.diff + demo.sh): tools/eval_seeded.sh <dir> <tmp result dir> all, then meta.json is rebuilt
from the result, keeping summary / needs_to_manifest and merging seeded/history.json (first evaluation, strengthening)."""
import json, os, re, subprocess, sys, concurrent.futures as cf
V = os.path.dirname(os.path.dirname(os.path.abspath(__file__)))
args = sys.argv[1:]
jobs = 2; checks_only = False; confirm_only = False; rev = False; needc = False
while args and args[0].startswith("--"):
    if args[0] == "--jobs": jobs = int(args[1]); args = args[2:]
    elif args[0] == "--checks-only": checks_only = True; args = args[1:]      # keep the recorded demo / repository-test confirmation
    elif args[0] == "--confirm-only": confirm_only = True; args = args[1:]
    elif args[0] == "--reverse": rev = True; args = args[1:]
    elif args[0] == "--need-confirmation": needc = True; args = args[1:]   # only seeds whose recorded confirmation is incomplete    # demo + repository tests only, checks kept as recorded
    else: sys.exit("unknown option " + args[0])
hist = json.load(open(os.path.join(V, "seeded", "history.json")))
names = sorted(d for d in os.listdir(os.path.join(V, "seeded")) if os.path.isdir(os.path.join(V, "seeded", d)))
if args:
    names = [n for n in names if any(n.startswith(a) for a in args)]
def confirmed(n):
    c = json.load(open(os.path.join(V, "seeded", n, "meta.json"))).get("confirmed_by_me") or {}
    return c.get("demo_on_changed_tree_exit") not in (None, 0) and c.get("demo_on_unchanged_tree_exit") == 0 and (c.get("repository_tests_on_changed_tree") or {}).get("exit") == 0
if needc: names = [n for n in names if not confirmed(n)]
if rev: names.reverse()

# besides the target check, the checks whose subject is adjacent (a complete 60 x 20 table costs a day of CPU time)
NEIGHBOURS = {"C01": ["C02", "C05"], "C02": ["C01", "C12"], "C03": ["C04", "C05", "C19"], "C04": ["C03"], "C05": ["C01", "C03"], "C06": ["C10", "C12", "C19"], "C07": ["C08", "C09", "C10", "C17"],
              "C08": ["C07", "C17"], "C09": ["C07", "C10", "C20"], "C10": ["C06", "C09", "C17"], "C11": ["C10", "C13"], "C12": ["C01", "C06", "C07"], "C13": ["C11", "C14"], "C14": ["C13", "C17"],
              "C15": ["C16", "C20"], "C16": ["C01", "C15"], "C17": ["C10", "C14"], "C18": ["C01", "C10", "C11"], "C19": ["C06", "C18"], "C20": ["C09", "C15"]}
HEAD = subprocess.run(["git", "-C", "/repo", "rev-parse", "--short", "HEAD"], capture_output=True, text=True).stdout.strip()
def one(name):
    d = os.path.join(V, "seeded", name)
    res = os.environ.get("SEED_RES_ROOT", "/tmp/seedfinal") + "/" + name
    os.makedirs(res, exist_ok=True)
    old = json.load(open(os.path.join(d, "meta.json")))
    ids = ["all"] if os.environ.get("SEED_ALL_CHECKS") else [old["breaks_property"]] + ([] if os.environ.get("SEED_TARGET_ONLY") else NEIGHBOURS.get(old["breaks_property"], []))
    if confirm_only: ids = []
    opts = ["--no-tests", "--no-demo"] if checks_only else []
    subprocess.run([os.path.join(V, "tools", "eval_seeded.sh"), d, res] + opts + ids, stdout=subprocess.DEVNULL, stderr=subprocess.DEVNULL)
    conf = {"demo_on_changed_tree_exit": None, "demo_on_unchanged_tree_exit": None, "repository_tests_on_changed_tree": None}
    if checks_only: conf = old.get("confirmed_by_me", conf)
    checks = dict(old.get("checks_quick_tier", {})) if confirm_only else {}
    for l in open(os.path.join(res, "summary.txt")).read().splitlines():
        m = re.match(r"demo on changed tree: exit=(\d+)", l)
        if m: conf["demo_on_changed_tree_exit"] = int(m.group(1))
        m = re.match(r"demo on unchanged tree: exit=(\d+)", l)
        if m: conf["demo_on_unchanged_tree_exit"] = int(m.group(1))
        m = re.match(r"repository tests on changed tree: exit=(\d+) \((.*)\)", l)
        if m: conf["repository_tests_on_changed_tree"] = {"exit": int(m.group(1)), "summary": m.group(2)}
        m = re.match(r"check (C\d+) (\w+): exit=(\d+) (\d+) violation line\(s\) ?(.*)", l)
        if m: checks[m.group(1)] = {"tier": m.group(2), "exit": int(m.group(3)), "violation_lines": int(m.group(4)), "classes": [c for c in m.group(5).split(";") if c.strip()]}
    # the other phase may have rewritten this meta.json meanwhile: take its part from the file as it is NOW
    fresh = json.load(open(os.path.join(d, "meta.json")))
    if checks_only: conf = fresh.get("confirmed_by_me", conf); old["confirmed_at_repo_head"] = fresh.get("confirmed_at_repo_head")
    if confirm_only: checks = dict(fresh.get("checks_quick_tier", {}))
    prop = old["breaks_property"]
    mr = re.match(r"R(\d+)-", name); rnd = "r" + mr.group(1) if mr else "r1"
    h = hist.get(rnd, {}).get(prop, ["", ""])
    meta = {
        "name": name, "round": int(rnd[1:]), "breaks_property": prop, "summary": old["summary"], "needs_to_manifest": old["needs_to_manifest"],
        "origin": old["origin"], "confirmed_by_me": conf, "confirmed_at_repo_head": old.get("confirmed_at_repo_head") if checks_only else HEAD,
        "what_i_ran": "tools/finalize_seeds.py -> tools/eval_seeded.sh <this dir> <result dir> all  (scratch copy of /repo + patch: demo.sh on the changed and on the unchanged tree, tools/run_repo_tests.sh on the changed tree, the quick tier of the target check and of the checks with an adjacent subject (all 20 with SEED_ALL_CHECKS=1) with VERIF_REPO pointing at the copy); the official procedure (git -C /repo apply, run, git -C /repo checkout -- .) gives the same builds because the harness is built from a content hash of the tree",
        "checks_quick_tier": checks,
        "detected_by": sorted(k for k, v in checks.items() if v["exit"] == 1),
        "target_check_detects": checks.get(prop, {}).get("exit") == 1,
        "infrastructure_errors": sorted(k for k, v in checks.items() if v["exit"] not in (0, 1)),
        "first_evaluation": h[0], "strengthening": h[1],
    }
    json.dump(meta, open(os.path.join(d, "meta.json"), "w"), indent=1)
    return name, meta["detected_by"], meta["target_check_detects"], conf, meta["infrastructure_errors"]

with cf.ThreadPoolExecutor(jobs) as ex:
    for r in ex.map(one, names):
        print(*r, flush=True)
