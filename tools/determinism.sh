#!/bin/bash
# Runs every quick check twice and compares the counters of the two evidence files (states, transitions, executions and all
# harness counters): the exploration is deterministic, so they must be identical.  Usage: tools/determinism.sh [ids...]
V=$(cd "$(dirname "$0")/.." && pwd); cd "$V"; rc=0
IDS=("$@"); [ ${#IDS[@]} -eq 0 ] && IDS=(C01 C02 C03 C04 C05 C06 C07 C08 C09 C10 C11 C12 C13 C14 C15 C16 C17 C18 C19 C20)
for id in "${IDS[@]}"; do
	for k in 1 2; do VERIF_EVIDENCE_DIR=/tmp/det_$k ./vcheck run $id --tier quick >/dev/null 2>&1 || { echo "$id run $k: exit $?"; rc=1; }; done
	python3 - "$id" <<'PY' || rc=1
import json,sys
i=sys.argv[1]; a=json.load(open('/tmp/det_1/%s.json'%i))['coverage']['counters']; b=json.load(open('/tmp/det_2/%s.json'%i))['coverage']['counters']
d={k:(a.get(k),b.get(k)) for k in set(a)|set(b) if a.get(k)!=b.get(k)}
print(i, "identical" if not d else "DIFFERENT %s"%d); sys.exit(1 if d else 0)
PY
done
exit $rc
