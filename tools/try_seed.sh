#!/bin/bash
# quick trial: tools/try_seed.sh <patch.diff> <check id> [more ids]  — scratch copy of /repo + patch, runs the checks' quick tier there
P=$(readlink -f "$1"); shift
V=$(cd "$(dirname "$0")/.." && pwd); S=$(mktemp -d /tmp/try_XXXXXX)
rsync -a --exclude _build --exclude .git /repo/ "$S/repo/"; ( cd "$S/repo" && git apply --whitespace=nowarn "$P" ) || { echo "patch does not apply"; rm -rf "$S"; exit 2; }
for id in "$@"; do VERIF_REPO="$S/repo" VERIF_BUILD_DIR="$S/build" VERIF_OUT_DIR="$S/out" VERIF_EVIDENCE_DIR="$S/ev" "$V/vcheck" run "$id" --tier ${TIER:-quick} 2>&1 | cut -c1-${W:-400} | grep -E "^C[0-9]+ (quick|thorough)|VIOLATION|INFRA|class:|detail:|case:"; done
rm -rf "$S"
