#!/usr/bin/env python3
"""Replaces the table between the SEED-TABLE markers of DESIGN.md by the output of tools/seed_table.py."""
import os, subprocess
V = os.path.dirname(os.path.dirname(os.path.abspath(__file__)))
t = subprocess.run(["python3", os.path.join(V, "tools", "seed_table.py")], capture_output=True, text=True, check=True).stdout
p = os.path.join(V, "DESIGN.md"); s = open(p).read()
a = s.index("<!-- SEED-TABLE-BEGIN -->") + len("<!-- SEED-TABLE-BEGIN -->"); b = s.index("<!-- SEED-TABLE-END -->")
open(p, "w").write(s[:a] + "\n" + t + s[b:])
print("table rows:", t.count("\n| C"))
