#!/usr/bin/env python3
"""Stores one confirmed seeded change under /verif/seeded/<name>/ from a sub-agent's deliverables and the evaluation result.
usage: store_seed.py <name> <property> <seed_out dir> <evres dir> <summary> <needs>"""
import json, os, re, shutil, sys
name, prop, src, ev, summary, needs = sys.argv[1:7]
V = os.path.dirname(os.path.dirname(os.path.abspath(__file__)))
dst = os.path.join(V, "seeded", name)
os.makedirs(dst, exist_ok=True)
for f in os.listdir(src):
    p = os.path.join(src, f)
    if f.endswith(".log") or f in ("a.out",) or f.startswith("_build"):
        continue
    if os.path.isdir(p):
        shutil.copytree(p, os.path.join(dst, f), dirs_exist_ok=True)
    elif os.path.getsize(p) < 200000 and not os.access(p, os.X_OK) or f.endswith(".sh"):
        shutil.copy(p, os.path.join(dst, f))
lines = open(os.path.join(ev, "summary.txt")).read().splitlines()
conf = {"demo_on_changed_tree_exit": None, "demo_on_unchanged_tree_exit": None, "repository_tests_on_changed_tree": None}
checks = {}
for l in lines:
    m = re.match(r"demo on changed tree: exit=(\d+)", l)
    if m: conf["demo_on_changed_tree_exit"] = int(m.group(1))
    m = re.match(r"demo on unchanged tree: exit=(\d+)", l)
    if m: conf["demo_on_unchanged_tree_exit"] = int(m.group(1))
    m = re.match(r"repository tests on changed tree: exit=(\d+) \((.*)\)", l)
    if m: conf["repository_tests_on_changed_tree"] = {"exit": int(m.group(1)), "summary": m.group(2)}
    m = re.match(r"check (C\d+) (\w+): exit=(\d+) (\d+) violation line\(s\) ?(.*)", l)
    if m: checks[m.group(1)] = {"tier": m.group(2), "exit": int(m.group(3)), "violation_lines": int(m.group(4)), "classes": [c for c in m.group(5).split(";") if c.strip()]}
meta = {
    "name": name, "breaks_property": prop, "summary": summary, "needs_to_manifest": needs,
    "origin": "fresh sub-agent given only the property record and a scratch worktree of /repo HEAD (nothing from /verif)",
    "confirmed_by_me": conf,
    "what_i_ran": "tools/eval_seeded.sh <this dir> <result dir> all  (scratch copy of /repo + patch: demo.sh on changed and unchanged tree, tools/run_repo_tests.sh on the changed tree, every check's quick tier with VERIF_REPO pointing at the copy)",
    "checks_quick_tier": checks,
    "detected_by": sorted(k for k, v in checks.items() if v["exit"] == 1),
    "target_check_detects": checks.get(prop, {}).get("exit") == 1,
}
json.dump(meta, open(os.path.join(dst, "meta.json"), "w"), indent=1)
print(name, "detected_by", meta["detected_by"], "target:", meta["target_check_detects"])
