#!/bin/bash
# Evaluates one seeded change against the checks WITHOUT touching /repo: a scratch copy of /repo's working tree gets the
# patch, the repository's own tests and the demonstration are run on it, then the requested checks run with VERIF_REPO
# pointing at the copy (separate build/out/evidence directories).  The scratch copy is removed at the end.
# Usage: tools/eval_seeded.sh <seed-dir with patch.diff [+demo.sh]> <result-dir> [--no-tests] [--no-demo] [--tier quick|thorough] [check ids ... | all]
set -u
SEED=$(readlink -f "$1"); RES=$2; shift 2
TESTS=1; DEMO=1; TIER=quick; IDS=()
while [ $# -gt 0 ]; do case "$1" in --no-tests) TESTS=0;; --no-demo) DEMO=0;; --tier) TIER=$2; shift;; *) IDS+=("$1");; esac; shift; done
V=$(cd "$(dirname "$0")/.." && pwd)
mkdir -p "$RES"; RES=$(readlink -f "$RES")
S=$(mktemp -d /tmp/ev_XXXXXX)
rsync -a --exclude _build --exclude .git /repo/ "$S/repo/"
if ! ( cd "$S/repo" && git apply --whitespace=nowarn "$SEED/patch.diff" ); then echo "PATCH DOES NOT APPLY" | tee "$RES/summary.txt"; rm -rf "$S"; exit 2; fi
: > "$RES/summary.txt"
if [ $DEMO = 1 ] && { [ -x "$SEED/demo.sh" ] || [ -f "$SEED/demo.sh" ]; }; then
	( cd "$SEED" && timeout 900 bash ./demo.sh "$S/repo" ) > "$RES/demo_changed.log" 2>&1; echo "demo on changed tree: exit=$?" >> "$RES/summary.txt"
	rsync -a --exclude _build --exclude .git /repo/ "$S/repo_unchanged/"        # demos write their build output into the source dir: never into /repo
	( cd "$SEED" && timeout 900 bash ./demo.sh "$S/repo_unchanged" ) > "$RES/demo_unchanged.log" 2>&1; echo "demo on unchanged tree: exit=$?" >> "$RES/summary.txt"
	rm -rf "$S/repo_unchanged"; find "$S/repo" -maxdepth 1 -name "_*" -type d -exec rm -rf {} +
fi
if [ $TESTS = 1 ]; then
	"$V/tools/run_repo_tests.sh" "$S/repo" > "$RES/repo_tests.log" 2>&1; echo "repository tests on changed tree: exit=$? ($(grep -E 'tests passed|tests failed' "$RES/repo_tests.log" | head -1))" >> "$RES/summary.txt"
fi
if [ ${#IDS[@]} -eq 1 ] && [ "${IDS[0]}" = all ]; then IDS=(C01 C02 C03 C04 C05 C06 C07 C08 C09 C10 C11 C12 C13 C14 C15 C16 C17 C18 C19 C20); fi
export VERIF_REPO="$S/repo" VERIF_BUILD_DIR="$S/build" VERIF_OUT_DIR="$S/out" VERIF_EVIDENCE_DIR="$S/evidence"
for id in "${IDS[@]}"; do
	"$V/vcheck" run "$id" --tier "$TIER" > "$RES/check_$id.log" 2>&1; rc=$?
	cls=$(grep -A1 '^VIOLATION' "$RES/check_$id.log" | grep 'class:' | head -3 | sed 's/^ *class: //' | tr '\n' ';')
	echo "check $id $TIER: exit=$rc $(grep -c '^VIOLATION' "$RES/check_$id.log") violation line(s) $cls" >> "$RES/summary.txt"
done
cat "$RES/summary.txt"
rm -rf "$S"
