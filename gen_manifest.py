#!/usr/bin/env python3
"""Regenerates MANIFEST.json from checks/meta.json (one source of truth for per-check texts)."""
import json, os
V = os.path.dirname(os.path.abspath(__file__))
meta = json.load(open(V + "/checks/meta.json"))
props = [json.loads(l) for l in open(V + "/properties.jsonl")]
checks = []
na = []
for p in props:
    pid = p["id"]
    m = meta.get(pid)
    if not m or m.get("disabled"):
        na.append({"property_id": pid, "reason": (m or {}).get("na_reason", "check not built yet in this round; see DESIGN.md section 3 for the planned exploration")})
        continue
    c = {
        "property_id": pid,
        "quick_cmd": "./vcheck run %s --tier quick" % pid,
        "thorough_cmd": "./vcheck run %s --tier thorough" % pid,
        "evidence_file": "/verif/evidence/%s.json" % pid,
        "replay_cmd_template": "./vcheck replay {path}",
        "engine": m.get("engine", "E2"),
        "level_claimed": {"category": "model_checking", "text": m["level_text"], "design_ref": "DESIGN.md section 3, " + pid},
        "level_note": m.get("level_note", "trusted base: the deterministic scheduler (fw/vsched.c), the independent reference codec/models in the harness, clang sanitizer runtimes; bounds as stated in the evidence file"),
        "technique": m["technique"],
    }
    checks.append(c)
man = {
    "version": 1,
    "setup_cmd": "./vcheck build plain asan tsan autop autoz",
    "hooks": {
        "guard": "LIBBIDIB_VERIF",
        "enable": "no source hooks: the library is built from /repo's working tree and observed through link-time interposition (-Wl,--wrap) and textual inclusion of four translation units (fw/w_*.c); LIBBIDIB_VERIF is reserved and currently guards nothing in /repo",
        "baseline_off_cmd": "cmake -S /repo -B /tmp/libbidib_baseline -G Ninja && cmake --build /tmp/libbidib_baseline && ctest --test-dir /tmp/libbidib_baseline -j8 --timeout 900; rm -rf /tmp/libbidib_baseline",
        "source_commits": [],
        "add_only": True,
    },
    "engines": [
        {"name": "E1", "path": "fw/explore.c (e1_explore) + fw/vsched.c", "serves_properties": [p for p in meta if "E1" in meta[p].get("engine", "")], "kind_free_text": "stateless deviation-bounded (preemption / early timer wake) schedule exploration of the real library threads under a deterministic serialising scheduler, fork per schedule"},
        {"name": "E2", "path": "fw/explore.c (e2_explore, ex_map)", "serves_properties": [p for p in meta if "E2" in meta[p].get("engine", "")], "kind_free_text": "explicit-state breadth-first search over event histories with the real library as transition function, de-duplicated on a canonical dump of all mutable library state; exhaustive catalogues of independent cases"},
    ],
    "checks": checks,
    "not_applicable": na,
    "notes": "All checks rebuild the library from /repo's working tree (content-hash keyed cache under /verif/build). Known findings: /verif/known_findings.json.",
}
json.dump(man, open(V + "/MANIFEST.json", "w"), indent=1)
print("claimed:", [c["property_id"] for c in checks])
