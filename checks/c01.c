/* C01 — downlink bytes are well-formed packets carrying each sent message exactly once; capacity rule.
 *  c01.bytes : exhaustive catalogue of single messages (address depth/bytes x type x data classes x full sweep of the
 *              last byte, which sweeps the CRC over all 256 values) — decoded with the independent codec
 *  c01.batch : every announced capacity 0..255 x histories of sends (8 size classes, 2 nodes) x flush patterns x
 *              position of the capacity announcement
 *  c01.stage : capacity 255, packets of every length 200..255 with k escapable bytes (staging-buffer split)
 *  c01.sched : E1, two senders + flush caller + auto-flush (early wakes) + receiver applying a capacity change */
#include "../fw/explore.h"
#include "../fw/hx.h"
#include "include/bidib.h"
#include "src/transmission/bidib_transmission_intern.h"
#include <stdio.h>
#include <stdlib.h>
#include <string.h>

#include "c01_cases.h"

/* per-node expected sequence numbers (the harness is the only sender) */
static struct { uint32_t key; int used; int count; } seqtab[4096];
static int next_seq(const uint8_t addr[4]) {
	uint32_t key; memcpy(&key, addr, 4);
	uint32_t h = (key * 2654435761u) >> 20;
	for (;;) { h &= 4095; if (!seqtab[h].used) { seqtab[h].used = 1; seqtab[h].key = key; seqtab[h].count = 0; break; } if (seqtab[h].key == key) break; h++; }
	int s = (seqtab[h].count % 255) + 1; seqtab[h].count++;
	return s;
}

static size_t wire_off;
/* decode what was written since the last call and compare with the expected messages (in order, exactly once) */
static int check_wire(const uint8_t *exp[], const int explen[], int nexp, const char *what, rc_pkt_t *pk, int maxpk, int *npk_out) {
	char err[200];
	int np = rc_decode_strict(env_out() + wire_off, env_out_len() - wire_off, pk, maxpk, err, sizeof err);
	size_t from = wire_off; wire_off = env_out_len();
	if (npk_out) *npk_out = np;
	if (np < 0) { res_violation("wire-malformed: downlink bytes are not a sequence of well-formed packets", "%s: %s; bytes=%s", what, err, hx_hex(env_out() + from, env_out_len() - from > 400 ? 400 : env_out_len() - from)); return 0; }
	int k = 0;
	for (int i = 0; i < np; i++) for (int j = 0; j < pk[i].nmsgs; j++) {
		rc_msg_t *m = &pk[i].msgs[j];
		if (k >= nexp) { res_violation("wire-extra-message: a message appears that was not sent (duplicate)", "%s: extra message %s", what, hx_hex(m->raw, (size_t) m->rawlen)); return 0; }
		if (m->rawlen != explen[k] || memcmp(m->raw, exp[k], (size_t) explen[k])) {
			res_violation("wire-message-differs: message on the wire is not the encoding of the call", "%s: position %d: wire %s expected %s", what, k, hx_hex(m->raw, (size_t) m->rawlen), hx_hex(exp[k], (size_t) explen[k]));
			return 0;
		}
		k++;
	}
	if (k != nexp) { res_violation("wire-missing-message: an accepted message did not reach the wire after flush", "%s: %d of %d messages on the wire", what, k, nexp); return 0; }
	return 1;
}

/* ---------------------------------------------------------------- c01.bytes */
static void bytes_child(const void *job, size_t n) {
	vs_dev_t devs[VS_MAXDEV]; int nd; size_t pl; const uint8_t *p = job_parse(job, n, devs, &nd, &pl);
	uint32_t start, count; memcpy(&start, p, 4); memcpy(&count, p + 4, 4);
	hx_child_begin(NULL, 0, 0, NULL, 0, 1000000ull * 1000000ull);
	if (hx_start_debug(0)) res_infra("start failed");
	hx_quiesce();
	static rc_pkt_t pk[4]; hx_hash_t h; hx_hash_init(&h);
	for (uint32_t i = 0; i < count && (long) (start + i) < bytes_total(); i++) {
		case_t c; int isolate = gen_case((long) start + i, &c);
		if (isolate) { vs_sleep_us(2500000); }
		uint8_t stack[4]; memcpy(stack, c.addr, 4);
		uint8_t exp[200]; int el = rc_build_msg(exp, c.addr, (uint8_t) next_seq(c.addr), c.type, c.data, c.dlen);
		if (c.dlen) bidib_buffer_message_with_data(stack, c.type, (uint8_t) c.dlen, c.data, 0);
		else bidib_buffer_message_without_data(stack, c.type, 0);
		bidib_flush();
		uint8_t dt[4]; if (vx_node_deferred(c.addr, dt, 4) > 0) res_infra("case %u not independent: message was deferred", start + i);
		const uint8_t *e[1] = {exp}; int l[1] = {el}; char what[300]; human_case(&c, what, sizeof what);
		if (!check_wire(e, l, 1, what, pk, 4, NULL)) { res_printf("I %u\n", start + i); break; }
		hx_hash_add(&h, exp, (size_t) el);
	}
	res_printf("O %llx %llx\n", (unsigned long long) h.a, (unsigned long long) h.b);
	res_printf("C crc_escaped %d\n", 0);
	res_finish();
}
#define BYTES_BATCH 2048
static size_t bytes_gen(long idx, uint8_t *payload, char *human, size_t hn) {
	uint32_t start = (uint32_t) (idx * BYTES_BATCH), count = BYTES_BATCH;
	memcpy(payload, &start, 4); memcpy(payload + 4, &count, 4);
	snprintf(human, hn, "cases %u..%u", start, start + count - 1);
	return 8;
}
/* single-case re-run after a failing batch, so that the replay artefact is minimal */
static size_t one_gen_base; static long one_idx[64]; static int n_one;
static size_t one_gen(long idx, uint8_t *payload, char *human, size_t hn) {
	uint32_t start = (uint32_t) one_idx[idx], count = 1; (void) one_gen_base;
	memcpy(payload, &start, 4); memcpy(payload + 4, &count, 4);
	case_t c; gen_case(start, &c); char hc[300]; human_case(&c, hc, sizeof hc);
	snprintf(human, hn, "single case %u: %s", start, hc);
	return 8;
}
static void bytes_on_result(long idx, const run_res_t *r) {
	(void) idx; const char *l = res_line(r, 'I', 0);
	if (l && n_one < 64) one_idx[n_one++] = atol(l);
}

/* ---------------------------------------------------------------- c01.batch */
static const int SIZES[8] = {5, 8, 20, 60, 61, 64, 65, 128};
static const uint8_t IFACE[4] = {0, 0, 0, 0};
static void announce(uint8_t cap) { hx_feed_msg(IFACE, 0, MSG_PKT_CAPACITY, &cap, 1); }
typedef struct { uint8_t n; uint8_t send[4]; uint8_t flushmask; uint8_t cappos; } batch_t;   /* send = node*8+sizeclass */
static void batch_child(const void *job, size_t n) {
	vs_dev_t devs[VS_MAXDEV]; int nd; size_t pl; const uint8_t *p = job_parse(job, n, devs, &nd, &pl);
	batch_t b; memcpy(&b, p, sizeof b);
	hx_child_begin(NULL, 0, 0, NULL, 0, 0);
	if (hx_start_debug(0)) res_infra("start failed");
	hx_quiesce();
	bidib_set_lowlevel_debug_mode(false);     /* dispatch like normal mode so that MSG_PKT_CAPACITY is applied */
	static rc_pkt_t pk[16]; hx_hash_t h; hx_hash_init(&h); long multi = 0;
	for (int cap = 0; cap < 256; cap++) {
		announce(0); int cap_now = 64; int cap_at[4];
		uint8_t exp[4][140]; int el[4];
		for (int i = 0; i <= b.n; i++) {
			if (b.cappos == i) { announce((uint8_t) cap); cap_now = cap > 64 ? cap : 64; }
			if (i == b.n) break;
			int node = b.send[i] / 8, size = SIZES[b.send[i] % 8];
			uint8_t addr[4] = {(uint8_t) (node + 1), 0, 0, 0}; uint8_t data[130];
			int dlen = size - 5; for (int k = 0; k < dlen; k++) data[k] = (uint8_t) (0x40 + i);
			el[i] = rc_build_msg(exp[i], addr, (uint8_t) next_seq(addr), ZERO_RESP_TYPE, data, dlen);
			if (dlen) bidib_buffer_message_with_data(addr, ZERO_RESP_TYPE, (uint8_t) dlen, data, 0);
			else bidib_buffer_message_without_data(addr, ZERO_RESP_TYPE, 0);
			cap_at[i] = cap_now;
			if (b.flushmask & (1 << i)) bidib_flush();
		}
		bidib_flush();
		const uint8_t *e[4] = {exp[0], exp[1], exp[2], exp[3]}; char what[120];
		snprintf(what, sizeof what, "announced capacity %d", cap);
		int np = 0;
		if (!check_wire(e, el, b.n, what, pk, 16, &np)) break;
		int k = 0;
		for (int i = 0; i < np; i++) {
			int cum = 0;
			for (int j = 0; j < pk[i].nmsgs; j++, k++) {
				cum += pk[i].msgs[j].rawlen;
				if (j >= 1 && cum > cap_at[k]) {
					res_violation("capacity-exceeded: a packet with several messages exceeds the capacity in force when it was filled",
					              "announced %d (in force %d): packet %d holds %d bytes after its message %d", cap, cap_at[k], i, cum, j + 1);
					cap = 999; break;
				}
			}
			if (pk[i].nmsgs > 1) multi++;
			hx_hash_add(&h, &pk[i].nmsgs, sizeof(int));
		}
	}
	res_printf("O %llx %llx\nC multi_message_packets %ld\n", (unsigned long long) h.a, (unsigned long long) h.b, multi);
	res_finish();
}
static int batch_thorough;
static long batch_count(void) {
	/* n=1: 16 sends; n=2: 256; n=3: one node quick (512) / two nodes thorough (4096); n=4 thorough one node (4096)
	 * each x 2^n flush masks x (n+1) capacity positions */
	long c = 16L * 2 * 2 + 256L * 4 * 3 + (batch_thorough ? 4096L : 512L) * 8 * 4;
	if (batch_thorough) c += 4096L * 16 * 5;
	return c;
}
static void batch_decode(long idx, batch_t *b) {
	memset(b, 0, sizeof *b);
	long c1 = 16L * 2 * 2, c2 = 256L * 4 * 3, c3 = (batch_thorough ? 4096L : 512L) * 8 * 4;
	if (idx < c1) { b->n = 1; b->send[0] = (uint8_t) (idx % 16); idx /= 16; b->flushmask = (uint8_t) (idx % 2); b->cappos = (uint8_t) (idx / 2); return; }
	idx -= c1;
	if (idx < c2) { b->n = 2; b->send[0] = (uint8_t) (idx % 16); idx /= 16; b->send[1] = (uint8_t) (idx % 16); idx /= 16; b->flushmask = (uint8_t) (idx % 4); b->cappos = (uint8_t) (idx / 4); return; }
	idx -= c2;
	if (idx < c3) {
		int base = batch_thorough ? 16 : 8; b->n = 3;
		for (int i = 0; i < 3; i++) { b->send[i] = (uint8_t) (idx % base); idx /= base; }
		b->flushmask = (uint8_t) (idx % 8); b->cappos = (uint8_t) (idx / 8); return;
	}
	idx -= c3;
	b->n = 4; for (int i = 0; i < 4; i++) { b->send[i] = (uint8_t) (idx % 8); idx /= 8; }
	b->flushmask = (uint8_t) (idx % 16); b->cappos = (uint8_t) (idx / 16);
}
static size_t batch_gen(long idx, uint8_t *payload, char *human, size_t hn) {
	batch_t b; batch_decode(idx, &b); memcpy(payload, &b, sizeof b);
	size_t o = (size_t) snprintf(human, hn, "caps 0..255 x sends=[");
	for (int i = 0; i < b.n; i++) o += (size_t) snprintf(human + o, hn - o, "%s%c:%d", i ? "," : "", 'A' + b.send[i] / 8, SIZES[b.send[i] % 8]);
	snprintf(human + o, hn - o, "] flushmask=%x announce-before-send=%d", b.flushmask, b.cappos);
	return sizeof b;
}


/* ---------------------------------------------------------------- c01.shrink: the capacity shrinks while messages are batched
 * announce A in {100,128,200,255}; two sends without flush; announce B < A (0, 64, 65, 100, 129); a third send; flush.
 * Every combination of the eight size classes.  Oracle as in c01.batch (exactly once in order; a packet with several messages
 * never exceeds the capacity in force when each further message was added). */
static void shrink_child(const void *job, size_t n) {
	vs_dev_t devs[VS_MAXDEV]; int nd; size_t pl; const uint8_t *p = job_parse(job, n, devs, &nd, &pl);
	static const int CA[4] = {100, 128, 200, 255}, CB[5] = {0, 64, 65, 100, 129};
	int A = CA[p[0] % 4], s1 = p[0] / 4;
	hx_child_begin(NULL, 0, 0, NULL, 0, 0);
	if (hx_start_debug(0)) res_infra("start failed");
	hx_quiesce();
	bidib_set_lowlevel_debug_mode(false);
	static rc_pkt_t pk[16]; hx_hash_t h; hx_hash_init(&h); long cases = 0;
	for (int s2 = 0; s2 < 8; s2++) for (int bi = 0; bi < 5; bi++) for (int s3 = 0; s3 < 8; s3++) {
		int B = CB[bi]; if (B >= A) continue;
		int sz[3] = {SIZES[s1], SIZES[s2], SIZES[s3]}; int cap_at[3]; uint8_t exp[3][140]; int el[3];
		announce(0); announce((uint8_t) A); int cap_now = A;
		for (int i = 0; i < 3; i++) {
			if (i == 2) { announce((uint8_t) B); cap_now = B > 64 ? B : 64; }
			uint8_t addr[4] = {(uint8_t) (1 + i % 2), 0, 0, 0}; uint8_t data[130]; int dlen = sz[i] - 5; for (int k = 0; k < dlen; k++) data[k] = (uint8_t) (0x50 + i);
			el[i] = rc_build_msg(exp[i], addr, (uint8_t) next_seq(addr), ZERO_RESP_TYPE, data, dlen);
			if (dlen) bidib_buffer_message_with_data(addr, ZERO_RESP_TYPE, (uint8_t) dlen, data, 0); else bidib_buffer_message_without_data(addr, ZERO_RESP_TYPE, 0);
			cap_at[i] = cap_now;
		}
		bidib_flush(); cases++;
		const uint8_t *e[3] = {exp[0], exp[1], exp[2]}; char what[140]; snprintf(what, sizeof what, "capacity %d, sends %d+%d, capacity %d, send %d", A, sz[0], sz[1], B, sz[2]);
		int np = 0; if (!check_wire(e, el, 3, what, pk, 16, &np)) goto out;
		int k = 0; for (int i = 0; i < np; i++) { int cum = 0; for (int j = 0; j < pk[i].nmsgs; j++, k++) { cum += pk[i].msgs[j].rawlen;
			if (j >= 1 && cum > cap_at[k]) { res_violation("capacity-exceeded: a packet with several messages exceeds the capacity in force when it was filled", "%s: packet %d holds %d bytes after its message %d (capacity in force %d)", what, i, cum, j + 1, cap_at[k]); goto out; } }
			hx_hash_add(&h, &pk[i].nmsgs, sizeof(int)); }
	}
out:
	res_printf("O %llx %llx\nC shrink_cases %ld\n", (unsigned long long) h.a, (unsigned long long) h.b, cases);
	res_finish();
}
static size_t shrink_gen(long idx, uint8_t *payload, char *human, size_t hn) { static const int CA[4] = {100, 128, 200, 255}; payload[0] = (uint8_t) idx; snprintf(human, hn, "capacity %d, first send %d bytes, then every second send x smaller capacity x third send", CA[idx % 4], SIZES[idx / 4]); return 1; }

/* ---------------------------------------------------------------- c01.stage */
static void stage_child(const void *job, size_t n) {
	vs_dev_t devs[VS_MAXDEV]; int nd; size_t pl; const uint8_t *p = job_parse(job, n, devs, &nd, &pl);
	int L = p[0]; uint8_t escbyte = p[1];
	hx_child_begin(NULL, 0, 0, NULL, 0, 0);
	if (hx_start_debug(0)) res_infra("start failed");
	hx_quiesce();
	bidib_set_lowlevel_debug_mode(false);
	announce(255);
	static rc_pkt_t pk[8]; hx_hash_t h; hx_hash_init(&h); long chunked = 0;
	int d1 = 123, d2 = L - 128 - 5; if (d2 < 0) res_infra("bad L");
	for (int k = 0; k <= d1 + d2; k++) {
		uint8_t a1[4] = {1, 0, 0, 0}, a2[4] = {2, 0, 0, 0}; uint8_t data1[130], data2[130];
		for (int i = 0; i < d1; i++) data1[i] = i < k ? escbyte : 0x11;
		for (int i = 0; i < d2; i++) data2[i] = (d1 + i) < k ? escbyte : 0x11;
		uint8_t e1[140], e2[140];
		int l1 = rc_build_msg(e1, a1, (uint8_t) next_seq(a1), ZERO_RESP_TYPE, data1, d1);
		int l2 = rc_build_msg(e2, a2, (uint8_t) next_seq(a2), ZERO_RESP_TYPE, data2, d2);
		int w0 = env_nwrites();
		bidib_buffer_message_with_data(a1, ZERO_RESP_TYPE, (uint8_t) d1, data1, 0);
		if (d2) bidib_buffer_message_with_data(a2, ZERO_RESP_TYPE, (uint8_t) d2, data2, 0); else bidib_buffer_message_without_data(a2, ZERO_RESP_TYPE, 0);
		bidib_flush();
		const uint8_t *e[2] = {e1, e2}; int l[2] = {l1, l2}; char what[100]; int np;
		snprintf(what, sizeof what, "payload length %d with %d bytes %02x", L, k, escbyte);
		if (hx_emit_san_events(what)) break;          /* ASan build: the staging buffer itself must not be overrun */
		if (!check_wire(e, l, 2, what, pk, 8, &np)) break;
		if (env_nwrites() - w0 > np) chunked++;
		hx_hash_add(&h, &np, sizeof np);
	}
	res_printf("O %llx %llx\nC chunked_flushes %ld\n", (unsigned long long) h.a, (unsigned long long) h.b, chunked);
	res_finish();
}
static size_t stage_gen(long idx, uint8_t *payload, char *human, size_t hn) {
	payload[0] = (uint8_t) (200 + idx / 2); payload[1] = (idx & 1) ? 0xFD : 0xFE;
	snprintf(human, hn, "two messages, payload %d bytes, k=0..all data bytes = %02x", payload[0], payload[1]);
	return 2;
}

/* ---------------------------------------------------------------- c01.sched */
static const t_bidib_node_address NA_A = {1, 0, 0}, NA_B = {2, 0, 0};
static void *s_t1(void *p) { (void) p; uint8_t d1[3] = {0xFE, 0x11, 0x01}, d2[3] = {0xFD, 0x11, 0x02};
	uint8_t a[4] = {1, 0, 0, 0};
	bidib_buffer_message_with_data(a, ZERO_RESP_TYPE, 3, d1, 0); bidib_buffer_message_with_data(a, ZERO_RESP_TYPE, 3, d2, 0); return NULL; }
static void *s_t2(void *p) { (void) p; bidib_send_sys_ping(NA_A, 0x21, 0); bidib_send_sys_ping(NA_B, 0x22, 0); return NULL; }
static void *s_t3(void *p) { (void) p; bidib_flush(); return NULL; }
void *bidib_auto_flush(void *);
static void sched_child(const void *job, size_t n) {
	vs_dev_t devs[VS_MAXDEV]; int nd; size_t pl; const uint8_t *p = job_parse(job, n, devs, &nd, &pl);
	int variant = p[0];
	hx_child_begin(devs, nd, 1, bidib_auto_flush, variant == 1 ? 2 : 0, 0);
	if (hx_start_debug(variant == 1 ? 5 : 0)) res_infra("start failed");
	bidib_set_lowlevel_debug_mode(false);
	hx_quiesce();
	if (variant == 2) {   /* capacity change processed by the receiver concurrently */
		uint8_t cap = 200, m[16], f[40]; int ml = rc_build_msg(m, IFACE, 0, MSG_PKT_CAPACITY, &cap, 1);
		env_push_quiet(f, rc_frame(f, m, (size_t) ml, 1));
	}
	env_write_yields = 1;       /* a write callback that blocks: the calling thread can be descheduled inside it */
	vs_window(1);
	int t1 = vs_spawn(s_t1, NULL), t2 = vs_spawn(s_t2, NULL), t3 = vs_spawn(s_t3, NULL);
	vs_join_tid(t1); vs_join_tid(t2); vs_join_tid(t3);
	vs_window(0);
	hx_quiesce(); bidib_flush();
	static rc_pkt_t pk[32]; char err[200];
	int np = rc_decode_strict(env_out(), env_out_len(), pk, 32, err, sizeof err);
	hx_hash_t h; hx_hash_init(&h);
	if (np < 0) res_violation("wire-malformed: downlink bytes are not a sequence of well-formed packets", "%s; bytes=%s", err, hx_hex(env_out(), env_out_len() > 300 ? 300 : env_out_len()));
	else {
		int seen[4] = {0, 0, 0, 0}; int other = 0;
		for (int i = 0; i < np; i++) {
			int cum = 0;
			for (int j = 0; j < pk[i].nmsgs; j++) {
				rc_msg_t *m = &pk[i].msgs[j]; cum += m->rawlen;
				int tag = m->dlen ? m->data[m->dlen - 1] : 0;
				if (m->type == ZERO_RESP_TYPE && m->dlen == 3 && tag == 1 && m->data[0] == 0xFE) seen[0]++;
				else if (m->type == ZERO_RESP_TYPE && m->dlen == 3 && tag == 2 && m->data[0] == 0xFD) seen[1]++;
				else if (m->type == MSG_SYS_PING && tag == 0x21 && m->addr[0] == 1) seen[2]++;
				else if (m->type == MSG_SYS_PING && tag == 0x22 && m->addr[0] == 2) seen[3]++;
				else other++;
				hx_hash_add(&h, m->raw, (size_t) m->rawlen);
			}
			hx_hash_add(&h, "|", 1);
			if (pk[i].nmsgs > 1 && cum > (variant == 2 ? 200 : 64))
				res_violation("capacity-exceeded: a packet with several messages exceeds the capacity in force when it was filled", "packet %d holds %d bytes", i, cum);
		}
		if (other || seen[0] != 1 || seen[1] != 1 || seen[2] != 1 || seen[3] != 1)
			res_violation("not-exactly-once: a sent message is torn, duplicated or missing on the wire", "occurrences=%d,%d,%d,%d unexpected=%d", seen[0], seen[1], seen[2], seen[3], other);
	}
	hx_emit_ledger_violations("C01");
	res_printf("O %llx %llx\n", (unsigned long long) h.a, (unsigned long long) h.b);
	hx_emit_trace();
	res_finish();
}

void c01_register(void) {
	harness_register("c01.bytes", bytes_child); harness_register("c01.batch", batch_child);
	harness_register("c01.stage", stage_child); harness_register("c01.shrink", shrink_child); harness_register("c01.sched", sched_child);
}
int c01_run(const char *tier) {
	int thorough = !strcmp(tier, "thorough"); batch_thorough = thorough;
	long execs = 0, states = 0, transitions = 0; int exhaustive = 1;
	{ const char *variant = getenv("VERIF_VARIANT"); if (variant && !strcmp(variant, "asan")) {      /* the ASan build runs the staging-buffer catalogue only */
		ex_spec_t c = { .harness = "c01.stage", .ncases = 112, .gen = stage_gen, .label = "c01.stage (AddressSanitizer build)" };
		ex_map(&c); rep_count("executions", c.done); rep_count("states", c.distinct_outcomes); rep_count("transitions", c.done * 250); rep_flag("exhaustive", c.exhaustive);
		rep_note("c01.stage under AddressSanitizer: %ld payload lengths x escape bytes, every chunk boundary of the staging buffer", c.done); return 0; } }
	/* (a) */
	ex_spec_t a = { .harness = "c01.bytes", .ncases = (bytes_total() + BYTES_BATCH - 1) / BYTES_BATCH, .gen = bytes_gen, .on_result = bytes_on_result, .label = "c01.bytes" };
	/* a failing batch is reported by the batch itself; additionally re-run the failing case alone for a minimal replay */
	ex_map(&a); execs += a.done; transitions += bytes_total(); states += a.distinct_outcomes; if (!a.exhaustive) exhaustive = 0;
	rep_count("single_message_cases", bytes_total());
	if (n_one) { ex_spec_t o = { .harness = "c01.bytes", .ncases = n_one, .gen = one_gen, .label = "c01.bytes" }; ex_map(&o); execs += o.done; }
	/* (b) */
	ex_spec_t b = { .harness = "c01.batch", .ncases = batch_count(), .gen = batch_gen, .label = "c01.batch" };
	ex_map(&b); execs += b.done; transitions += b.done * 256; states += b.distinct_outcomes; if (!b.exhaustive) exhaustive = 0;
	rep_count("capacity_history_cases", b.done * 256);
	/* (c) */
	ex_spec_t c = { .harness = "c01.stage", .ncases = 112, .gen = stage_gen, .label = "c01.stage" };
	ex_map(&c); execs += c.done; transitions += c.done * 180; states += c.distinct_outcomes; if (!c.exhaustive) exhaustive = 0;
	/* (d) the capacity shrinks while messages are batched */
	ex_spec_t sh = { .harness = "c01.shrink", .ncases = 32, .gen = shrink_gen, .label = "c01.shrink" };
	ex_map(&sh); execs += sh.done; transitions += rep_get("shrink_cases"); states += sh.distinct_outcomes; if (!sh.exhaustive) exhaustive = 0;
	rep_note("c01.shrink: %ld histories capacity A, two sends, smaller capacity B, third send", rep_get("shrink_cases"));
	/* E1 */
	static const char *vn[] = {"senders+flush", "senders+flush+autoflush(early wake budget 2)", "senders+flush+receiver capacity change"};
	for (int v6 = 0; v6 < 6; v6++) { int v = v6 % 3, up = v6 >= 3;      /* second round: a scheduling point after every unlock as well, one preemption less */
		uint8_t param[1] = {(uint8_t) v}; char label[128]; snprintf(label, sizeof label, "c01.sched %s%s", vn[v], up ? " (points after unlocks)" : "");
		e1_spec_t s = { .harness = "c01.sched", .param = param, .nparam = 1, .bound = (thorough ? 3 : 2) - up, .label = label, .unlock_points = up };
		e1_explore(&s);
		long ex = 0; for (int k = 0; k < 8; k++) ex += s.schedules_by_cost[k];
		execs += ex; states += s.distinct_outcomes; transitions += s.choice_points; if (!s.exhaustive) exhaustive = 0;
		rep_note("%s: bound=%d completed=%d schedules by cost=[%ld,%ld,%ld,%ld] distinct wire outcomes=%ld", label, s.bound, s.completed_bound,
		         s.schedules_by_cost[0], s.schedules_by_cost[1], s.schedules_by_cost[2], s.schedules_by_cost[3], s.distinct_outcomes);
	}
	rep_count("executions", execs); rep_count("states", states); rep_count("transitions", transitions); rep_flag("exhaustive", exhaustive);
	rep_note("catalogues: %ld single-message cases in %ld children; %ld capacity histories x 256 capacities; 112 staging-buffer sweeps", bytes_total(), a.done, b.done);
	return 0;
}
