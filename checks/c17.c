/* C17 — query results are initialised deep copies, safe to free for known/unknown ids; snapshot == single getters.
 *  c17.case : one child per (presence variant, state S0/S1/S2, phase, getter, argument[, poison byte])
 *    phase deep   (asan)  : result serialised, state changed (next message set), serialised again, bidib_stop(), serialised
 *                           again: three equal texts, no sanitizer event while reading the retained result; then freed once
 *    phase free   (asan)  : stack scribbled with 0x5A / 0xA5, getter called, documented free function called exactly once;
 *                           sanitizer events (bad-free, double-free, SEGV inside free) and leaks after the free are violations
 *    phase poison (plain) : poison differential.  The getter is called twice in the same quiescent state, heap (M_PERTURB)
 *                           and stack (64 KiB scribble) pre-filled with 0x5A, then 0xA5; the results are compared FIELD BY
 *                           FIELD (padding never looked at), including fields behind a false known/available flag.  A third
 *                           call (poison 0x33) is compared with the same call in a sibling process whose library was STARTED
 *                           under the opposite poison: a field that differs there was copied from library state that was
 *                           never initialised (class uninitialised-state).
 *    phase snap   (both)  : every entity and field of bidib_get_state() against the single-entity getters
 * Violations are written to the parent immediately (a crash in a later free must not lose them); fatal signals are
 * reported with the library call that was running. */
#include "../fw/explore.h"
#include "../fw/hx.h"
#include "../fw/simbus.h"
#include "../fw/cfgmodel.h"
#include "../fw/sanhooks.h"
#include "include/bidib.h"
#include <stdio.h>
#include <stdlib.h>
#include <string.h>
#include <stdarg.h>
#include <signal.h>
#include <unistd.h>
#include <malloc.h>
#include <sys/wait.h>

#define NOINLINE __attribute__((noinline))
enum { PH_DEEP, PH_FREE, PH_POISON, PH_SNAP, PH_N };
static const char *PHNAME[PH_N] = {"deep-copy", "free-safety", "poison-differential", "snapshot-vs-getters"};

/* ------------------------------------------------------------------------------------------------ catalogue */
enum { K_VOID, K_BOARD, K_POINT, K_SIGNAL, K_PERIPH, K_SEG, K_REV, K_TRAIN, K_BOOSTER, K_TOUT, K_TRAINPER, K_UID, K_NADDR, K_DCC };
typedef enum { R_TRACK, R_UACC, R_PER, R_SEG, R_REV, R_UID, R_NADDR, R_IDQ, R_IDLIST, R_BOOL, R_SIZE, R_FEAT, R_BOOSTER, R_TOUT,
               R_DCC, R_TRAIN, R_TPER, R_TPOS, R_TSTEP, R_TKMH } rkind_t;
typedef struct { const char *name; int akind; rkind_t rkind; void *fn; } getter_t;
#define G(f, a, r) { #f, a, r, (void *) f }
static const getter_t GT[] = {
	G(bidib_get_state, K_VOID, R_TRACK),
	G(bidib_get_point_state_index, K_POINT, R_SIZE), G(bidib_get_signal_state_index, K_SIGNAL, R_SIZE), G(bidib_get_segment_state_index, K_SEG, R_SIZE),
	G(bidib_get_point_state, K_POINT, R_UACC), G(bidib_get_signal_state, K_SIGNAL, R_UACC),
	G(bidib_get_peripheral_state, K_PERIPH, R_PER), G(bidib_get_segment_state, K_SEG, R_SEG), G(bidib_get_reverser_state, K_REV, R_REV),
	G(bidib_get_uniqueid, K_BOARD, R_UID), G(bidib_get_uniqueid_by_nodeaddr, K_NADDR, R_UID),
	G(bidib_get_nodeaddr, K_BOARD, R_NADDR), G(bidib_get_nodeaddr_by_uniqueid, K_UID, R_NADDR), G(bidib_get_board_id, K_UID, R_IDQ),
	G(bidib_get_boards, K_VOID, R_IDLIST), G(bidib_get_boards_connected, K_VOID, R_IDLIST), G(bidib_get_board_connected, K_BOARD, R_BOOL),
	G(bidib_get_board_features, K_BOARD, R_FEAT),
	G(bidib_get_board_points, K_BOARD, R_IDLIST), G(bidib_get_board_signals, K_BOARD, R_IDLIST), G(bidib_get_board_peripherals, K_BOARD, R_IDLIST),
	G(bidib_get_board_segments, K_BOARD, R_IDLIST), G(bidib_get_board_reversers, K_BOARD, R_IDLIST),
	G(bidib_get_connected_points, K_VOID, R_IDLIST), G(bidib_get_connected_signals, K_VOID, R_IDLIST), G(bidib_get_connected_peripherals, K_VOID, R_IDLIST),
	G(bidib_get_connected_segments, K_VOID, R_IDLIST), G(bidib_get_connected_reversers, K_VOID, R_IDLIST), G(bidib_get_connected_boosters, K_VOID, R_IDLIST),
	G(bidib_get_boosters, K_VOID, R_IDLIST), G(bidib_get_track_outputs, K_VOID, R_IDLIST), G(bidib_get_connected_track_outputs, K_VOID, R_IDLIST),
	G(bidib_get_booster_state, K_BOOSTER, R_BOOSTER), G(bidib_get_track_output_state, K_TOUT, R_TOUT),
	G(bidib_get_trains, K_VOID, R_IDLIST), G(bidib_get_trains_on_track, K_VOID, R_IDLIST), G(bidib_get_train_peripherals, K_TRAIN, R_IDLIST),
	G(bidib_get_train_id, K_DCC, R_IDQ), G(bidib_get_train_dcc_addr, K_TRAIN, R_DCC), G(bidib_get_train_state, K_TRAIN, R_TRAIN),
	G(bidib_get_train_peripheral_state, K_TRAINPER, R_TPER), G(bidib_get_train_position, K_TRAIN, R_TPOS),
	G(bidib_get_train_speed_step, K_TRAIN, R_TSTEP), G(bidib_get_train_speed_kmh, K_TRAIN, R_TKMH), G(bidib_get_train_on_track, K_TRAIN, R_BOOL),
	G(bidib_get_point_aspects, K_POINT, R_IDLIST), G(bidib_get_signal_aspects, K_SIGNAL, R_IDLIST), G(bidib_get_peripheral_aspects, K_PERIPH, R_IDLIST),
};
#define NGT ((int) (sizeof GT / sizeof GT[0]))

typedef struct { const char *cls; const char *s1, *s2; t_bidib_unique_id_mod uid; t_bidib_node_address na; t_bidib_dcc_address dcc; char label[80]; } arg_t;
#define MAXARGS 24
static void arg_s(arg_t *a, int *n, const char *cls, const char *s1, const char *s2) {
	arg_t *x = &a[(*n)++]; memset(x, 0, sizeof *x); x->cls = cls; x->s1 = s1; x->s2 = s2;
	if (s2 || !s1) snprintf(x->label, sizeof x->label, "%s,%s", s1 ? s1 : "NULL", s2 ? s2 : "NULL"); else snprintf(x->label, sizeof x->label, "\"%s\"", s1);
	if (!s2 && !s1) snprintf(x->label, sizeof x->label, "NULL");
}
static int build_args(const getter_t *g, arg_t *a) {
	int n = 0;
	static const char *KNOWN[][5] = {
		/* K_VOID */ {NULL}, /* K_BOARD */ {"master", "oc1", "lc1", "booster2", NULL}, /* K_POINT */ {"pointd", "point1", "point2", NULL},
		/* K_SIGNAL */ {"signald", "signal1", NULL}, /* K_PERIPH */ {"led1", "led2", NULL}, /* K_SEG */ {"seg1", "seg2", "seg3", "seg4", NULL},
		/* K_REV */ {"rev1", NULL}, /* K_TRAIN */ {"train1", "train2", "train3", NULL}, /* K_BOOSTER */ {"master", "booster2", NULL}, /* K_TOUT */ {"master", "booster2", NULL} };
	static const char *WRONG[][3] = { {NULL}, {"seg1", "train1", NULL}, {"signal1", "signald", NULL}, {"point1", "pointd", NULL}, {"point1", "head_light", NULL},
		{"led1", "master", NULL}, {"seg1", NULL}, {"master", "head_light", NULL}, {"oc1", "train1", NULL}, {"oc1", "seg1", NULL} };
	switch (g->akind) {
	case K_VOID: { arg_t *x = &a[n++]; memset(x, 0, sizeof *x); x->cls = "none"; snprintf(x->label, sizeof x->label, "void"); break; }
	case K_TRAINPER:
		arg_s(a, &n, "known", "train1", "head_light"); arg_s(a, &n, "known", "train1", "cabin_light"); arg_s(a, &n, "known", "train1", "horn"); arg_s(a, &n, "known", "train2", "light");
		arg_s(a, &n, "wrong-kind", "train2", "horn"); arg_s(a, &n, "wrong-kind", "master", "head_light"); arg_s(a, &n, "unknown", "train1", "nosuch"); arg_s(a, &n, "unknown", "nosuch", "head_light");
		arg_s(a, &n, "unknown", "train1", ""); arg_s(a, &n, "null", "train1", NULL); arg_s(a, &n, "null", NULL, "head_light"); arg_s(a, &n, "null", NULL, NULL);
		break;
	case K_UID: {
		cm_model_t m; cm_std(&m);
		for (int i = 0; i <= 6; i++) { arg_t *x = &a[n++]; memset(x, 0, sizeof *x); uint8_t u[7];
			if (i < 4) { memcpy(u, m.b[i].uid, 7); x->cls = "known"; } else if (i == 4) { memset(u, 0x11, 7); x->cls = "unknown"; } else if (i == 5) { memset(u, 0, 7); x->cls = "unknown"; } else { memset(u, 0xFF, 7); x->cls = "unknown"; }
			x->uid = (t_bidib_unique_id_mod) {u[0], u[1], u[2], u[3], u[4], u[5], u[6]};
			snprintf(x->label, sizeof x->label, "uid %02x%02x%02x%02x%02x%02x%02x", u[0], u[1], u[2], u[3], u[4], u[5], u[6]); }
		break; }
	case K_NADDR: {
		static const uint8_t NA[][3] = {{0, 0, 0}, {1, 0, 0}, {2, 0, 0}, {3, 0, 0}, {9, 0, 0}, {1, 1, 0}, {255, 255, 255}};
		for (int i = 0; i < 7; i++) { arg_t *x = &a[n++]; memset(x, 0, sizeof *x); x->cls = i < 4 ? "known" : "unknown"; x->na = (t_bidib_node_address) {NA[i][0], NA[i][1], NA[i][2]};
			snprintf(x->label, sizeof x->label, "node %u.%u.%u", NA[i][0], NA[i][1], NA[i][2]); }
		break; }
	case K_DCC: {
		static const uint8_t D[][3] = {{0x23, 0x01, 0}, {0x23, 0x01, 2}, {0x02, 0x03, 0}, {0x22, 0x11, 0}, {0x99, 0x09, 0}, {0, 0, 0}};
		static const char *C[] = {"known", "known", "known", "wrong-kind", "unknown", "unknown"};
		for (int i = 0; i < 6; i++) { arg_t *x = &a[n++]; memset(x, 0, sizeof *x); x->cls = C[i]; x->dcc = (t_bidib_dcc_address) {D[i][0], D[i][1], D[i][2]};
			snprintf(x->label, sizeof x->label, "dcc %02x%02x type %u", D[i][1], D[i][0], D[i][2]); }
		break; }
	default:
		for (int i = 0; KNOWN[g->akind][i]; i++) arg_s(a, &n, "known", KNOWN[g->akind][i], NULL);
		for (int i = 0; WRONG[g->akind][i]; i++) arg_s(a, &n, "wrong-kind", WRONG[g->akind][i], NULL);
		arg_s(a, &n, "unknown", "nosuch", NULL); arg_s(a, &n, "unknown", "", NULL); arg_s(a, &n, "null", NULL, NULL);
	}
	return n;
}

typedef struct { union {
	t_bidib_track_state track; t_bidib_unified_accessory_state_query uacc; t_bidib_peripheral_state_query per; t_bidib_segment_state_query seg;
	t_bidib_reverser_state_query rev; t_bidib_unique_id_query uid; t_bidib_node_address_query naddr; t_bidib_id_query idq; t_bidib_id_list_query idl;
	bool b; size_t sz; t_bidib_board_features_query feat; t_bidib_booster_state_query boo; t_bidib_track_output_state_query tout;
	t_bidib_dcc_address_query dcc; t_bidib_train_state_query train; t_bidib_train_peripheral_state_query tper; t_bidib_train_position_query tpos;
	t_bidib_train_speed_step_query tstep; t_bidib_train_speed_kmh_query tkmh; } u; } res_t;

/* ------------------------------------------------------------------------------------------------ context, violations, crashes */
static struct { const getter_t *g; const arg_t *a; int state, phase, byte; const char *op; int sibling; } CX;
static const char *SNAME[] = {"S0(after start-up)", "S1(first feedback set)", "S2(second feedback set)"};
static char *seen_cls[256]; static int nseen; static long nviol_local;
static void viol(const char *cls, const char *fmt, ...) {
	if (CX.sibling) return;
	nviol_local++;
	for (int i = 0; i < nseen; i++) if (!strcmp(seen_cls[i], cls)) return;
	if (nseen < 256) seen_cls[nseen++] = strdup(cls);
	char det[3000]; va_list ap; va_start(ap, fmt); vsnprintf(det, sizeof det, fmt, ap); va_end(ap);
	for (char *p = det; *p; p++) if (*p == '\n' || *p == '\t') *p = ' ';
	char line[3600]; snprintf(line, sizeof line, "V %s\t%s [%s, %s, arg %s]\n", cls, det, SNAME[CX.state], CX.g ? CX.g->name : "-", CX.a ? CX.a->label : "-");
	res_emit_now(line);
}
static void crash_line(const char *kind, const char *stack) {
	char line[1600];
	snprintf(line, sizeof line, "V crash in=%s getter=%s arg=%s\tfatal %s while running %s%s [%s, arg %s, phase %s, poison byte %02x]%s%s\n", CX.op ? CX.op : "?", CX.g ? CX.g->name : "-",
	         CX.a ? CX.a->cls : "-", kind, CX.op ? CX.op : "?", CX.g && CX.op && strcmp(CX.op, CX.g->name) ? " on the result of the getter" : "", SNAME[CX.state], CX.a ? CX.a->label : "-", PHNAME[CX.phase], CX.byte,
	         stack ? "; stack: " : "", stack ? stack : "");
	res_emit_now(line);
}
static void on_signal(int sig) {
	if (CX.sibling) _exit(3);
	char k[32]; snprintf(k, sizeof k, "signal-%d", sig); crash_line(k, NULL);
	signal(sig, SIG_DFL); raise(sig); _exit(3);
}
static void on_san_fatal(const san_event_t *e) {
	char stack[500]; size_t so = 0; stack[0] = 0;
	for (int i = 0; i < e->npcs; i++) { const char *s = hx_sym(e->pcs[i] - (i ? 1 : 0)); if (so + 60 < sizeof stack) so += (size_t) snprintf(stack + so, sizeof stack - so, "%s ", s); }
	crash_line(e->kind, stack);
}
static int san_mark;
/* sanitizer events since the last call -> violations of class "<what> getter= arg= kind= [fn=]" */
static int drain_san(const char *what, const char *when) {
	int n = 0;
	for (; san_mark < san_nevents(); san_mark++, n++) {
		const san_event_t *e = san_event(san_mark);
		const char *fn = NULL; char stack[500]; size_t so = 0; stack[0] = 0;
		for (int i = 0; i < e->npcs; i++) { const char *s = hx_sym(e->pcs[i] - (i ? 1 : 0)); if (so + 60 < sizeof stack) so += (size_t) snprintf(stack + so, sizeof stack - so, "%s ", s); if (!fn && !strncmp(s, "bidib_", 6)) fn = s; }
		char cls[300]; int isfree = !strncmp(when, "free=", 5);
		snprintf(cls, sizeof cls, "%s getter=%s arg=%s %s%s kind=%s%s%s", what, CX.g ? CX.g->name : "-", CX.a ? CX.a->cls : "-", isfree ? "" : "when=", when, e->kind, fn && !isfree ? " fn=" : "", fn && !isfree ? fn : "");
		viol(cls, "AddressSanitizer: %s (%s of %d bytes); stack: %s", e->kind, e->is_write ? "write" : "read", e->size, stack);
	}
	return n;
}

static NOINLINE void scribble(int byte) { volatile char a[65536]; memset((void *) a, byte, sizeof a); __asm__ volatile("" : : "r"(a) : "memory"); }

/* the call itself: lives in its own frame, which lies inside the region scribble() has just filled */
#define CS(T, f) out->u.f = ((T (*)(const char *)) g->fn)(a->s1)
#define CV(T, f) out->u.f = ((T (*)(void)) g->fn)()
static NOINLINE void do_call(const getter_t *g, const arg_t *a, res_t *out) {
	switch (g->rkind) {
	case R_TRACK: CV(t_bidib_track_state, track); break;
	case R_UACC: CS(t_bidib_unified_accessory_state_query, uacc); break;
	case R_PER: CS(t_bidib_peripheral_state_query, per); break;
	case R_SEG: CS(t_bidib_segment_state_query, seg); break;
	case R_REV: CS(t_bidib_reverser_state_query, rev); break;
	case R_UID: if (g->akind == K_NADDR) out->u.uid = ((t_bidib_unique_id_query (*)(t_bidib_node_address)) g->fn)(a->na); else CS(t_bidib_unique_id_query, uid); break;
	case R_NADDR: if (g->akind == K_UID) out->u.naddr = ((t_bidib_node_address_query (*)(t_bidib_unique_id_mod)) g->fn)(a->uid); else CS(t_bidib_node_address_query, naddr); break;
	case R_IDQ: if (g->akind == K_UID) out->u.idq = ((t_bidib_id_query (*)(t_bidib_unique_id_mod)) g->fn)(a->uid); else out->u.idq = ((t_bidib_id_query (*)(t_bidib_dcc_address)) g->fn)(a->dcc); break;
	case R_IDLIST: if (g->akind == K_VOID) CV(t_bidib_id_list_query, idl); else CS(t_bidib_id_list_query, idl); break;
	case R_BOOL: CS(bool, b); break;
	case R_SIZE: CS(size_t, sz); break;
	case R_FEAT: CS(t_bidib_board_features_query, feat); break;
	case R_BOOSTER: CS(t_bidib_booster_state_query, boo); break;
	case R_TOUT: CS(t_bidib_track_output_state_query, tout); break;
	case R_DCC: CS(t_bidib_dcc_address_query, dcc); break;
	case R_TRAIN: CS(t_bidib_train_state_query, train); break;
	case R_TPER: out->u.tper = ((t_bidib_train_peripheral_state_query (*)(const char *, const char *)) g->fn)(a->s1, a->s2); break;
	case R_TPOS: CS(t_bidib_train_position_query, tpos); break;
	case R_TSTEP: CS(t_bidib_train_speed_step_query, tstep); break;
	case R_TKMH: CS(t_bidib_train_speed_kmh_query, tkmh); break;
	}
}
static const char *free_name(rkind_t k) {
	switch (k) { case R_TRACK: return "bidib_free_track_state"; case R_UACC: return "bidib_free_unified_accessory_state_query"; case R_PER: return "bidib_free_peripheral_state_query";
	case R_SEG: return "bidib_free_segment_state_query"; case R_REV: return "bidib_free_reverser_state_query"; case R_IDQ: return "bidib_free_id_query"; case R_IDLIST: return "bidib_free_id_list_query";
	case R_FEAT: return "bidib_free_board_features_query"; case R_TRAIN: return "bidib_free_train_state_query"; case R_TPOS: return "bidib_free_train_position_query"; default: return NULL; }
}
static long n_calls, n_frees;
static void free_res(const getter_t *g, res_t *r) {
	const char *fn = free_name(g->rkind); if (!fn) return;
	CX.op = fn; n_frees++;
	switch (g->rkind) {
	case R_TRACK: bidib_free_track_state(r->u.track); break; case R_UACC: bidib_free_unified_accessory_state_query(r->u.uacc); break;
	case R_PER: bidib_free_peripheral_state_query(r->u.per); break; case R_SEG: bidib_free_segment_state_query(r->u.seg); break;
	case R_REV: bidib_free_reverser_state_query(r->u.rev); break; case R_IDQ: bidib_free_id_query(r->u.idq); break;
	case R_IDLIST: bidib_free_id_list_query(r->u.idl); break; case R_FEAT: bidib_free_board_features_query(r->u.feat); break;
	case R_TRAIN: bidib_free_train_state_query(r->u.train); break; case R_TPOS: bidib_free_train_position_query(r->u.tpos); break; default: break;
	}
	CX.op = "harness";
}
/* poisoned call: heap perturbation (plain build), result slot and the stack below us pre-filled with the byte */
static void poisoned_call(const getter_t *g, const arg_t *a, res_t *out, int byte) {
#ifdef VARIANT_PLAIN
	mallopt(M_PERTURB, byte);
#endif
	memset(out, byte, sizeof *out);
	CX.op = g->name; CX.byte = byte; n_calls++;
	scribble(byte);
	do_call(g, a, out);
	CX.op = "harness";
}

/* ------------------------------------------------------------------------------------------------ field-wise serialisation */
#define MAXF 700
typedef struct { char name[72]; char val[120]; uint8_t behind; char flag[28]; } fld_t;   /* behind: 0 no, 1 behind a false flag, 2 header documents "only meaningful if" */
typedef struct { int n; int overflow; fld_t f[MAXF]; } flds_t;
static void fadd(flds_t *F, int behind, const char *flag, const char *pfx, const char *name, const char *fmt, ...) {
	if (F->n >= MAXF) { F->overflow = 1; return; }
	fld_t *f = &F->f[F->n++]; snprintf(f->name, sizeof f->name, "%s%s", pfx, name); f->behind = (uint8_t) behind; snprintf(f->flag, sizeof f->flag, "%s", flag ? flag : "");
	va_list ap; va_start(ap, fmt); vsnprintf(f->val, sizeof f->val, fmt, ap); va_end(ap);
}
#define U8(x) ((unsigned) *(const uint8_t *) &(x))         /* bools and bytes are read as bytes: a garbage bool must not be normalised */
static const char *pcls(const void *p) {
	static char b[4][40]; static int k; char *s = b[k++ & 3];
	if (!p) return "NULL";
	uintptr_t v = (uintptr_t) p; uint8_t y = (uint8_t) v; int same = 1; for (int i = 1; i < 8; i++) if (((v >> (8 * i)) & 0xFF) != y) same = 0;
	if (same) { snprintf(s, 40, "garbage(%02x x8)", y); return s; }
	if (v < 4096 || (v >> 47)) { snprintf(s, 40, "garbage(%p)", p); return s; }
	return "non-NULL";
}
/* string owned by the result; behind != 0: never dereferenced, only classified */
static void fstr(flds_t *F, int behind, const char *flag, const char *pfx, const char *name, const char *s) {
	if (behind) fadd(F, behind, flag, pfx, name, "ptr:%s", pcls(s));
	else if (!s) fadd(F, 0, NULL, pfx, name, "(null)");
	else fadd(F, 0, NULL, pfx, name, "\"%.100s\"", s);
}
static void ser_pc(flds_t *F, int bh, const char *flag, const char *pfx, const t_bidib_power_consumption *p) {
	fadd(F, bh, flag, pfx, "power_consumption.known", "%u", U8(p->known)); fadd(F, bh, flag, pfx, "power_consumption.overcurrent", "%u", U8(p->overcurrent));
	int doc = !bh && (!p->known || p->overcurrent);
	fadd(F, doc ? 2 : bh, doc ? "power_consumption.known&&!overcurrent" : flag, pfx, "power_consumption.current", "%u", p->current);
}
static void ser_bacc(flds_t *F, int bh, const char *flag, const char *pfx, const t_bidib_board_accessory_state_data *d) {
	fstr(F, bh, flag, pfx, "state_id", d->state_id); fadd(F, bh, flag, pfx, "state_value", "%u", d->state_value);
	fadd(F, bh, flag, pfx, "execution_state", "%d", (int) d->execution_state); fadd(F, bh, flag, pfx, "wait_details", "%u", d->wait_details);
}
static void ser_dacc(flds_t *F, int bh, const char *flag, const char *pfx, const t_bidib_dcc_accessory_state_data *d, int with_common) {
	if (with_common) { fstr(F, bh, flag, pfx, "state_id", d->state_id); fadd(F, bh, flag, pfx, "state_value", "%u", d->state_value); }
	fadd(F, bh, flag, pfx, "coil_on", "%u", U8(d->coil_on)); fadd(F, bh, flag, pfx, "output_controls_timing", "%u", U8(d->output_controls_timing));
	fadd(F, bh, flag, pfx, "ack", "%d", (int) d->ack); fadd(F, bh, flag, pfx, "time_unit", "%d", (int) d->time_unit); fadd(F, bh, flag, pfx, "switch_time", "%u", d->switch_time);
}
static void ser_perd(flds_t *F, int bh, const char *flag, const char *pfx, const t_bidib_peripheral_state_data *d) {
	fstr(F, bh, flag, pfx, "state_id", d->state_id); fadd(F, bh, flag, pfx, "state_value", "%u", d->state_value);
	fadd(F, bh, flag, pfx, "time_unit", "%d", (int) d->time_unit); fadd(F, bh, flag, pfx, "wait", "%u", d->wait);
}
static void ser_segd(flds_t *F, int bh, const char *flag, const char *pfx, const t_bidib_segment_state_data *d) {
	fadd(F, bh, flag, pfx, "occupied", "%u", U8(d->occupied)); fadd(F, bh, flag, pfx, "confidence.conf_void", "%u", U8(d->confidence.conf_void));
	fadd(F, bh, flag, pfx, "confidence.freeze", "%u", U8(d->confidence.freeze)); fadd(F, bh, flag, pfx, "confidence.nosignal", "%u", U8(d->confidence.nosignal));
	ser_pc(F, bh, flag, pfx, &d->power_consumption);
	fadd(F, bh, flag, pfx, "dcc_address_cnt", "%zu", d->dcc_address_cnt);
	if (bh) { fadd(F, 0, NULL, pfx, "dcc_addresses", "ptr:%s", pcls(d->dcc_addresses)); return; }    /* the free function frees it whatever the flag says: always meaningful */
	if (!d->dcc_addresses) { if (d->dcc_address_cnt) fadd(F, 0, NULL, pfx, "dcc_addresses", "(null)"); return; }      /* NULL with count 0 is an empty list like any other */
	for (size_t k = 0; k < d->dcc_address_cnt && k < 16; k++) { char nm[48]; snprintf(nm, sizeof nm, "dcc_addresses[%zu]", k);
		fadd(F, 0, NULL, pfx, nm, "%02x%02x/type%u", d->dcc_addresses[k].addrh, d->dcc_addresses[k].addrl, d->dcc_addresses[k].type); }
}
static void ser_revd(flds_t *F, int bh, const char *flag, const char *pfx, const t_bidib_reverser_state_data *d) {
	fstr(F, bh, flag, pfx, "state_id", d->state_id); fadd(F, bh, flag, pfx, "state_value", "%d", (int) d->state_value);
}
static void ser_dec(flds_t *F, int bh, const char *flag, const char *pfx, const t_bidib_train_decoder_state *d) {
#define DEC(k, v, fmt) fadd(F, bh, flag, pfx, "decoder_state." #k, "%u", U8(d->k)); fadd(F, bh ? bh : !d->k, bh ? flag : #k, pfx, "decoder_state." #v, fmt, d->v)
	DEC(signal_quality_known, signal_quality, "%u"); DEC(temp_known, temp_celsius, "%d"); DEC(energy_storage_known, energy_storage, "%u");
	DEC(container2_storage_known, container2_storage, "%u"); DEC(container3_storage_known, container3_storage, "%u");
}
static void ser_traind(flds_t *F, int bh, const char *flag, const char *pfx, const t_bidib_train_state_data *d) {
	fadd(F, bh, flag, pfx, "on_track", "%u", U8(d->on_track)); fadd(F, bh, flag, pfx, "orientation", "%d", (int) d->orientation);
	fadd(F, bh, flag, pfx, "set_speed_step", "%d", d->set_speed_step); fadd(F, bh, flag, pfx, "set_is_forwards", "%u", U8(d->set_is_forwards));
	fadd(F, bh, flag, pfx, "ack", "%d", (int) d->ack); fadd(F, bh, flag, pfx, "detected_kmh_speed", "%d", d->detected_kmh_speed);
	fadd(F, bh, flag, pfx, "peripheral_cnt", "%zu", d->peripheral_cnt);
	if (bh) fadd(F, 0, NULL, pfx, "peripherals", "ptr:%s", pcls(d->peripherals));                      /* consumed by the free function */
	else if (!d->peripherals) { if (d->peripheral_cnt) fadd(F, 0, NULL, pfx, "peripherals", "(null)"); }
	else for (size_t k = 0; k < d->peripheral_cnt && k < 16; k++) { char nm[48]; snprintf(nm, sizeof nm, "peripherals[%zu]", k);
		fadd(F, 0, NULL, pfx, nm, "%.40s=%u", d->peripherals[k].id ? d->peripherals[k].id : "(null)", d->peripherals[k].state); }
	ser_dec(F, bh, flag, pfx, &d->decoder_state);
}
static void ser_boosterd(flds_t *F, int bh, const char *flag, const char *pfx, const t_bidib_booster_state_data *d) {
	fadd(F, bh, flag, pfx, "power_state", "%d", (int) d->power_state); fadd(F, bh, flag, pfx, "power_state_simple", "%d", (int) d->power_state_simple);
	ser_pc(F, bh, flag, pfx, &d->power_consumption);
	fadd(F, bh, flag, pfx, "voltage_known", "%u", U8(d->voltage_known)); fadd(F, bh ? bh : !d->voltage_known, bh ? flag : "voltage_known", pfx, "voltage", "%u", d->voltage);
	fadd(F, bh, flag, pfx, "temp_known", "%u", U8(d->temp_known)); fadd(F, bh ? bh : !d->temp_known, bh ? flag : "temp_known", pfx, "temp_celsius", "%d", d->temp_celsius);
}
static void ser_idlist(flds_t *F, const char *pfx, size_t length, char **ids, const char *arr) {
	fadd(F, 0, NULL, pfx, "length", "%zu", length);
	if (length == 0 || !ids) { fadd(F, 0, NULL, pfx, arr, "ptr:%s", pcls(ids)); return; }              /* consumed by the free function */
	for (size_t k = 0; k < length && k < 40; k++) { char nm[48]; snprintf(nm, sizeof nm, "%s[%zu]", arr, k); fstr(F, 0, NULL, pfx, nm, ids[k]); }
}
static void ser(const getter_t *g, const res_t *r, flds_t *F) {
	F->n = 0; F->overflow = 0; char p[64];
	switch (g->rkind) {
	case R_TRACK: { const t_bidib_track_state *s = &r->u.track;
#define ARR(cnt, arr, body) fadd(F, 0, NULL, "", #cnt, "%zu", s->cnt); if (s->cnt && !s->arr) fadd(F, 0, NULL, "", #arr, "(null)"); else for (size_t i = 0; i < s->cnt && i < 16; i++) { snprintf(p, sizeof p, #arr "[%zu].", i); fstr(F, 0, NULL, p, "id", s->arr[i].id); body; }
		ARR(points_board_count, points_board, (snprintf(p, sizeof p, "points_board[%zu].data.", i), ser_bacc(F, 0, NULL, p, &s->points_board[i].data)));
		ARR(points_dcc_count, points_dcc, (snprintf(p, sizeof p, "points_dcc[%zu].data.", i), ser_dacc(F, 0, NULL, p, &s->points_dcc[i].data, 1)));
		ARR(signals_board_count, signals_board, (snprintf(p, sizeof p, "signals_board[%zu].data.", i), ser_bacc(F, 0, NULL, p, &s->signals_board[i].data)));
		ARR(signals_dcc_count, signals_dcc, (snprintf(p, sizeof p, "signals_dcc[%zu].data.", i), ser_dacc(F, 0, NULL, p, &s->signals_dcc[i].data, 1)));
		ARR(peripherals_count, peripherals, (snprintf(p, sizeof p, "peripherals[%zu].data.", i), ser_perd(F, 0, NULL, p, &s->peripherals[i].data)));
		ARR(segments_count, segments, (snprintf(p, sizeof p, "segments[%zu].data.", i), ser_segd(F, 0, NULL, p, &s->segments[i].data)));
		ARR(reversers_count, reversers, (snprintf(p, sizeof p, "reversers[%zu].data.", i), ser_revd(F, 0, NULL, p, &s->reversers[i].data)));
		ARR(trains_count, trains, (snprintf(p, sizeof p, "trains[%zu].data.", i), ser_traind(F, 0, NULL, p, &s->trains[i].data)));
		ARR(booster_count, booster, (snprintf(p, sizeof p, "booster[%zu].data.", i), ser_boosterd(F, 0, NULL, p, &s->booster[i].data)));
		ARR(track_outputs_count, track_outputs, fadd(F, 0, NULL, p, "cs_state", "%d", (int) s->track_outputs[i].cs_state));
		break; }
	case R_UACC: { const t_bidib_unified_accessory_state_query *q = &r->u.uacc; int bh = !q->known;
		fadd(F, 0, NULL, "", "known", "%u", U8(q->known));
		fadd(F, 0, NULL, "", "type", "%d", (int) q->type);                                                   /* read by the free function whatever 'known' says */
		if (bh) { fadd(F, 0, NULL, "", "state_id", "ptr:%s", pcls(q->board_accessory_state.state_id));       /* freed by the free function whatever 'known' says */
			fadd(F, 1, "known", "", "board_accessory_state.state_value", "%u", q->board_accessory_state.state_value);
			fadd(F, 1, "known", "", "board_accessory_state.execution_state", "%d", (int) q->board_accessory_state.execution_state);
			fadd(F, 1, "known", "", "board_accessory_state.wait_details", "%u", q->board_accessory_state.wait_details);
			ser_dacc(F, 1, "known", "dcc_accessory_state.", &q->dcc_accessory_state, 0); }
		else if (q->type == BIDIB_ACCESSORY_BOARD) ser_bacc(F, 0, NULL, "board_accessory_state.", &q->board_accessory_state);
		else ser_dacc(F, 0, NULL, "dcc_accessory_state.", &q->dcc_accessory_state, 1);
		break; }
	case R_PER: { int bh = !r->u.per.available; fadd(F, 0, NULL, "", "available", "%u", U8(r->u.per.available));
		if (bh) { fadd(F, 0, NULL, "", "data.state_id", "ptr:%s", pcls(r->u.per.data.state_id));              /* freed whatever the flag says */
			fadd(F, 1, "available", "", "data.state_value", "%u", r->u.per.data.state_value); fadd(F, 1, "available", "", "data.time_unit", "%d", (int) r->u.per.data.time_unit); fadd(F, 1, "available", "", "data.wait", "%u", r->u.per.data.wait); }
		else ser_perd(F, 0, NULL, "data.", &r->u.per.data);
		break; }
	case R_SEG: fadd(F, 0, NULL, "", "known", "%u", U8(r->u.seg.known)); ser_segd(F, !r->u.seg.known, "known", "data.", &r->u.seg.data); break;
	case R_REV: { int bh = !r->u.rev.available; fadd(F, 0, NULL, "", "available", "%u", U8(r->u.rev.available));
		if (bh) { fadd(F, 0, NULL, "", "data.state_id", "ptr:%s", pcls(r->u.rev.data.state_id)); fadd(F, 1, "available", "", "data.state_value", "%d", (int) r->u.rev.data.state_value); }
		else ser_revd(F, 0, NULL, "data.", &r->u.rev.data);
		break; }
	case R_UID: { const t_bidib_unique_id_query *q = &r->u.uid; int bh = !q->known; fadd(F, 0, NULL, "", "known", "%u", U8(q->known));
		fadd(F, bh, "known", "", "unique_id", "%02x%02x%02x%02x%02x%02x%02x", q->unique_id.class_id, q->unique_id.class_id_ext, q->unique_id.vendor_id, q->unique_id.product_id1, q->unique_id.product_id2, q->unique_id.product_id3, q->unique_id.product_id4);
		break; }
	case R_NADDR: { const t_bidib_node_address_query *q = &r->u.naddr; int bh = !q->known_and_connected; fadd(F, 0, NULL, "", "known_and_connected", "%u", U8(q->known_and_connected));
		fadd(F, bh, "known_and_connected", "", "address", "%u.%u.%u", q->address.top, q->address.sub, q->address.subsub); break; }
	case R_IDQ: fadd(F, 0, NULL, "", "known", "%u", U8(r->u.idq.known));
		if (r->u.idq.known) fstr(F, 0, NULL, "", "id", r->u.idq.id); else fadd(F, 0, NULL, "", "id", "ptr:%s", pcls(r->u.idq.id));   /* freed whatever the flag says */
		break;
	case R_IDLIST: ser_idlist(F, "", r->u.idl.length, r->u.idl.ids, "ids"); break;
	case R_BOOL: fadd(F, 0, NULL, "", "value", "%u", U8(r->u.b)); break;
	case R_SIZE: fadd(F, 0, NULL, "", "value", "%zd", (ssize_t) r->u.sz); break;
	case R_FEAT: fadd(F, 0, NULL, "", "length", "%zu", r->u.feat.length);
		if (r->u.feat.length == 0 || !r->u.feat.features) fadd(F, 0, NULL, "", "features", "ptr:%s", pcls(r->u.feat.features));
		else for (size_t k = 0; k < r->u.feat.length && k < 16; k++) { char nm[32]; snprintf(nm, sizeof nm, "features[%zu]", k); fadd(F, 0, NULL, "", nm, "%02x=%02x", r->u.feat.features[k].number, r->u.feat.features[k].value); }
		break;
	case R_BOOSTER: fadd(F, 0, NULL, "", "known", "%u", U8(r->u.boo.known)); ser_boosterd(F, !r->u.boo.known, "known", "data.", &r->u.boo.data); break;
	case R_TOUT: fadd(F, 0, NULL, "", "known", "%u", U8(r->u.tout.known)); fadd(F, !r->u.tout.known, "known", "", "cs_state", "%d", (int) r->u.tout.cs_state); break;
	case R_DCC: { int bh = !r->u.dcc.known; fadd(F, 0, NULL, "", "known", "%u", U8(r->u.dcc.known));
		fadd(F, bh, "known", "", "dcc_address.addrl", "%02x", r->u.dcc.dcc_address.addrl); fadd(F, bh, "known", "", "dcc_address.addrh", "%02x", r->u.dcc.dcc_address.addrh);
		fadd(F, bh, "known", "", "dcc_address.type", "%u", r->u.dcc.dcc_address.type); break; }
	case R_TRAIN: fadd(F, 0, NULL, "", "known", "%u", U8(r->u.train.known)); ser_traind(F, !r->u.train.known, "known", "data.", &r->u.train.data); break;
	case R_TPER: fadd(F, 0, NULL, "", "available", "%u", U8(r->u.tper.available)); fadd(F, !r->u.tper.available, "available", "", "state", "%u", r->u.tper.state); break;
	case R_TPOS: ser_idlist(F, "", r->u.tpos.length, r->u.tpos.segments, "segments"); fadd(F, r->u.tpos.length == 0, "length>0", "", "orientation_is_left", "%u", U8(r->u.tpos.orientation_is_left)); break;
	case R_TSTEP: { int bh = !r->u.tstep.known_and_avail; fadd(F, 0, NULL, "", "known_and_avail", "%u", U8(r->u.tstep.known_and_avail));
		fadd(F, bh, "known_and_avail", "", "speed_step", "%d", r->u.tstep.speed_step); fadd(F, bh, "known_and_avail", "", "is_forwards", "%u", U8(r->u.tstep.is_forwards)); break; }
	case R_TKMH: fadd(F, 0, NULL, "", "known_and_avail", "%u", U8(r->u.tkmh.known_and_avail)); fadd(F, !r->u.tkmh.known_and_avail, "known_and_avail", "", "speed_kmh", "%d", r->u.tkmh.speed_kmh); break;
	}
}
/* class-level field name: indices removed */
static const char *fclass(const char *name) {
	static char b[80]; size_t o = 0; int in = 0;
	for (const char *p = name; *p && o + 1 < sizeof b; p++) { if (*p == '[') { in = 1; b[o++] = '['; continue; } if (*p == ']') in = 0; if (!in) b[o++] = *p; }
	b[o] = 0; return b;
}
static const fld_t *ffind(const flds_t *F, const char *name, int hint) {
	if (hint < F->n && !strcmp(F->f[hint].name, name)) return &F->f[hint];
	for (int i = 0; i < F->n; i++) if (!strcmp(F->f[i].name, name)) return &F->f[i];
	return NULL;
}
static long n_fields;
/* compare two serialisations field by field; kind: "uninitialised-field" (two runs) / "uninitialised-state" (siblings) / "result-changed" */
static int fdiff(const flds_t *A, const flds_t *B, const char *kind, const char *extra, const char *la, const char *lb, const flds_t *skip_a, const flds_t *skip_b) {
	int nd = 0;
	struct { int bh; const char *kind; char flag[28]; char det[1500]; size_t o; int n; } bk[6]; int nbk = 0;
	for (int i = 0; i < A->n; i++) {
		const fld_t *a = &A->f[i], *b = ffind(B, a->name, i); n_fields++;
		char cls[300];
		if (!b) { snprintf(cls, sizeof cls, "%s getter=%s arg=%s%s field-set-differs", kind, CX.g->name, CX.a->cls, extra); viol(cls, "field %s (= %s) exists only %s", a->name, a->val, la); nd++; continue; }
		if (!strcmp(a->val, b->val)) continue;
		if (skip_a) { const fld_t *x = ffind(skip_a, a->name, i), *y = ffind(skip_b, a->name, i); if (!x || !y || strcmp(x->val, y->val)) continue; }   /* already reported by the in-process differential */
		nd++;
		int bh = a->behind > b->behind ? a->behind : b->behind; const char *flag = a->behind ? a->flag : b->flag;
		if (bh == 0) { snprintf(cls, sizeof cls, "%s getter=%s arg=%s%s field=%s", kind, CX.g->name, CX.a->cls, extra, fclass(a->name)); viol(cls, "%s: %s %s, %s %s", a->name, la, a->val, lb, b->val); continue; }
		/* sibling comparison: a value behind the false top-level flag of the result cannot come from library state; it is plain register/stack garbage */
		const char *kd = kind; if (skip_a && bh == 1 && (!strcmp(flag, "known") || !strcmp(flag, "available") || !strcmp(flag, "known_and_connected") || !strcmp(flag, "known_and_avail"))) kd = "uninitialised-field";
		int k; for (k = 0; k < nbk; k++) if (bk[k].bh == bh && !strcmp(bk[k].flag, flag) && bk[k].kind == kd) break;
		if (k == nbk) { if (nbk == 6) continue; nbk++; bk[k].bh = bh; bk[k].kind = kd; snprintf(bk[k].flag, sizeof bk[k].flag, "%s", flag); bk[k].o = 0; bk[k].n = 0; bk[k].det[0] = 0; }
		bk[k].n++; if (bk[k].o + 200 < sizeof bk[k].det) bk[k].o += (size_t) snprintf(bk[k].det + bk[k].o, sizeof bk[k].det - bk[k].o, "%s (%s / %s); ", a->name, a->val, b->val);
	}
	for (int k = 0; k < nbk; k++) { char cls[300];
		if (bk[k].bh == 2) snprintf(cls, sizeof cls, "undefined-behind-flag %s getter=%s arg=%s%s fields-meaningful-only-if=%s", bk[k].kind, CX.g->name, CX.a->cls, extra, bk[k].flag);
		else snprintf(cls, sizeof cls, "%s getter=%s arg=%s%s fields-behind=%s(false)", bk[k].kind, CX.g->name, CX.a->cls, extra, bk[k].flag);
		viol(cls, "%d field(s) differ (%s / %s): %s", bk[k].n, la, lb, bk[k].det); }
	if (B->n > A->n) { char cls[300]; snprintf(cls, sizeof cls, "%s getter=%s arg=%s%s field-set-differs", kind, CX.g->name, CX.a->cls, extra); viol(cls, "%d fields %s, %d %s", A->n, la, B->n, lb); nd++; }
	return nd;
}

/* ------------------------------------------------------------------------------------------------ states */
static cm_model_t M; static int quiet;
static int bus_hook(int node, const rc_msg_t *m) { (void) node; (void) m; return quiet; }     /* after start-up the bus answers nothing by itself */
static int up_async;      /* 1: only queue the message (c17.sched: the receiver processes the batch concurrently with the getter) */
static void up(int board, uint8_t type, const uint8_t *d, int n) {
	if (!cm_board_connected(&M, board)) return;
	sb_send(M.b[board].sbnode, type, d, n); if (up_async) return; vs_point(); hx_quiesce();
}
#define UP(b, t, ...) do { const uint8_t _d[] = {__VA_ARGS__}; up(b, t, _d, (int) sizeof _d); } while (0)
enum { B_MASTER, B_OC1, B_LC1, B_BOOSTER2 };
static void drain_queues(void) { uint8_t *m; while ((m = bidib_read_message())) free(m); while ((m = bidib_read_error_message())) free(m); }
static void settle(void) { bidib_flush(); hx_quiesce(); vs_sleep_us(2500000); hx_quiesce(); drain_queues(); }
static void apply_set(int k) {
	CX.op = "harness(state change)";
	if (k == 0) {             /* S0 -> S1 */
		UP(B_MASTER, MSG_BM_OCC, 0); UP(B_MASTER, MSG_BM_ADDRESS, 0, 0x23, 0x01); UP(B_MASTER, MSG_BM_CURRENT, 0, 0x20); UP(B_MASTER, MSG_BM_CONFIDENCE, 1, 0, 1);
		UP(B_OC1, MSG_ACCESSORY_STATE, 2, 0, 2, 0x03, 0x05);
		UP(B_LC1, MSG_LC_STAT, 0x23, 0x01, 0x00); UP(B_LC1, MSG_LC_WAIT, 0x23, 0x01, 0x85);
		UP(B_MASTER, MSG_CS_STATE, 0x03); UP(B_MASTER, MSG_BOOST_STAT, 0x80); UP(B_MASTER, MSG_BOOST_DIAGNOSTIC, 0, 0x20, 1, 0x90, 2, 0x28);
		UP(B_MASTER, MSG_VENDOR, 5, '3', '0', '0', '5', '1', 1, '3');
		bidib_set_train_speed("train1", 20, "master"); settle(); UP(B_MASTER, MSG_CS_DRIVE_ACK, 0x23, 0x01, 1);
		UP(B_MASTER, MSG_BM_SPEED, 0x23, 0x01, 0x40, 0x00); UP(B_MASTER, MSG_BM_DYN_STATE, 0, 0x23, 0x01, 2, 40); UP(B_MASTER, MSG_BM_DYN_STATE, 0, 0x23, 0x01, 1, 7);
		bidib_switch_point("pointd", "reverse"); settle(); UP(B_MASTER, MSG_CS_ACCESSORY_ACK, 0x22, 0x11, 2);
		bidib_set_signal("signald", "go"); settle(); UP(B_MASTER, MSG_CS_ACCESSORY_MANUAL, 0x23, 0x11, 0x21); UP(B_MASTER, MSG_CS_ACCESSORY_ACK, 0x23, 0x11, 3);
		bidib_set_train_peripheral("train1", "horn", 1, "master"); settle();
	} else if (k == 1) {      /* S1 -> S2 */
		UP(B_MASTER, MSG_BM_FREE, 0); UP(B_MASTER, MSG_BM_MULTIPLE, 0, 16, 0x02, 0x02);
		UP(B_MASTER, MSG_BM_ADDRESS, 1, 0x23, 0x81, 0x23, 0x81); UP(B_MASTER, MSG_BM_ADDRESS, 9, 0x23, 0x81, 0x99, 0x09);     /* seg2 lists train1 twice (locomotive and a function decoder with the same address): unusual, but a state the getters must render well-formed */
		UP(B_OC1, MSG_BM_OCC, 0); UP(B_OC1, MSG_BM_ADDRESS, 0, 0x02, 0x03);
		UP(B_MASTER, MSG_BM_ADDRESS, 0, 0x02, 0x83);       /* an address report for a segment that was never reported occupied (the reports overtook each other / the occupancy report was lost) */
		UP(B_MASTER, MSG_BM_CURRENT, 1, 0xFE); UP(B_MASTER, MSG_BM_CURRENT, 0, 0xFF); UP(B_MASTER, MSG_BM_CURRENT, 9, 0x50);
		UP(B_MASTER, MSG_BM_CONFIDENCE, 0, 1, 0); UP(B_OC1, MSG_BM_CONFIDENCE, 0, 0, 1);
		UP(B_OC1, MSG_ACCESSORY_STATE, 2, 1, 2, 0x00, 0); UP(B_OC1, MSG_ACCESSORY_STATE, 3, 0, 2, 0x02, 0); UP(B_LC1, MSG_ACCESSORY_STATE, 0x10, 2, 2, 0x01, 0x83);
		UP(B_LC1, MSG_LC_STAT, 0x23, 0x01, 0x01); UP(B_LC1, MSG_LC_STAT, 0x24, 0x01, 0x07); UP(B_LC1, MSG_LC_WAIT, 0x24, 0x01, 0x11);
		UP(B_MASTER, MSG_CS_STATE, 0x00); UP(B_BOOSTER2, MSG_CS_STATE, 0x03); UP(B_MASTER, MSG_BOOST_STAT, 0x01); UP(B_BOOSTER2, MSG_BOOST_STAT, 0x81);
		UP(B_BOOSTER2, MSG_BOOST_DIAGNOSTIC, 0, 0xFE, 1, 0xFB, 2, 0x19); UP(B_MASTER, MSG_BOOST_DIAGNOSTIC, 0, 0x45);
		UP(B_MASTER, MSG_VENDOR, 5, '3', '0', '0', '5', '1', 1, '0');
		bidib_set_train_speed("train1", -7, "master"); settle(); UP(B_MASTER, MSG_CS_DRIVE_ACK, 0x23, 0x01, 2);
		bidib_set_train_speed("train2", 5, "booster2"); settle();
		UP(B_MASTER, MSG_BM_SPEED, 0x02, 0x03, 0x10, 0x01); UP(B_MASTER, MSG_BM_DYN_STATE, 9, 0x02, 0x03, 3, 50); UP(B_MASTER, MSG_BM_DYN_STATE, 1, 0x23, 0x01, 4, 9);
		bidib_switch_point("pointd", "normal"); settle(); UP(B_MASTER, MSG_CS_ACCESSORY_MANUAL, 0x22, 0x11, 0x20);
		bidib_set_signal("signald", "stop"); settle();
		bidib_set_train_peripheral("train1", "head_light", 0, "master"); bidib_set_peripheral("led2", "on"); settle();
		if (cm_board_connected(&M, B_LC1)) { uint8_t d[9]; d[0] = ++SB.n[0].tab_version; d[1] = M.b[B_LC1].local; memcpy(d + 2, M.b[B_LC1].uid, 7);
			SB.n[M.b[B_LC1].sbnode].present = 0; sb_send(0, MSG_NODE_LOST, d, 9); vs_point(); hx_quiesce(); M.b[B_LC1].present = 0; }
	} else {                  /* S2 -> S3 (only used as "the state changes" of the deep-copy phase) */
		UP(B_MASTER, MSG_BM_FREE, 1); UP(B_MASTER, MSG_BM_FREE, 9); UP(B_OC1, MSG_BM_FREE, 0); UP(B_MASTER, MSG_BM_OCC, 0); UP(B_MASTER, MSG_BM_ADDRESS, 0, 0x02, 0x03, 0x23, 0x01);
		UP(B_MASTER, MSG_BM_CURRENT, 0, 0x90); UP(B_MASTER, MSG_BM_CURRENT, 1, 0x05); UP(B_MASTER, MSG_BM_CONFIDENCE, 1, 1, 1); UP(B_OC1, MSG_BM_CONFIDENCE, 1, 0, 0);
		UP(B_OC1, MSG_ACCESSORY_STATE, 2, 0, 2, 0x02, 0); UP(B_OC1, MSG_ACCESSORY_STATE, 3, 1, 2, 0x00, 0);
		UP(B_MASTER, MSG_CS_STATE, 0x02); UP(B_BOOSTER2, MSG_CS_STATE, 0x00); UP(B_MASTER, MSG_BOOST_STAT, 0x82); UP(B_BOOSTER2, MSG_BOOST_STAT, 0x00);
		UP(B_MASTER, MSG_BOOST_DIAGNOSTIC, 0, 0xFB, 1, 0x70, 2, 0x3C); UP(B_BOOSTER2, MSG_BOOST_DIAGNOSTIC, 0, 0x10, 1, 0x80);
		UP(B_MASTER, MSG_VENDOR, 5, '3', '0', '0', '5', '1', 1, '7');
		UP(B_MASTER, MSG_CS_DRIVE_MANUAL, 0x23, 0x01, 3, 0x03, 0x85, 0x01, 0, 0, 0); UP(B_MASTER, MSG_CS_DRIVE_ACK, 0x02, 0x03, 3);
		UP(B_MASTER, MSG_BM_SPEED, 0x23, 0x01, 0x05, 0x00); UP(B_MASTER, MSG_BM_DYN_STATE, 0, 0x23, 0x01, 5, 3); UP(B_MASTER, MSG_BM_DYN_STATE, 0, 0x02, 0x03, 2, 21);
		bidib_switch_point("pointd", "reverse"); bidib_set_signal("signald", "go"); settle(); UP(B_MASTER, MSG_CS_ACCESSORY_ACK, 0x22, 0x11, 1);
		bidib_set_train_peripheral("train2", "light", 1, "booster2"); bidib_set_train_speed("train2", 0, "master"); settle();
	}
	settle(); CX.op = "harness";
}
/* child set-up: library started (under the given poison in the plain build) and brought to the state */
static const vs_dev_t *g_devs; static int g_nd, g_trace;
static int g_order;      /* snapshot cases: order in which the configuration files list the boards (cm_model_t.reverse_boards) */
static void begin(int state, int presence, int start_poison) {
	hx_child_begin(g_devs, g_nd, g_trace, NULL, 0, 1000000ull * 5000000ull);
	san_fatal_cb = on_san_fatal; san_mark = san_nevents();
#ifdef VARIANT_PLAIN
	{ static const int sigs[] = {SIGSEGV, SIGBUS, SIGABRT, SIGFPE, SIGILL}; for (int i = 0; i < 5; i++) signal(sigs[i], on_signal); }
	if (start_poison) { mallopt(M_PERTURB, start_poison); }
#endif
	cm_std(&M); for (int i = 1; i <= 3; i++) M.b[i].present = (presence >> (i - 1)) & 1;
	/* a third train with no peripherals and no calibration: empty collections inside an entity (snapshot copy loops) */
	{ cm_train_t *t = &M.t[M.nt++]; memset(t, 0, sizeof *t); snprintf(t->id, sizeof t->id, "train3"); t->addrl = 0x77; t->addrh = 0x00; t->steps = 14; }
	/* sibling collections of different size (a free or copy loop that borrows the count of its sibling): with all boards present
	 * two DCC signals and one DCC point, in the other presence variants two DCC points and one DCC signal */
	if (presence == 7) { M.b[0].sd[1] = M.b[0].sd[0]; snprintf(M.b[0].sd[1].id, 24, "signald2"); M.b[0].sd[1].addrl = 0x24; M.b[0].sd[1].initial[0] = 0; M.b[0].nsd = 2; }
	else { M.b[0].pd[1] = M.b[0].pd[0]; snprintf(M.b[0].pd[1].id, 24, "pointd2"); M.b[0].pd[1].addrl = 0x25; M.b[0].pd[1].initial[0] = 0; M.b[0].npd = 2; }
	if (g_order) { M.reverse_boards = g_order;      /* every indexed kind on two boards, so that the order of the boards decides the positions */
		M.b[2].pb[0] = M.b[1].pb[1]; snprintf(M.b[2].pb[0].id, 24, "point9"); M.b[2].pb[0].number = 5; M.b[2].npb = 1;
		M.b[1].sb[0] = M.b[2].sb[0]; snprintf(M.b[1].sb[0].id, 24, "signal9"); M.b[1].sb[0].number = 0x11; M.b[1].sb[0].initial[0] = 0; M.b[1].nsb = 1; }
	quiet = 0; cm_install(&M); SB.on_msg = bus_hook;
	CX.op = "bidib_start_pointer"; if (start_poison) scribble(start_poison);
	if (hx_start_normal(0)) { if (CX.sibling) _exit(4); res_infra("normal start failed"); }
	hx_quiesce(); drain_queues(); quiet = 1; vs_sleep_us(2500000); hx_quiesce(); drain_queues();
	for (int k = 0; k < state; k++) apply_set(k);
	CX.op = "harness";
}

/* ------------------------------------------------------------------------------------------------ phases */
static flds_t FA, FB, FC;
static void fcopy_text(const flds_t *F, char *buf, size_t n) { size_t o = 0; buf[0] = 0; for (int i = 0; i < F->n && o + 220 < n; i++) o += (size_t) snprintf(buf + o, n - o, "%s=%s;", F->f[i].name, F->f[i].val); }
static void emit_outcome(const flds_t *F) {
	static char t[1 << 17]; fcopy_text(F, t, sizeof t); hx_hash_t h; hx_hash_init(&h); hx_hash_str(&h, t); hx_hash_str(&h, CX.g ? CX.g->name : "snap"); hx_hash_str(&h, CX.a ? CX.a->label : "");
	res_printf("O %llx %llx\n", (unsigned long long) h.a, (unsigned long long) (h.b + (unsigned) CX.state * 7u + (unsigned) CX.phase));
	if (getenv("VERIF_IN_REPLAY")) for (int i = 0; i < F->n; i++) res_printf("X %s=%s\n", F->f[i].name, F->f[i].val);
}
static void phase_deep(const getter_t *g, const arg_t *a) {
	res_t r; memset(&r, 0, sizeof r);
	CX.op = g->name; n_calls++; do_call(g, a, &r); CX.op = "harness(serialise)";
	drain_san("sanitizer-in-getter", "call");
	ser(g, &r, &FA); drain_san("sanitizer-reading-result", "fresh"); emit_outcome(&FA);
	apply_set(CX.state); drain_san("sanitizer-in-library", "state-change");
	CX.op = "harness(serialise after state change)"; ser(g, &r, &FB);
	drain_san("shallow-copy", "after-state-change");
	fdiff(&FA, &FB, "result-changed", " when=after-state-change", "before", "after the state changed", NULL, NULL);
	CX.op = "bidib_stop"; bidib_stop(); hx_quiesce(); drain_san("sanitizer-in-library", "stop");
	CX.op = "harness(serialise after stop)"; ser(g, &r, &FC);
	drain_san("shallow-copy", "after-stop");
	fdiff(&FA, &FC, "result-changed", " when=after-stop", "before", "after bidib_stop", NULL, NULL);
	free_res(g, &r);
	char w[120]; snprintf(w, sizeof w, "free=%s", free_name(g->rkind) ? free_name(g->rkind) : "none");
	drain_san("free-unsafe", w);
}
static void phase_free(const getter_t *g, const arg_t *a, int byte) {
	res_t r;
	poisoned_call(g, a, &r, byte);
	drain_san("sanitizer-in-getter", "call");
	free_res(g, &r);
	char w[120]; snprintf(w, sizeof w, "free=%s", free_name(g->rkind) ? free_name(g->rkind) : "none");
	drain_san("free-unsafe", w);
#ifdef VARIANT_ASAN
	if (free_name(g->rkind)) { char what[200]; snprintf(what, sizeof what, "after %s on the result of %s(%s) [%s]", free_name(g->rkind), g->name, a->label, SNAME[CX.state]); hx_leak_check(what); }
#endif
}
/* sibling process: same history, library started under the opposite poison; writes the serialisation of one call to fd */
static void sibling_main(int fd, const getter_t *g, const arg_t *a, int state, int presence) {
	CX.sibling = 1;
	begin(state, presence, 0xA5);
	static res_t q1, q2; poisoned_call(g, a, &q1, 0x5A); ser(g, &q1, &FA); poisoned_call(g, a, &q2, 0xA5); ser(g, &q2, &FB);
	res_t r; poisoned_call(g, a, &r, 0x33); ser(g, &r, &FC);
	size_t o = 0; const char *p = (const char *) &FC; size_t n = sizeof FC;
	while (o < n) { ssize_t w = write(fd, p + o, n - o); if (w <= 0) break; o += (size_t) w; }
	_exit(0);
}
static void phase_poison(const getter_t *g, const arg_t *a, int sib_fd) {
	static res_t r1, r2, r3;
	poisoned_call(g, a, &r1, 0x5A); CX.op = "harness(serialise)"; ser(g, &r1, &FA);
	poisoned_call(g, a, &r2, 0xA5); CX.op = "harness(serialise)"; ser(g, &r2, &FB);
	emit_outcome(&FA);
	fdiff(&FA, &FB, "uninitialised-field", "", "with poison 5a:", "with poison a5:", NULL, NULL);
	poisoned_call(g, a, &r3, 0x33); CX.op = "harness(serialise)"; ser(g, &r3, &FC);
	if (sib_fd >= 0) {
		static flds_t FS; size_t o = 0; char *p = (char *) &FS;
		while (o < sizeof FS) { ssize_t k = read(sib_fd, p + o, sizeof FS - o); if (k <= 0) break; o += (size_t) k; }
		close(sib_fd);
		if (o == sizeof FS) { fdiff(&FC, &FS, "uninitialised-state", "", "library started under poison 5a:", "started under poison a5:", &FA, &FB); res_printf("C sibling_comparisons 1\n"); }
		else res_printf("C sibling_incomplete 1\n");      /* the sibling crashed in the same call: the crash is reported by this process */
	}
	free_res(g, &r1); free_res(g, &r2); free_res(g, &r3);
}

/* ---- snapshot vs single getters */
static long n_snap;
static void sdiff(const char *entity, const char *id, const flds_t *S, const flds_t *Q, const char *single) {
	for (int i = 0; i < S->n; i++) {
		const fld_t *a = &S->f[i], *b = ffind(Q, a->name, i); n_snap++;
		char cls[240];
		if (!b) { snprintf(cls, sizeof cls, "snapshot-differs entity=%s field=%s missing-in-single-getter", entity, fclass(a->name)); viol(cls, "%s %s: snapshot %s=%s, %s has no such field (not known?)", entity, id, a->name, a->val, single); continue; }
		if (!strcmp(a->val, b->val)) continue;
		int bh = a->behind > b->behind ? a->behind : b->behind;
		snprintf(cls, sizeof cls, "%ssnapshot-differs entity=%s field=%s", bh == 2 ? "undefined-behind-flag " : "", entity, fclass(a->name));
		viol(cls, "%s %s: bidib_get_state() says %s=%s, %s(\"%s\") says %s", entity, id, a->name, a->val, single, id, b->val);
	}
	if (Q->n != S->n) { char cls[200]; snprintf(cls, sizeof cls, "snapshot-differs entity=%s field-count", entity); viol(cls, "%s %s: %d fields in the snapshot, %d from %s", entity, id, S->n, Q->n, single); }
}
static void sflag(const char *entity, const char *id, const char *field, long snap, long single, const char *fn) {
	n_snap++; if (snap == single) return;
	char cls[200]; snprintf(cls, sizeof cls, "snapshot-differs entity=%s field=%s", entity, field); viol(cls, "%s %s: snapshot implies %s=%ld, %s says %ld", entity, id, field, snap, fn, single);
}
static void slist(const char *entity, const char *fn, t_bidib_id_list_query q, const char **ids, size_t n) {
	int same = q.length == n; for (size_t i = 0; same && i < n; i++) if (!q.ids[i] || strcmp(q.ids[i], ids[i])) same = 0;
	n_snap++;
	if (!same) { char cls[200]; snprintf(cls, sizeof cls, "snapshot-differs entity=%s field=id-list", entity); char l[300]; size_t o = 0; l[0] = 0; for (size_t i = 0; i < q.length && o + 40 < sizeof l; i++) o += (size_t) snprintf(l + o, sizeof l - o, "%s,", q.ids[i] ? q.ids[i] : "(null)");
		char s[300]; o = 0; s[0] = 0; for (size_t i = 0; i < n && o + 40 < sizeof s; i++) o += (size_t) snprintf(s + o, sizeof s - o, "%s,", ids[i]);
		viol(cls, "%s returns [%s], the snapshot lists [%s]", fn, l, s); }
	bidib_free_id_list_query(q);
}
static void phase_snap(void) {
	static flds_t S, Q;
	CX.op = "bidib_get_state"; t_bidib_track_state s = bidib_get_state(); CX.op = "harness(snapshot comparison)";
	for (int dcc = 0; dcc < 2; dcc++) for (int sig = 0; sig < 2; sig++) {
		size_t cnt = sig ? (dcc ? s.signals_dcc_count : s.signals_board_count) : (dcc ? s.points_dcc_count : s.points_board_count);
		const char *entity = sig ? (dcc ? "dcc-signal" : "board-signal") : (dcc ? "dcc-point" : "board-point"); const char *fn = sig ? "bidib_get_signal_state" : "bidib_get_point_state";
		for (size_t i = 0; i < cnt; i++) {
			const char *id = dcc ? (sig ? s.signals_dcc : s.points_dcc)[i].id : (sig ? s.signals_board : s.points_board)[i].id;
			S.n = 0; fadd(&S, 0, NULL, "", "known", "1"); fadd(&S, 0, NULL, "", "type", "%d", dcc ? BIDIB_ACCESSORY_DCC : BIDIB_ACCESSORY_BOARD);
			if (dcc) ser_dacc(&S, 0, NULL, "dcc_accessory_state.", &(sig ? s.signals_dcc : s.points_dcc)[i].data, 1); else ser_bacc(&S, 0, NULL, "board_accessory_state.", &(sig ? s.signals_board : s.points_board)[i].data);
			CX.op = fn; res_t r; r.u.uacc = sig ? bidib_get_signal_state(id) : bidib_get_point_state(id); CX.op = "harness(snapshot comparison)";
			getter_t g = { fn, 0, R_UACC, NULL }; ser(&g, &r, &Q); sdiff(entity, id, &S, &Q, fn); bidib_free_unified_accessory_state_query(r.u.uacc);
			if (!dcc) { CX.op = sig ? "bidib_get_signal_state_index" : "bidib_get_point_state_index"; size_t ix = sig ? bidib_get_signal_state_index(id) : bidib_get_point_state_index(id); sflag(entity, id, "index", (long) i, (long) ix, CX.op); CX.op = "harness(snapshot comparison)"; }
		}
	}
	for (size_t i = 0; i < s.peripherals_count; i++) { const char *id = s.peripherals[i].id;
		S.n = 0; fadd(&S, 0, NULL, "", "available", "1"); ser_perd(&S, 0, NULL, "data.", &s.peripherals[i].data);
		res_t r; r.u.per = bidib_get_peripheral_state(id); getter_t g = { "bidib_get_peripheral_state", 0, R_PER, NULL }; ser(&g, &r, &Q); sdiff("peripheral", id, &S, &Q, g.name); bidib_free_peripheral_state_query(r.u.per); }
	for (size_t i = 0; i < s.segments_count; i++) { const char *id = s.segments[i].id;
		S.n = 0; fadd(&S, 0, NULL, "", "known", "1"); ser_segd(&S, 0, NULL, "data.", &s.segments[i].data);
		res_t r; r.u.seg = bidib_get_segment_state(id); getter_t g = { "bidib_get_segment_state", 0, R_SEG, NULL }; ser(&g, &r, &Q); sdiff("segment", id, &S, &Q, g.name); bidib_free_segment_state_query(r.u.seg);
		sflag("segment", id, "index", (long) i, (long) bidib_get_segment_state_index(id), "bidib_get_segment_state_index"); }
	for (size_t i = 0; i < s.reversers_count; i++) { const char *id = s.reversers[i].id;
		S.n = 0; fadd(&S, 0, NULL, "", "available", "1"); ser_revd(&S, 0, NULL, "data.", &s.reversers[i].data);
		res_t r; r.u.rev = bidib_get_reverser_state(id); getter_t g = { "bidib_get_reverser_state", 0, R_REV, NULL }; ser(&g, &r, &Q); sdiff("reverser", id, &S, &Q, g.name); bidib_free_reverser_state_query(r.u.rev); }
	const char *on_ids[8]; size_t non = 0, nids = 0; const char *ids[16];
	for (size_t i = 0; i < s.trains_count && i < 8; i++) { const char *id = s.trains[i].id; const t_bidib_train_state_data *d = &s.trains[i].data;
		S.n = 0; fadd(&S, 0, NULL, "", "known", "1"); ser_traind(&S, 0, NULL, "data.", d);
		res_t r; r.u.train = bidib_get_train_state(id); getter_t g = { "bidib_get_train_state", 0, R_TRAIN, NULL }; ser(&g, &r, &Q); sdiff("train", id, &S, &Q, g.name); bidib_free_train_state_query(r.u.train);
		for (size_t k = 0; k < d->peripheral_cnt; k++) { t_bidib_train_peripheral_state_query q = bidib_get_train_peripheral_state(id, d->peripherals[k].id);
			sflag("train", id, "peripherals[].available", 1, q.available, "bidib_get_train_peripheral_state"); if (q.available) sflag("train", id, "peripherals[].state", d->peripherals[k].state, q.state, "bidib_get_train_peripheral_state"); }
		sflag("train", id, "on_track", d->on_track, bidib_get_train_on_track(id), "bidib_get_train_on_track"); if (d->on_track) on_ids[non++] = id;
		t_bidib_train_speed_step_query st = bidib_get_train_speed_step(id); sflag("train", id, "on_track", d->on_track, st.known_and_avail, "bidib_get_train_speed_step(known_and_avail)");
		if (st.known_and_avail) { sflag("train", id, "set_speed_step", d->set_speed_step, st.speed_step, "bidib_get_train_speed_step"); sflag("train", id, "set_is_forwards", d->set_is_forwards, st.is_forwards, "bidib_get_train_speed_step"); }
		t_bidib_train_speed_kmh_query km = bidib_get_train_speed_kmh(id); sflag("train", id, "on_track", d->on_track, km.known_and_avail, "bidib_get_train_speed_kmh(known_and_avail)");
		if (km.known_and_avail) sflag("train", id, "detected_kmh_speed", d->detected_kmh_speed, km.speed_kmh, "bidib_get_train_speed_kmh");
		/* position: the segments of the snapshot that list the train's address */
		t_bidib_dcc_address_query da = bidib_get_train_dcc_addr(id); t_bidib_train_position_query pos = bidib_get_train_position(id);
		const char *segs[16]; size_t ns = 0; int last_type = -1;
		if (da.known) for (size_t k = 0; k < s.segments_count; k++) for (size_t j = 0; j < s.segments[k].data.dcc_address_cnt; j++)
			if (s.segments[k].data.dcc_addresses[j].addrl == da.dcc_address.addrl && s.segments[k].data.dcc_addresses[j].addrh == da.dcc_address.addrh && ns < 16) { segs[ns++] = s.segments[k].id; last_type = s.segments[k].data.dcc_addresses[j].type; }
		t_bidib_id_list_query pl = { pos.length, pos.segments }; slist("train-position", "bidib_get_train_position", pl, segs, ns);      /* frees the position query */
		sflag("train", id, "on_track", d->on_track, ns > 0, "segment address lists of the snapshot");
		if (ns > 0) { sflag("train-position", id, "orientation_is_left", last_type == 0, pos.orientation_is_left, "bidib_get_train_position");
			sflag("train", id, "orientation", d->orientation == BIDIB_TRAIN_ORIENTATION_LEFT, pos.orientation_is_left, "bidib_get_train_position"); }
		ids[nids++] = id; }
	slist("train", "bidib_get_trains_on_track", bidib_get_trains_on_track(), on_ids, non);
	slist("train", "bidib_get_trains", bidib_get_trains(), ids, nids);
	nids = 0;
	for (size_t i = 0; i < s.booster_count && i < 16; i++) { const char *id = s.booster[i].id; ids[nids++] = id;
		S.n = 0; fadd(&S, 0, NULL, "", "known", "1"); ser_boosterd(&S, 0, NULL, "data.", &s.booster[i].data);
		res_t r; r.u.boo = bidib_get_booster_state(id); getter_t g = { "bidib_get_booster_state", 0, R_BOOSTER, NULL }; ser(&g, &r, &Q); sdiff("booster", id, &S, &Q, g.name); }
	slist("booster", "bidib_get_boosters", bidib_get_boosters(), ids, nids);
	nids = 0;
	for (size_t i = 0; i < s.track_outputs_count && i < 16; i++) { const char *id = s.track_outputs[i].id; ids[nids++] = id;
		S.n = 0; fadd(&S, 0, NULL, "", "known", "1"); fadd(&S, 0, NULL, "", "cs_state", "%d", (int) s.track_outputs[i].cs_state);
		res_t r; r.u.tout = bidib_get_track_output_state(id); getter_t g = { "bidib_get_track_output_state", 0, R_TOUT, NULL }; ser(&g, &r, &Q); sdiff("track-output", id, &S, &Q, g.name); }
	slist("track-output", "bidib_get_track_outputs", bidib_get_track_outputs(), ids, nids);
	getter_t gs = { "bidib_get_state", 0, R_TRACK, NULL }; res_t rs; rs.u.track = s; ser(&gs, &rs, &S); emit_outcome(&S);
	if (getenv("C17_DUMP")) { static char t[1 << 17]; fcopy_text(&S, t, sizeof t); for (char *c = t; *c; c++) if (*c == ';') *c = '\n'; fprintf(stderr, "---- snapshot at %s\n%s\n", SNAME[CX.state], t); }
	res_printf("C snapshot_entities %zu\n", s.points_board_count + s.points_dcc_count + s.signals_board_count + s.signals_dcc_count + s.peripherals_count + s.segments_count + s.reversers_count + s.trains_count + s.booster_count + s.track_outputs_count);
	CX.op = "bidib_free_track_state"; bidib_free_track_state(s); CX.op = "harness";
	drain_san("sanitizer-in-getter", "snapshot-comparison");
	/* the one free function without a getter: an empty and a populated list */
	{ static const getter_t gu = { "(no getter: t_bidib_unique_id_list_query)", K_VOID, R_BOOL, NULL }; static const arg_t au = { .cls = "none", .label = "constructed" }; CX.g = &gu; CX.a = &au;
	  CX.op = "bidib_free_unique_id_list_query"; t_bidib_unique_id_list_query e0 = {0, NULL}, e2 = {2, calloc(2, sizeof(t_bidib_unique_id_mod))};
	  bidib_free_unique_id_list_query(e0); bidib_free_unique_id_list_query(e2); n_frees += 2; CX.op = "harness"; drain_san("free-unsafe", "free=bidib_free_unique_id_list_query"); CX.g = NULL; CX.a = NULL; }
}

/* ------------------------------------------------------------------------------------------------ child and parent */
/* payload: presence, state, phase, getter, arg, byte */
static void case_child(const void *job, size_t n) {
	vs_dev_t devs[VS_MAXDEV]; int nd; size_t pl; const uint8_t *p = job_parse(job, n, devs, &nd, &pl);
	int presence = p[0], state = p[1], phase = p[2], gi = p[3], ai = p[4], byte = p[5];
	static arg_t args[MAXARGS]; const getter_t *g = NULL; const arg_t *a = NULL;
	if (phase != PH_SNAP) { g = &GT[gi]; int na = build_args(g, args); if (ai >= na) res_infra("bad argument index"); a = &args[ai]; }
	memset(&CX, 0, sizeof CX); CX.g = g; CX.a = a; CX.state = state; CX.phase = phase; CX.byte = byte; CX.op = "harness";
	int sib_fd = -1; pid_t sib = -1;
	if (phase == PH_POISON) {
		int pp[2]; if (pipe(pp) == 0) { sib = fork(); if (sib == 0) { close(pp[0]); sibling_main(pp[1], g, a, state, presence); _exit(0); } close(pp[1]); if (sib > 0) sib_fd = pp[0]; else close(pp[0]); }
	}
	g_order = phase == PH_SNAP ? byte : 0;
	begin(state, presence, phase == PH_POISON ? 0x5A : 0);
	switch (phase) {
	case PH_DEEP: phase_deep(g, a); break;
	case PH_FREE: phase_free(g, a, byte); break;
	case PH_POISON: phase_poison(g, a, sib_fd); break;
	case PH_SNAP: phase_snap(); break;
	}
	if (sib > 0) { int st; waitpid(sib, &st, 0); }
	res_printf("C getter_calls %ld\nC results_freed %ld\nC fields_compared %ld\nC snapshot_fields_compared %ld\nC cases_%s 1\nC violations_observed_in_children %ld\n", n_calls, n_frees, n_fields, n_snap, PHNAME[phase], nviol_local);
	res_finish();
}
typedef struct { uint8_t presence, state, phase, getter, arg, byte; } case_t;
static case_t *CASES; static long NCASES;
static size_t case_gen(long idx, uint8_t *payload, char *human, size_t hn) {
	const case_t *c = &CASES[idx]; memcpy(payload, c, 6);
	if (c->phase == PH_SNAP) { static const char *ON[4] = {"", " boards reversed in both files", " boards reversed in the track file only", " boards reversed in the board file only"};
		snprintf(human, hn, "present(oc1,lc1,booster2)=%d%d%d state=%s phase=%s%s", c->presence & 1, (c->presence >> 1) & 1, (c->presence >> 2) & 1, SNAME[c->state], PHNAME[c->phase], ON[c->byte & 3]); }
	else { static arg_t args[MAXARGS]; build_args(&GT[c->getter], args);
		snprintf(human, hn, "present(oc1,lc1,booster2)=%d%d%d state=%s phase=%s%s getter=%s arg=%s(%s)", c->presence & 1, (c->presence >> 1) & 1, (c->presence >> 2) & 1, SNAME[c->state], PHNAME[c->phase],
		         c->phase == PH_FREE ? (c->byte == 0x5A ? "(stack 5a)" : "(stack a5)") : "", GT[c->getter].name, args[c->arg].cls, args[c->arg].label); }
	return 6;
}

/* ------------------------------------------------------------------------------------------------ c17.sched (E1)
 * Every (getter, known argument) in state S1 (trains on the track, reported accessories, boosters, ...) on an application
 * thread — call, read every field of the result, free it — while the receiver thread processes a batch of feedback messages
 * that changes everything the getters read (the train leaves its segment and appears elsewhere, segments become free,
 * accessories / peripherals / boosters / command stations change).  Every schedule with <= 1 (thorough 2) preemptions.
 * A result assembled from two different moments of the state (a count taken before and a list filled after an update) has
 * slots nobody wrote: under ASan the free of such a slot or the read of a freed string is reported, in the plain build the
 * heap is perturbed so that an unwritten pointer is 0x5a5a... and reading the result crashes. */
static void queue_change_batch(void) {
	/* the collections the getters copy SHRINK: the train leaves the track, the segment's address list becomes empty, a
	 * board (with its accessories and peripherals) is lost; scalar state changes value */
	up_async = 1;
	UP(B_MASTER, MSG_BM_ADDRESS, 0); UP(B_MASTER, MSG_BM_FREE, 0); UP(B_MASTER, MSG_BM_CURRENT, 1, 0xFE); UP(B_MASTER, MSG_BM_CONFIDENCE, 0, 1, 0);
	UP(B_OC1, MSG_ACCESSORY_STATE, 2, 1, 2, 0x00, 0); UP(B_LC1, MSG_LC_STAT, 0x23, 0x01, 0x01);
	UP(B_MASTER, MSG_CS_STATE, 0x00); UP(B_MASTER, MSG_BOOST_STAT, 0x01); UP(B_MASTER, MSG_CS_DRIVE_MANUAL, 0x23, 0x01, 3, 0x03, 0x85, 0x01, 0, 0, 0);
	UP(B_MASTER, MSG_CS_ACCESSORY_MANUAL, 0x22, 0x11, 0x20);
	if (cm_board_connected(&M, B_LC1)) { uint8_t d[9]; d[0] = ++SB.n[0].tab_version; d[1] = M.b[B_LC1].local; memcpy(d + 2, M.b[B_LC1].uid, 7); SB.n[M.b[B_LC1].sbnode].present = 0; sb_send(0, MSG_NODE_LOST, d, 9); }
	up_async = 0;
}
static const getter_t *sg; static const arg_t *sa; static flds_t SF;
static void *sched_getter(void *arg) { (void) arg; static res_t r; memset(&r, 0x5A, sizeof r); CX.op = sg->name; n_calls++; do_call(sg, sa, &r); CX.op = "harness(serialise)"; ser(sg, &r, &SF); free_res(sg, &r); CX.op = "harness"; return NULL; }
static void sched_child(const void *job, size_t n) {
	static vs_dev_t devs[VS_MAXDEV]; int nd; size_t pl; const uint8_t *p = job_parse(job, n, devs, &nd, &pl);
	int gi = p[0], ai = p[1]; static arg_t args[MAXARGS]; const getter_t *g = &GT[gi]; int na = build_args(g, args); if (ai >= na) res_infra("bad argument index");
	memset(&CX, 0, sizeof CX); CX.g = g; CX.a = &args[ai]; CX.state = 1; CX.phase = PH_FREE; CX.op = "harness";
	g_devs = devs; g_nd = nd; g_trace = 1;
	begin(1, 7, 0);
#ifdef VARIANT_PLAIN
	mallopt(M_PERTURB, 0x5A);
#endif
	sg = g; sa = &args[ai];
	queue_change_batch();
	vs_unlock_points = 1;       /* a getter that still reads shared data after dropping the lock: the stretch up to its next acquisition must be interruptible */
	vs_window(1);
	int t = vs_spawn(sched_getter, NULL); vs_join_tid(t); hx_quiesce();
	vs_window(0);
	vs_unlock_points = 0;
	drain_san("sanitizer-in-getter-under-concurrent-updates", "call");
	emit_outcome(&SF);
	hx_emit_ledger_violations("C17");
	hx_emit_trace();
	res_printf("C getter_calls %ld\nC results_freed %ld\nC cases_sched 1\n", n_calls, n_frees);
	res_finish();
}
void c17_register(void) { harness_register("c17.case", case_child); harness_register("c17.sched", sched_child); }
int c17_run(const char *tier) {
	int thorough = !strcmp(tier, "thorough");
	static const uint8_t PRES[] = {7, 5, 6, 3}; int npres = thorough ? 4 : 1;
	static arg_t args[MAXARGS]; long cap = 0, pairs = 0;
	for (int g = 0; g < NGT; g++) pairs += build_args(&GT[g], args);
	cap = (long) npres * 3 * (pairs * 4 + 6); CASES = calloc((size_t) cap, sizeof(case_t));
	for (int v = 0; v < npres; v++) for (int s = 0; s < 3; s++) {
		for (int o = 0; o < 4; o++) CASES[NCASES++] = (case_t) {PRES[v], (uint8_t) s, PH_SNAP, 0, 0, (uint8_t) o};      /* boards listed in file order / reversed in both files / in the track file only / in the board file only */
		for (int g = 0; g < NGT; g++) { int na = build_args(&GT[g], args);
			for (int a = 0; a < na; a++) {
#ifdef VARIANT_ASAN
				CASES[NCASES++] = (case_t) {PRES[v], (uint8_t) s, PH_DEEP, (uint8_t) g, (uint8_t) a, 0};
				CASES[NCASES++] = (case_t) {PRES[v], (uint8_t) s, PH_FREE, (uint8_t) g, (uint8_t) a, 0x5A};
				CASES[NCASES++] = (case_t) {PRES[v], (uint8_t) s, PH_FREE, (uint8_t) g, (uint8_t) a, 0xA5};
#else
				CASES[NCASES++] = (case_t) {PRES[v], (uint8_t) s, PH_POISON, (uint8_t) g, (uint8_t) a, 0x5A};
#endif
			} }
	}
	ex_spec_t e = { .harness = "c17.case", .ncases = NCASES, .gen = case_gen, .label = "c17" };
	ex_map(&e);
	long sch = 0, sch_pairs = 0; int sch_ex = 1;
	{ const char *variant = getenv("VERIF_VARIANT"); int defv = variant && (!strcmp(variant, "autop") || !strcmp(variant, "autoz"));
	  for (int g = 0; g < NGT && !defv; g++) { int na = build_args(&GT[g], args);
		for (int a = 0; a < na; a++) { if (strcmp(args[a].cls, "known") && strcmp(args[a].cls, "none")) continue;
			if (rep_elapsed() > rep_deadline_s) { sch_ex = 0; break; }
			uint8_t sp[2] = {(uint8_t) g, (uint8_t) a}; char label[160]; snprintf(label, sizeof label, "c17.sched %s(%s) || receiver", GT[g].name, args[a].label);
			e1_spec_t es = { .harness = "c17.sched", .param = sp, .nparam = 2, .bound = thorough ? 2 : 1, .label = strdup(label) };
			e1_explore(&es); for (int k = 0; k < 8; k++) sch += es.schedules_by_cost[k]; sch_pairs++; if (!es.exhaustive) sch_ex = 0; } }
	  if (!defv) rep_note("c17.sched: %ld (getter, known argument) pairs against a receiver batch that changes all tracked state, %ld schedules, preemption bound %d", sch_pairs, sch, thorough ? 2 : 1); }
	rep_count("states", e.distinct_outcomes); rep_count("transitions", rep_get("getter_calls")); rep_count("executions", e.done + sch);
	rep_flag("exhaustive", e.exhaustive && sch_ex);
	rep_note("%d getters x %ld (getter, argument) pairs x 3 states x %d presence variant(s); cases: deep-copy %ld, free-safety %ld, poison-differential %ld (sibling comparisons %ld), snapshot %ld; getter calls %ld, results freed %ld, fields compared %ld, snapshot fields compared %ld over %ld entities",
	         NGT, pairs, npres, rep_get("cases_deep-copy"), rep_get("cases_free-safety"), rep_get("cases_poison-differential"), rep_get("sibling_comparisons"), rep_get("cases_snapshot-vs-getters"),
	         rep_get("getter_calls"), rep_get("results_freed"), rep_get("fields_compared"), rep_get("snapshot_fields_compared"), rep_get("snapshot_entities"));
	return 0;
}
