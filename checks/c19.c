/* C19 — Secure-ACK: each occupancy report of a SecAck board is mirrored exactly once, auto-flushed; none for other boards.
 *  c19.hist  : E2 BFS over report histories from three boards (feature 0x03 = 0x14 / 0 / absent), with the SecAck
 *              board's budget exhausted (mirror queued behind a held message) or stalled, released later
 *  c19.sweep : payload fidelity — OCC/FREE for every detector number, MULTIPLE for base {0,8,16} x every size 8..128 x
 *              bitmap patterns, POSITION for sweeps of each of its five bytes
 * Normal mode against the simulated bus, standard configuration (fw/cfg.c). */
#include "../fw/explore.h"
#include "../fw/hx.h"
#include "../fw/simbus.h"
#include "../fw/cfg.h"
#include "../fw/cfgmodel.h"
#include "include/bidib.h"
#include <stdio.h>
#include <stdlib.h>
#include <string.h>

#define NB 3
static const int SECACK[NB] = {1, 0, 0};          /* master: 0x14, oc1: 0x00, lc1: feature absent */
static const char *BNAME[NB] = {"master(secack)", "oc1(secack=0)", "lc1(no feature)"};
/* events */
enum { R_OCC, R_FREE, R_MULT8, R_POS, R_N };
#define EV_REPORT 0                 /* b*R_N + r */
#define EV_MULT128 (NB * R_N)       /* master only */
#define EV_EXHAUST (EV_MULT128 + 1)
#define EV_STALL1 (EV_EXHAUST + 1)
#define EV_STALL0 (EV_STALL1 + 1)
#define EV_ANSWER (EV_STALL0 + 1)
#define EV_N (EV_ANSWER + 1)
static const char *evname(int ev) {
	static char b[4][48]; static int k; char *s = b[k++ & 3];
	static const char *rn[R_N] = {"occ", "free", "multiple8", "position"};
	if (ev < EV_MULT128) snprintf(s, 48, "%s from %s", rn[ev % R_N], BNAME[ev / R_N]);
	else if (ev == EV_MULT128) snprintf(s, 48, "multiple128 from master");
	else if (ev == EV_EXHAUST) snprintf(s, 48, "exhaust-budget(master)");
	else if (ev == EV_STALL1) snprintf(s, 48, "stall(master,1)");
	else if (ev == EV_STALL0) snprintf(s, 48, "stall(master,0)");
	else snprintf(s, 48, "answer(master)");
	return s;
}
typedef struct { uint8_t type; uint8_t data[20]; int dlen; } mir_t;
static struct { mir_t pend[NB][64]; int np[NB]; int logpos; int stalled; int pings_outstanding; int counter; } S;

static int is_mirror(uint8_t t) { return t == MSG_BM_MIRROR_OCC || t == MSG_BM_MIRROR_FREE || t == MSG_BM_MIRROR_MULTIPLE || t == MSG_BM_MIRROR_POSITION; }
static void expect_mirror(int b, uint8_t type, const uint8_t *d, int dl) {
	if (!SECACK[b] || S.np[b] >= 64) return;
	mir_t *m = &S.pend[b][S.np[b]++]; m->type = type; m->dlen = dl; memcpy(m->data, d, (size_t) dl);
}
/* consume the downlink messages logged since the last call */
static void absorb(const char *what) {
	for (; S.logpos < SB.nlog; S.logpos++) {
		uint8_t t = SB.log[S.logpos].type; if (!is_mirror(t)) continue;
		int b = sb_find(SB.log[S.logpos].addr);
		if (b < 0 || b >= NB) { res_violation("mirror-to-unknown-node", "%s", what); continue; }
		if (!SECACK[b]) { res_violation("mirror-to-non-secack-board: a board without secure acknowledgement was sent a mirror message", "%s: type %02x to %s", what, t, BNAME[b]); continue; }
		if (S.np[b] == 0) { res_violation("mirror-duplicated-or-spurious: more mirror messages than reports", "%s: type %02x data %s", what, t, hx_hex(SB.log[S.logpos].data, (size_t) SB.log[S.logpos].dlen)); continue; }
		mir_t *e = &S.pend[b][0];
		if (e->type != t || e->dlen != SB.log[S.logpos].dlen || memcmp(e->data, SB.log[S.logpos].data, (size_t) e->dlen)) {
			char cls[160]; snprintf(cls, sizeof cls, "mirror-payload-differs type=%02x: the mirror does not carry the reported detector number / payload", e->type);
			res_violation(cls, "%s: mirror %02x %s, expected %02x %s", what, t, hx_hex(SB.log[S.logpos].data, (size_t) SB.log[S.logpos].dlen), e->type, hx_hex(e->data, (size_t) e->dlen));
		}
		memmove(&S.pend[b][0], &S.pend[b][1], sizeof(mir_t) * (size_t) --S.np[b]);
	}
}
static void check_quiescent(const char *what) {
	absorb(what);
	if (vx_send_buffer_index() != 0 && S.np[0] == 0) {
		/* something is waiting for a manual/timed flush: is it a mirror? */
		const uint8_t *sb = vx_send_buffer(); size_t n = vx_send_buffer_index(), i = 0;
		while (i < n) { size_t k = i + 1; while (k < n && sb[k]) k++; if (k + 2 < n + 1 && is_mirror(sb[k + 2])) { res_violation("mirror-not-flushed: the mirror waits in the send buffer for a manual or timed flush", "%s", what); break; } i += (size_t) sb[i] + 1; }
	}
	for (int b = 0; b < NB; b++) {
		if (S.np[b] == 0) continue;
		uint8_t types[64]; int nd = vx_node_deferred(SB.n[b].addr, types, 64); int held_mirrors = 0;
		for (int i = 0; i < nd; i++) if (is_mirror(types[i])) held_mirrors++;
		if (nd == 0) {
			/* maybe it sits unflushed in the send buffer */
			char cls[160]; snprintf(cls, sizeof cls, "mirror-missing type=%02x: a report of a SecAck board was not answered with a mirror message", S.pend[b][0].type);
			if (vx_send_buffer_index() != 0) snprintf(cls, sizeof cls, "mirror-not-flushed: the mirror waits in the send buffer for a manual or timed flush");
			res_violation(cls, "%s: %d mirror(s) outstanding for %s, nothing held by flow control", what, S.np[b], BNAME[b]);
			S.np[b] = 0;
		} else if (held_mirrors == S.np[b] && is_mirror(types[0]) && !S.stalled) {
			/* a mirror expects no answer, so it can never wait for response budget itself: it is held only behind an earlier held
			 * message (FIFO) or while the node is stalled.  A mirror at the HEAD of the held queue of an unstalled node is stranded. */
			res_violation("mirror-held-without-cause: a mirror waits at the head of the held queue although the node is not stalled (mirrors need no response budget)", "%s: %d held for %s", what, held_mirrors, BNAME[b]); S.np[b] = 0;
		} else if (held_mirrors == S.np[b]) { res_printf("C mirrors_held_then_released_cases 1\n"); }
		else if (held_mirrors != S.np[b]) {
			res_violation("mirror-held-count: held mirrors do not match the reports awaiting their mirror", "%s: %d held, %d expected", what, held_mirrors, S.np[b]); S.np[b] = 0;
		}
	}
}
static void report(int b, int r, const char *what) {
	uint8_t d[24]; int dl = 0; uint8_t type = 0; S.counter++;
	switch (r) {
	case R_OCC: d[0] = 1; dl = 1; type = MSG_BM_OCC; expect_mirror(b, MSG_BM_MIRROR_OCC, d, 1); break;
	case R_FREE: d[0] = 1; dl = 1; type = MSG_BM_FREE; expect_mirror(b, MSG_BM_MIRROR_FREE, d, 1); break;
	case R_MULT8: d[0] = 0; d[1] = 8; d[2] = (uint8_t) (0x01 | (S.counter << 1)); dl = 3; type = MSG_BM_MULTIPLE; expect_mirror(b, MSG_BM_MIRROR_MULTIPLE, d, 3); break;
	case R_POS: d[0] = 0x23; d[1] = 0x01; d[2] = 0; d[3] = 0x34; d[4] = 0x12; dl = 5; type = MSG_BM_POSITION; expect_mirror(b, MSG_BM_MIRROR_POSITION, d, 5); break;
	case 99: d[0] = 0; d[1] = 128; for (int i = 0; i < 16; i++) d[2 + i] = (uint8_t) (i * 17 + 1); dl = 18; type = MSG_BM_MULTIPLE; expect_mirror(b, MSG_BM_MIRROR_MULTIPLE, d, 18); break;
	}
	sb_send(b, type, d, dl); vs_point(); hx_quiesce();
	uint8_t *m; while ((m = bidib_read_message())) free(m);
	check_quiescent(what);
}
static int quiet_bus(int node, const rc_msg_t *m) { (void) node; return m->type == MSG_SYS_PING; }   /* pings stay unanswered until answer(master) */
static int apply(int ev) {
	const char *what = evname(ev);
	if (ev < EV_MULT128) report(ev / R_N, ev % R_N, what);
	else if (ev == EV_MULT128) report(0, 99, what);
	else if (ev == EV_EXHAUST) {
		if (S.pings_outstanding) return 0;
		t_bidib_node_address a = {0, 0, 0};
		for (int i = 0; i < 10; i++) bidib_send_sys_ping(a, (uint8_t) i, 0);      /* 9 x 5 bytes fit, the tenth is held */
		bidib_flush(); hx_quiesce(); S.pings_outstanding = 9; check_quiescent(what);
	} else if (ev == EV_STALL1 || ev == EV_STALL0) {
		int on = ev == EV_STALL1; if (S.stalled == on) return 0;
		uint8_t d = (uint8_t) on; S.stalled = on; sb_send(0, MSG_STALL, &d, 1); vs_point(); hx_quiesce(); check_quiescent(what);
	} else {
		if (!S.pings_outstanding) return 0;
		uint8_t d = 0; S.pings_outstanding--; sb_send(0, MSG_SYS_PONG, &d, 1); vs_point(); hx_quiesce();
		uint8_t *m; while ((m = bidib_read_message())) free(m);
		uint8_t types[8]; if (vx_node_deferred(SB.n[0].addr, types, 8) == 0 && !S.stalled) { /* the held ping went out: it is outstanding again */ }
		check_quiescent(what);
	}
	return 1;
}
static void begin_normal(void) {
	hx_child_begin(NULL, 0, 0, NULL, 0, 0);
	cfg_install_std(); SB.on_msg = NULL;
	if (hx_start_normal(0)) res_infra("normal start failed");
	hx_quiesce();
	uint8_t *m; while ((m = bidib_read_message())) free(m); while ((m = bidib_read_error_message())) free(m);
	memset(&S, 0, sizeof S); S.logpos = SB.nlog; SB.on_msg = quiet_bus;
	vs_sleep_us(2500000); hx_quiesce();     /* start-up requests are answered or expired */
}
static void hist_child(const void *job, size_t n) {
	vs_dev_t devs[VS_MAXDEV]; int nd; size_t pl; const uint8_t *p = job_parse(job, n, devs, &nd, &pl);
	int len = p[1]; const uint8_t *ev = p + 2;
	begin_normal();
	for (int i = 0; i < len; i++) {
		if (!apply(ev[i])) { if (i == len - 1) res_printf("N 1\n"); else res_infra("inapplicable event inside a history"); res_finish(); }
		if (res_nviol() && i < len - 1) res_infra("violation before the last event");
	}
	hx_emit_ledger_violations("C19");
	static char dump[1 << 16]; size_t o = hx_dump_tx(dump, sizeof dump);
	for (int b = 0; b < NB; b++) o += (size_t) snprintf(dump + o, sizeof dump - o, "p%d;", S.np[b]);
	o += (size_t) snprintf(dump + o, sizeof dump - o, "st%d po%d", S.stalled, S.pings_outstanding);
	hx_hash_t h; hx_hash_init(&h); hx_hash_add(&h, dump, o);
	res_printf("S %llx %llx\n", (unsigned long long) h.a, (unsigned long long) h.b);
	res_finish();
}
/* ---------------------------------------------------------------- payload sweep */
static void sweep_child(const void *job, size_t n) {
	vs_dev_t devs[VS_MAXDEV]; int nd; size_t pl; const uint8_t *p = job_parse(job, n, devs, &nd, &pl);
	int part = p[0];
	begin_normal();
	long cases = 0; char what[120];
	if (part == 0) for (int v = 0; v < 256 && !res_nviol(); v++) for (int f = 0; f < 2; f++) {
		uint8_t d = (uint8_t) v; expect_mirror(0, f ? MSG_BM_MIRROR_FREE : MSG_BM_MIRROR_OCC, &d, 1);
		sb_send(0, f ? MSG_BM_FREE : MSG_BM_OCC, &d, 1); vs_point(); hx_quiesce(); snprintf(what, sizeof what, "%s detector %d", f ? "free" : "occ", v); check_quiescent(what); cases++;
	}
	if (part == 1) for (int base = 0; base <= 248 && !res_nviol(); base += 8) for (int size = 8; size <= 128 && base + size <= 256; size += 8) for (int pat = 0; pat < (base <= 16 ? 4 : 2); pat++) {     /* every base up to the topmost detector byte: base + size == 256 is legal */
		uint8_t d[20]; d[0] = (uint8_t) base; d[1] = (uint8_t) size;
		for (int i = 0; i < size / 8; i++) d[2 + i] = pat == 0 ? 0x00 : pat == 1 ? 0xFF : pat == 2 ? (uint8_t) (0x55 << (i & 1)) : (uint8_t) (1 << (i & 7));
		expect_mirror(0, MSG_BM_MIRROR_MULTIPLE, d, 2 + size / 8);
		sb_send(0, MSG_BM_MULTIPLE, d, 2 + size / 8); vs_point(); hx_quiesce(); snprintf(what, sizeof what, "multiple base %d size %d pattern %d", base, size, pat); check_quiescent(what); cases++;
	}
	if (part == 2) for (int pos = 0; pos < 5 && !res_nviol(); pos++) for (int v = 0; v < 256; v++) {
		uint8_t d[5] = {0x23, 0x01, 0x00, 0x10, 0x20}; d[pos] = (uint8_t) v;
		expect_mirror(0, MSG_BM_MIRROR_POSITION, d, 5);
		sb_send(0, MSG_BM_POSITION, d, 5); vs_point(); hx_quiesce(); uint8_t *m; while ((m = bidib_read_message())) free(m);
		snprintf(what, sizeof what, "position byte %d = %02x", pos, v); check_quiescent(what); cases++; if (res_nviol()) break;
	}
	res_printf("O %x %x\nC sweep_cases %ld\n", part, 1, cases);
	res_finish();
}
static size_t sweep_gen(long idx, uint8_t *payload, char *human, size_t hn) {
	static const char *pn[3] = {"occ/free all detector numbers", "multiple base x size x pattern", "position five-byte sweeps"};
	payload[0] = (uint8_t) idx; snprintf(human, hn, "%s", pn[idx]); return 1;
}
/* ---------------------------------------------------------------- c19.sched (E1; plain + ASan)
 * The receiver processes occ / free / multiple / position reports of the SecAck board while an application thread drains
 * the user message queue (position reports are also delivered to it and the reader frees them at once) and another one
 * sends and flushes.  All schedules up to the preemption bound: every report still gets exactly one mirror with the reported
 * payload (a mirror built from a buffer that was already handed to the queue is a use-after-free under ASan and a payload
 * difference in the plain build, where freed memory is perturbed). */
#include <malloc.h>
static void *sched_reader(void *arg) { (void) arg; for (int i = 0; i < 5; i++) { uint8_t *m = bidib_read_message(); if (m) { memset(m, 0xEE, 4); free(m); } } return NULL; }
static void *sched_sender(void *arg) { (void) arg; t_bidib_node_address a = {1, 0, 0}; bidib_send_sys_ping(a, 0x77, 0); bidib_flush(); return NULL; }
static void sched_child(const void *job, size_t n) {
	vs_dev_t devs[VS_MAXDEV]; int nd; size_t pl; const uint8_t *p = job_parse(job, n, devs, &nd, &pl);
	int variant = p[0];
	hx_child_begin(devs, nd, 1, NULL, 0, 0);
#ifdef VARIANT_PLAIN
	mallopt(M_PERTURB, 0x5A);
#endif
	cfg_install_std(); SB.on_msg = NULL;
	if (hx_start_normal(0)) res_infra("normal start failed");
	hx_quiesce();
	uint8_t *m; while ((m = bidib_read_message())) free(m); while ((m = bidib_read_error_message())) free(m);
	memset(&S, 0, sizeof S); S.logpos = SB.nlog; SB.on_msg = quiet_bus;
	vs_sleep_us(2500000); hx_quiesce();
	/* the reports, queued as one burst */
	static const int ORDER[2][4] = {{R_POS, R_OCC, R_POS, R_FREE}, {R_MULT8, R_POS, R_OCC, R_POS}};
	for (int i = 0; i < 4; i++) { int r = ORDER[variant][i]; uint8_t d[24]; int dl = 0; uint8_t type = 0; S.counter++;
		switch (r) {
		case R_OCC: d[0] = 1; dl = 1; type = MSG_BM_OCC; expect_mirror(0, MSG_BM_MIRROR_OCC, d, 1); break;
		case R_FREE: d[0] = 1; dl = 1; type = MSG_BM_FREE; expect_mirror(0, MSG_BM_MIRROR_FREE, d, 1); break;
		case R_MULT8: d[0] = 0; d[1] = 8; d[2] = 0x05; dl = 3; type = MSG_BM_MULTIPLE; expect_mirror(0, MSG_BM_MIRROR_MULTIPLE, d, 3); break;
		default: d[0] = 0x23; d[1] = 0x01; d[2] = 0; d[3] = (uint8_t) (0x30 + i); d[4] = 0x12; dl = 5; type = MSG_BM_POSITION; expect_mirror(0, MSG_BM_MIRROR_POSITION, d, 5); break;
		}
		uint8_t mm[40], f[90]; int ml = rc_build_msg(mm, SB.n[0].addr, 0, type, d, dl); env_push_quiet(f, rc_frame(f, mm, (size_t) ml, 1)); }
	vs_window(1);
	int t1 = vs_spawn(sched_reader, NULL), t2 = vs_spawn(sched_sender, NULL);
	vs_join_tid(t1); vs_join_tid(t2); hx_quiesce();
	vs_window(0);
	bidib_flush(); hx_quiesce();
	while ((m = bidib_read_message())) free(m);
	hx_emit_san_events("c19.sched");
	check_quiescent("after the burst of reports with concurrent queue reader and sender");
	for (int b = 0; b < NB; b++) if (S.np[b]) res_violation("mirror-missing-after-burst", "%d mirror(s) still outstanding for %s", S.np[b], BNAME[b]);
	hx_emit_ledger_violations("C19");
	hx_hash_t h; hx_hash_init(&h); for (int i = 0; i < SB.nlog; i++) if (is_mirror(SB.log[i].type)) { hx_hash_add(&h, &SB.log[i].type, 1); hx_hash_add(&h, SB.log[i].data, (size_t) SB.log[i].dlen); }
	res_printf("O %llx %llx\n", (unsigned long long) h.a, (unsigned long long) h.b);
	hx_emit_trace(); res_finish();
}

/* ---------------------------------------------------------------- c19.packets: several messages in ONE uplink packet
 * Every sequence of 1..3 messages over an alphabet of seven — the four report kinds from the SecAck board, an occupancy
 * report from a board without SecAck, a non-report message from the SecAck board (confidence) and a message from a third
 * board — framed as one packet.  After the packet has been processed every report of the SecAck board has its mirror on the
 * wire (not in the send buffer), whatever the last message of the packet was. */
static void packets_child(const void *job, size_t n) {
	vs_dev_t devs[VS_MAXDEV]; int nd; size_t pl; const uint8_t *p = job_parse(job, n, devs, &nd, &pl);
	int from = 0, count = 0; memcpy(&from, p, 4); memcpy(&count, p + 4, 4);
	begin_normal();
	long cases = 0;
	for (int c = from; c < from + count && !res_nviol(); c++) {
		int len = 1, idx = c; long base = 7; while (idx >= base) { idx -= (int) base; base *= 7; len++; }
		uint8_t payload[200]; int po = 0; char what[160]; size_t wo = (size_t) snprintf(what, sizeof what, "one packet [");
		for (int i = 0; i < len; i++) { int sym = idx % 7; idx /= 7; uint8_t d[8]; int dl = 0; uint8_t type = 0; int b = 0; static const char *SN[7] = {"occ(m)", "free(m)", "multiple(m)", "position(m)", "occ(oc1)", "confidence(m)", "pong(lc1)"};
			switch (sym) {
			case 0: d[0] = (uint8_t) (1 + i); dl = 1; type = MSG_BM_OCC; expect_mirror(0, MSG_BM_MIRROR_OCC, d, 1); break;
			case 1: d[0] = (uint8_t) (1 + i); dl = 1; type = MSG_BM_FREE; expect_mirror(0, MSG_BM_MIRROR_FREE, d, 1); break;
			case 2: d[0] = 0; d[1] = 8; d[2] = (uint8_t) (0x11 << i); dl = 3; type = MSG_BM_MULTIPLE; expect_mirror(0, MSG_BM_MIRROR_MULTIPLE, d, 3); break;
			case 3: d[0] = 0x23; d[1] = 0x01; d[2] = 0; d[3] = (uint8_t) (0x40 + i); d[4] = 0x12; dl = 5; type = MSG_BM_POSITION; expect_mirror(0, MSG_BM_MIRROR_POSITION, d, 5); break;
			case 4: d[0] = 0; dl = 1; type = MSG_BM_OCC; b = 1; break;
			case 5: d[0] = 0; d[1] = 0; d[2] = 1; dl = 3; type = MSG_BM_CONFIDENCE; break;
			default: d[0] = 9; dl = 1; type = MSG_SYS_PONG; b = 2; break;
			}
			uint8_t seq = SB.n[b].seq; SB.n[b].seq = seq == 255 ? 1 : (uint8_t) (seq + 1);
			po += rc_build_msg(payload + po, SB.n[b].addr, seq, type, d, dl);
			wo += (size_t) snprintf(what + wo, sizeof what - wo, "%s%s", i ? ", " : "", SN[sym]); }
		snprintf(what + wo, sizeof what - wo, "]");
		uint8_t f[500]; size_t fl = rc_frame(f, payload, (size_t) po, 1); env_push_quiet(f, fl); vs_point(); hx_quiesce();
		uint8_t *m; while ((m = bidib_read_message())) free(m);
		check_quiescent(what); cases++;
		vs_sleep_us(2500000); hx_quiesce();
	}
	res_printf("O %x %x\nC packet_cases %ld\n", from, count, cases);
	res_finish();
}
/* ---------------------------------------------------------------- c19.relogin: "to that board" means its CURRENT address
 * Standard configuration with SecAck also enabled on the leaf board lc1 (feature 0x03 = 1).  E2 over: the four report kinds from
 * lc1, lost(lc1), new(lc1 at its old / another local address), a new-node notice without a lost one (board moved), a system reset,
 * a report from the interface.  After every event each report of a connected SecAck board has exactly one mirror, addressed to the
 * address the board has NOW, with the reported payload; nothing else is mirrored. */
enum { RL_REP0, RL_LOST = 4, RL_NEW2, RL_NEW7, RL_MOVE7, RL_MOVE2, RL_RESET, RL_MASTER, RL_LOSTHUB, RL_NEWHUB, RL_OC1REP, RL_OC1TAKE, RL_N };
static const char *rl_evname(int ev) { static const char *n[RL_N] = {"occ from lc1", "free from lc1", "multiple8 from lc1", "position from lc1", "lost(lc1)", "new(lc1 local 2)", "new(lc1 local 7)", "new-without-lost(lc1 local 7)", "new-without-lost(lc1 local 2)", "bidib_send_sys_reset", "occ from master", "lost(hub booster2)", "new(hub booster2)", "occ from oc1 (no SecAck)", "oc1 logs in at lc1's last address"}; return n[ev]; }
static struct { int lc, present, logpos, counter, hub, hub_present, oc, lc_local; uint8_t last_rep[4]; } RL;   /* last_rep: the address the last report came from (part of the state key: a look-up may remember it) */ static cm_model_t RLM;
static void rl_expect(int node, uint8_t mtype, const uint8_t *d, int dl, const char *what) {
	int found = 0;
	for (; RL.logpos < SB.nlog; RL.logpos++) { if (!is_mirror(SB.log[RL.logpos].type)) continue;
		if (found || node < 0) { res_violation("mirror-duplicated-or-spurious: more mirror messages than reports", "%s: type %02x to %02x.%02x.%02x", what, SB.log[RL.logpos].type, SB.log[RL.logpos].addr[0], SB.log[RL.logpos].addr[1], SB.log[RL.logpos].addr[2]); continue; }
		found = 1;
		if (memcmp(SB.log[RL.logpos].addr, SB.n[node].addr, 4)) res_violation("mirror-misaddressed: the mirror did not go to the current address of the reporting board", "%s: mirror to %02x.%02x.%02x, board is at %02x.%02x.%02x", what, SB.log[RL.logpos].addr[0], SB.log[RL.logpos].addr[1], SB.log[RL.logpos].addr[2], SB.n[node].addr[0], SB.n[node].addr[1], SB.n[node].addr[2]);
		else if (SB.log[RL.logpos].type != mtype || SB.log[RL.logpos].dlen != dl || memcmp(SB.log[RL.logpos].data, d, (size_t) dl)) { char cls[160]; snprintf(cls, sizeof cls, "mirror-payload-differs type=%02x: the mirror does not carry the reported detector number / payload", mtype); res_violation(cls, "%s: mirror %02x %s", what, SB.log[RL.logpos].type, hx_hex(SB.log[RL.logpos].data, (size_t) SB.log[RL.logpos].dlen)); }
	}
	if (node >= 0 && !found) { char cls[160]; snprintf(cls, sizeof cls, "mirror-missing type=%02x: a report of a SecAck board was not answered with a mirror message", mtype); res_violation(cls, "%s%s", what, vx_send_buffer_index() ? " (something waits unflushed in the send buffer)" : ""); }
}
static void rl_report(int node, int r, const char *what) {
	uint8_t d[8]; int dl = 0; uint8_t type = 0, mt = 0; RL.counter++;
	switch (r) {
	case 0: d[0] = 1; dl = 1; type = MSG_BM_OCC; mt = MSG_BM_MIRROR_OCC; break;
	case 1: d[0] = 1; dl = 1; type = MSG_BM_FREE; mt = MSG_BM_MIRROR_FREE; break;
	case 2: d[0] = 0; d[1] = 8; d[2] = (uint8_t) (0x01 | (RL.counter << 1)); dl = 3; type = MSG_BM_MULTIPLE; mt = MSG_BM_MIRROR_MULTIPLE; break;
	default: d[0] = 0x23; d[1] = 0x01; d[2] = 0; d[3] = 0x34; d[4] = 0x12; dl = 5; type = MSG_BM_POSITION; mt = MSG_BM_MIRROR_POSITION; break;
	}
	sb_send(node, type, d, dl); vs_point(); hx_quiesce(); memcpy(RL.last_rep, SB.n[node].addr, 4);
	uint8_t *m; while ((m = bidib_read_message())) free(m);
	rl_expect(node, mt, d, dl, what);
}
static int rl_apply(int ev) {
	const char *what = rl_evname(ev); uint8_t d[9];
	if (ev < RL_LOST) { if (!RL.present) return 0; rl_report(RL.lc, ev, what); return 1; }
	if (ev == RL_MASTER) { rl_report(0, 0, what); return 1; }
	if (ev == RL_OC1REP) {      /* a board without SecAck: never mirrored, wherever it sits and whoever sat there before */
		uint8_t dd = 0; sb_send(RL.oc, MSG_BM_OCC, &dd, 1); vs_point(); hx_quiesce(); memcpy(RL.last_rep, SB.n[RL.oc].addr, 4); uint8_t *m; while ((m = bidib_read_message())) free(m);
		rl_expect(-1, 0, NULL, 0, what); return 1; }
	if (ev == RL_OC1TAKE) {     /* lc1 is gone; oc1 appears at the address lc1 had (moved by hand, announced by the interface) */
		if (RL.present || SB.n[RL.oc].local == RL.lc_local || SB.nn >= SB_MAXNODES - 1) return 0;
		SB.n[RL.oc].present = 0; RL.oc = sb_add_node(0, (uint8_t) RL.lc_local, RLM.b[1].uid);
		d[0] = ++SB.n[0].tab_version; d[1] = (uint8_t) RL.lc_local; memcpy(d + 2, RLM.b[1].uid, 7); sb_send(0, MSG_NODE_NEW, d, 9);
	} else
	if (ev == RL_LOSTHUB || ev == RL_NEWHUB) {     /* another interface-class board (no children) leaves / returns: nothing changes for the SecAck boards */
		int lost = ev == RL_LOSTHUB; if (lost != RL.hub_present) return 0;
		if (lost) { SB.n[RL.hub].present = 0; RL.hub_present = 0; } else { if (SB.nn >= SB_MAXNODES - 1) return 0; RL.hub = sb_add_node(0, RLM.b[3].local, RLM.b[3].uid); RL.hub_present = 1; }
		d[0] = ++SB.n[0].tab_version; d[1] = RLM.b[3].local; memcpy(d + 2, RLM.b[3].uid, 7); sb_send(0, lost ? MSG_NODE_LOST : MSG_NODE_NEW, d, 9);
	} else
	if (ev == RL_LOST) { if (!RL.present) return 0; SB.n[RL.lc].present = 0; RL.present = 0; d[0] = ++SB.n[0].tab_version; d[1] = SB.n[RL.lc].local; memcpy(d + 2, RLM.b[2].uid, 7); sb_send(0, MSG_NODE_LOST, d, 9); }
	else if (ev == RL_RESET) {
		/* the reset makes the library ask every detector board for its occupancy (MSG_BM_GET_RANGE); the simulated boards answer
		 * with one MSG_BM_MULTIPLE each, which is a report like any other: one mirror per request to a SecAck board, none else */
		bidib_send_sys_reset(0); hx_quiesce(); uint8_t *m; while ((m = bidib_read_message())) free(m);
		for (int nd2 = 0; nd2 < SB.nn; nd2++) { int req = 0, mir = 0; int sec = nd2 == 0 || (RL.present && nd2 == RL.lc);
			for (int i = RL.logpos; i < SB.nlog; i++) if (!memcmp(SB.log[i].addr, SB.n[nd2].addr, 4) && SB.n[nd2].present) { if (SB.log[i].type == MSG_BM_GET_RANGE) req++; if (is_mirror(SB.log[i].type)) { mir++; if (SB.log[i].type != MSG_BM_MIRROR_MULTIPLE) mir += 100; } }
			if (mir != (sec ? req : 0)) res_violation("mirror-count-after-reset: the occupancy answers after a system reset are not mirrored exactly once to SecAck boards only", "%s: node %02x.%02x.%02x: %d range requests, %d mirrors, SecAck %d", what, SB.n[nd2].addr[0], SB.n[nd2].addr[1], SB.n[nd2].addr[2], req, mir, sec); }
		RL.logpos = SB.nlog; return 1;
	}
	else {
		uint8_t local = (ev == RL_NEW2 || ev == RL_MOVE2) ? 2 : 7; int move = ev == RL_MOVE7 || ev == RL_MOVE2;
		if (move != RL.present) return 0;
		if (move) { if (SB.n[RL.lc].local == local) return 0; SB.n[RL.lc].present = 0; }
		if (SB.nn >= SB_MAXNODES - 1) return 0;
		if (SB.n[RL.oc].present && SB.n[RL.oc].local == local) return 0;
		RL.lc = sb_add_node(0, local, RLM.b[2].uid); RL.present = 1; RL.lc_local = local;
		d[0] = ++SB.n[0].tab_version; d[1] = local; memcpy(d + 2, RLM.b[2].uid, 7); sb_send(0, MSG_NODE_NEW, d, 9);
	}
	vs_point(); hx_quiesce(); uint8_t *m; while ((m = bidib_read_message())) free(m);
	rl_expect(-1, 0, NULL, 0, what);
	return 1;
}
static void relogin_child(const void *job, size_t n) {
	vs_dev_t devs[VS_MAXDEV]; int nd; size_t pl; const uint8_t *p = job_parse(job, n, devs, &nd, &pl);
	int len = p[1]; const uint8_t *ev = p + 2;
	hx_child_begin(NULL, 0, 0, NULL, 0, 0);
	cm_std(&RLM); RLM.b[2].nfeatures = 1; RLM.b[2].features[0] = (cm_feature_t) {0x03, 0x01}; RLM.b[3].uid[0] |= 0x80;     /* booster2 is of the interface class: a hub without children */
	cm_install(&RLM);
	if (hx_start_normal(0)) res_infra("normal start failed");
	hx_quiesce();
	uint8_t *m; while ((m = bidib_read_message())) free(m); while ((m = bidib_read_error_message())) free(m);
	memset(&RL, 0, sizeof RL); RL.lc = RLM.b[2].sbnode; RL.present = 1; RL.hub = RLM.b[3].sbnode; RL.hub_present = 1; RL.oc = RLM.b[1].sbnode; RL.lc_local = SB.n[RL.lc].local; vs_sleep_us(2500000); hx_quiesce(); RL.logpos = SB.nlog;
	for (int i = 0; i < len; i++) {
		if (!rl_apply(ev[i])) { if (i == len - 1) res_printf("N 1\n"); else res_infra("inapplicable event inside a history"); res_finish(); }
		if (res_nviol() && i < len - 1) res_infra("violation before the last event");
		vs_sleep_us(2500000); hx_quiesce();
	}
	hx_emit_ledger_violations("C19");
	char dump[300]; t_bidib_node_address_query aq = bidib_get_nodeaddr("lc1");
	size_t o = (size_t) snprintf(dump, sizeof dump, "r%02x%02x o%d h%d m%d p%d l%d c%d a%02x%02x%02x v%d", RL.last_rep[0], RL.last_rep[1], SB.n[RL.oc].local, RL.hub_present, bidib_get_board_connected("master"), RL.present, RL.present ? SB.n[RL.lc].local : 0, bidib_get_board_connected("lc1"), aq.address.top, aq.address.sub, aq.address.subsub, SB.n[0].tab_version);
	hx_hash_t h; hx_hash_init(&h); hx_hash_add(&h, dump, o);
	res_printf("S %llx %llx\n", (unsigned long long) h.a, (unsigned long long) h.b);
	res_finish();
}
/* ---------------------------------------------------------------- c19.startup: the flag comes from the CONFIGURATION
 * Start-up against nodes that answer the feature handshake unusually — per node (master 0x03=0x14, oc1 0x03=0): as requested,
 * the SecAck feature refused / granted differently (value flipped between 0 and non-zero), every feature answered differently, the
 * SecAck answer sent twice, every answer sent twice — all 25 combinations; then one report of each kind from each of the three
 * boards.  Mirrors follow the configured feature values whatever the nodes answered. */
static int su_mode[2];
static int su_hook(int node, const rc_msg_t *m) {
	if (m->type != MSG_FEATURE_SET || node < 0 || node > 1 || m->dlen < 2) return 0;
	int mode = su_mode[node]; uint8_t d[2] = {m->data[0], m->data[1]};
	if ((mode == 1 && d[0] == 0x03) || mode == 2) d[1] = d[1] ? 0 : 1;
	sb_send(node, MSG_FEATURE, d, 2);
	if ((mode == 3 && d[0] == 0x03) || mode == 4) sb_send(node, MSG_FEATURE, d, 2);
	return 1;
}
static void startup_child(const void *job, size_t n) {
	vs_dev_t devs[VS_MAXDEV]; int nd; size_t pl; const uint8_t *p = job_parse(job, n, devs, &nd, &pl);
	su_mode[0] = p[0] % 5; su_mode[1] = p[0] / 5;
	hx_child_begin(NULL, 0, 0, NULL, 0, 0);
	cfg_install_std(); SB.on_msg = su_hook;
	if (hx_start_normal(0)) res_infra("normal start failed");
	hx_quiesce();
	uint8_t *m; while ((m = bidib_read_message())) free(m); while ((m = bidib_read_error_message())) free(m);
	memset(&S, 0, sizeof S); S.logpos = SB.nlog; SB.on_msg = quiet_bus;
	vs_sleep_us(2500000); hx_quiesce();
	static const char *MN[5] = {"as requested", "0x03 answered with the opposite", "every feature answered differently", "0x03 answered twice", "every answer twice"};
	for (int b = 0; b < NB && !res_nviol(); b++) for (int r = 0; r < R_N; r++) {
		char what[200]; snprintf(what, sizeof what, "feature answers master: %s, oc1: %s; then %s", MN[su_mode[0]], MN[su_mode[1]], evname(b * R_N + r));
		report(b, r, what);
	}
	for (int b = 0; b < NB; b++) if (S.np[b]) res_violation("mirror-missing-after-startup-variant", "%d mirror(s) outstanding for %s", S.np[b], BNAME[b]);
	hx_emit_ledger_violations("C19");
	hx_hash_t h; hx_hash_init(&h); for (int i = 0; i < SB.nlog; i++) if (is_mirror(SB.log[i].type)) { hx_hash_add(&h, SB.log[i].addr, 4); hx_hash_add(&h, &SB.log[i].type, 1); hx_hash_add(&h, SB.log[i].data, (size_t) SB.log[i].dlen); }
	res_printf("O %llx %llx\nC startup_variant_reports %d\n", (unsigned long long) h.a, (unsigned long long) h.b, NB * R_N);
	res_finish();
}
static size_t startup_gen(long idx, uint8_t *payload, char *human, size_t hn) { payload[0] = (uint8_t) idx; snprintf(human, hn, "feature handshake variant master=%ld oc1=%ld", idx % 5, idx / 5); return 1; }
static size_t packets_gen(long idx, uint8_t *payload, char *human, size_t hn) {
	int from = (int) idx * 57, count = 57; if (from + count > 399) count = 399 - from;
	memcpy(payload, &from, 4); memcpy(payload + 4, &count, 4); snprintf(human, hn, "multi-message packets %d..%d", from, from + count - 1); return 8;
}
void c19_register(void) { harness_register("c19.packets", packets_child); harness_register("c19.hist", hist_child); harness_register("c19.sweep", sweep_child); harness_register("c19.sched", sched_child); harness_register("c19.startup", startup_child); harness_register("c19.relogin", relogin_child); }
int c19_run(const char *tier) {
	int thorough = !strcmp(tier, "thorough");
	const char *variant = getenv("VERIF_VARIANT"); int asan = variant && !strcmp(variant, "asan");
	long sch = 0, sch_states = 0, sch_cp = 0; int sch_ex = 1;
	int defvar = variant && (!strcmp(variant, "autop") || !strcmp(variant, "autoz"));      /* the schedule harness is not repeated in the definedness builds */
	for (int v4 = 0; v4 < (defvar ? 0 : 4); v4++) { int v = v4 % 2, up = v4 >= 2;      /* second round: a scheduling point after every unlock as well */
		uint8_t sp[1] = {(uint8_t) v}; char label[96]; snprintf(label, sizeof label, "c19.sched burst %d%s", v, up ? " (points after unlocks)" : "");
		e1_spec_t es = { .harness = "c19.sched", .param = sp, .nparam = 1, .bound = thorough ? 2 : 1, .label = strdup(label), .unlock_points = up };
		e1_explore(&es); for (int k = 0; k < 8; k++) sch += es.schedules_by_cost[k]; sch_states += es.distinct_outcomes; sch_cp += es.choice_points; if (!es.exhaustive) sch_ex = 0;
		rep_note("%s (receiver || queue reader || sender): bound=%d completed=%d schedules by cost=[%ld,%ld,%ld,%ld] distinct outcomes=%ld contended=%ld", label, es.bound, es.completed_bound, es.schedules_by_cost[0], es.schedules_by_cost[1], es.schedules_by_cost[2], es.schedules_by_cost[3], es.distinct_outcomes, es.contended_execs); }
	if (asan) { rep_count("states", sch_states); rep_count("transitions", sch_cp); rep_count("executions", sch); rep_flag("exhaustive", sch_ex); return 0; }   /* the ASan build runs the schedule harness only */
	uint8_t param0[1] = {0};
	ex_spec_t sw = { .harness = "c19.sweep", .ncases = 3, .gen = sweep_gen, .label = "c19.sweep" };
	ex_map(&sw);
	ex_spec_t pkts = { .harness = "c19.packets", .ncases = 7, .gen = packets_gen, .label = "c19.packets" };
	ex_map(&pkts); sw.done += pkts.done; if (!pkts.exhaustive) sw.exhaustive = 0;
	ex_spec_t su = { .harness = "c19.startup", .ncases = 25, .gen = startup_gen, .label = "c19.startup" };
	ex_map(&su); sw.done += su.done; if (!su.exhaustive) sw.exhaustive = 0;
	rep_note("c19.startup: %ld feature-handshake variants (5 answer modes per SecAck-configured node), %ld reports checked afterwards", su.done, rep_get("startup_variant_reports"));
	e2_spec_t rl = { .harness = "c19.relogin", .param = param0, .nparam = 1, .nevents = RL_N, .max_depth = thorough ? 6 : 4, .label = "c19.relogin", .evname = rl_evname };
	e2_explore(&rl); sw.done += rl.execs; if (!rl.exhaustive) sw.exhaustive = 0;
	rep_note("c19.relogin: SecAck leaf board lost / re-logged in at another address / moved / system reset: %d events, depth %d, %ld states, %ld transitions", RL_N, rl.depth_completed, rl.states, rl.transitions);
	rep_note("c19.packets: %ld multi-message packets (every sequence of 1..3 messages over 7 kinds in one packet)", rep_get("packet_cases"));
	uint8_t param[1] = {0}; const char *d = getenv("VERIF_DEPTH");
	e2_spec_t s = { .harness = "c19.hist", .param = param, .nparam = 1, .nevents = EV_N, .max_depth = d ? atoi(d) : (thorough ? 7 : 5), .label = "c19.hist", .evname = evname };
	e2_explore(&s);
	rep_count("states", s.states + 3 + sch_states + rl.states); rep_count("transitions", s.transitions + rep_get("sweep_cases") + sch_cp + rl.transitions); rep_count("executions", s.execs + sw.done + sch);
	rep_flag("exhaustive", s.exhaustive && sw.exhaustive && sch_ex);
	char sb[200]; size_t o = 0; for (int i = 0; i <= s.depth_completed + 1 && i < 16; i++) o += (size_t) snprintf(sb + o, sizeof sb - o, "%ld ", s.states_by_depth[i]);
	rep_note("c19.hist: %d events, depth completed=%d, new states by depth: %s; payload sweep cases=%ld; observations of mirrors held by flow control=%ld", EV_N, s.depth_completed, sb, rep_get("sweep_cases"), rep_get("mirrors_held_then_released_cases"));
	return 0;
}
