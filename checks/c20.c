/* C20 — start-up (and every system reset) applies the configuration: features to the right boards before SYS_ENABLE,
 * then track outputs on, then every configured initial value exactly once, nothing for absent boards.
 * Exhaustive catalogue: features on any subset of three boards x six initial values on/off x every subset of the three
 * optional boards present x feature answers as requested / different; decoded start-up transcript of the simulated bus. */
#include "../fw/explore.h"
#include "../fw/hx.h"
#include "../fw/simbus.h"
#include "../fw/cfgmodel.h"
#include "include/bidib.h"
#include <stdio.h>
#include <stdlib.h>
#include <string.h>

typedef struct { uint8_t f0, f1, f2; uint8_t initmask; uint8_t presence; uint8_t fxor; uint8_t hub; } c20_case_t;
static long c20_count(void) { return 3L * 3 * 2 * 64 * 8 * 2; }
static void c20_decode(long idx, c20_case_t *c) {
	c->f0 = (uint8_t) (idx % 3); idx /= 3; c->f1 = (uint8_t) (idx % 3); idx /= 3; c->f2 = (uint8_t) (idx % 2); idx /= 2;
	c->initmask = (uint8_t) (idx % 64); idx /= 64; c->presence = (uint8_t) (idx % 8); idx /= 8; c->fxor = (uint8_t) (idx % 2); c->hub = 0;
}
static void build(cm_model_t *m, const c20_case_t *c) {
	cm_std(m);
	m->b[0].nfeatures = c->f0; m->b[1].nfeatures = c->f1; if (c->f1 == 2) m->b[1].features[1] = (cm_feature_t) {0x2C, 0x05};
	m->b[2].nfeatures = c->f2; if (c->f2) m->b[2].features[0] = (cm_feature_t) {0x65, 0x01};
	if (!(c->initmask & 1)) m->b[0].pd[0].initial[0] = 0;
	if (!(c->initmask & 2)) m->b[1].pb[0].initial[0] = 0;
	if (!(c->initmask & 4)) m->b[2].sb[0].initial[0] = 0;
	if (!(c->initmask & 8)) m->b[2].per[0].initial[0] = 0;
	m->t[0].per[0].has_initial = (c->initmask & 16) != 0; m->t[0].per[1].has_initial = (c->initmask & 16) != 0;
	m->t[1].per[0].has_initial = (c->initmask & 32) != 0; m->t[1].per[0].initial = 1;
	for (int i = 1; i <= 3; i++) m->b[i].present = (c->presence >> (i - 1)) & 1;
	/* tree variant: oc1 (hub & 1) / booster2 (hub & 2) sit beneath a hub that the configuration does not mention */
	if (c->hub & 1) m->b[1].hub_local = 9; if (c->hub & 2) m->b[3].hub_local = 9;
}
static int msg_eq(const cm_msg_t *e, int li) {
	return !memcmp(e->addr, SB.log[li].addr, 4) && e->type == SB.log[li].type && e->dlen == SB.log[li].dlen && !memcmp(e->data, SB.log[li].data, (size_t) e->dlen);
}
static void check_segment(const cm_model_t *m, int from, int to, const char *what) {
	int idx_enable = -1;
	for (int i = from; i < to; i++) if (SB.log[i].type == MSG_SYS_ENABLE) { idx_enable = i; break; }
	if (idx_enable < 0) { res_violation("no-sys-enable: the system was not enabled", "%s", what); return; }
	/* nothing is addressed to a node that is not there */
	for (int i = from; i < to; i++) if (sb_find(SB.log[i].addr) < 0) { res_violation("message-to-absent-node: something was commanded for a board that is not connected", "%s: type %02x to %02x.%02x.%02x", what, SB.log[i].type, SB.log[i].addr[0], SB.log[i].addr[1], SB.log[i].addr[2]); break; }
	/* (1) features */
	cm_msg_t exp[256]; int ne = 0;
	for (int b = 0; b < m->nb; b++) if (cm_board_connected(m, b)) for (int k = 0; k < m->b[b].nfeatures; k++) {
		cm_board_addr(m, b, exp[ne].addr); exp[ne].type = MSG_FEATURE_SET; exp[ne].data[0] = m->b[b].features[k].number; exp[ne].data[1] = m->b[b].features[k].value; exp[ne].dlen = 2; ne++; }
	int used[256]; memset(used, 0, sizeof used);
	for (int i = from; i < to; i++) if (SB.log[i].type == MSG_FEATURE_SET) {
		int hit = -1; for (int k = 0; k < ne; k++) if (!used[k] && msg_eq(&exp[k], i)) { hit = k; break; }
		if (hit < 0) res_violation("feature-set-wrong: a feature setting went to a node it is not configured for, or twice", "%s: FEATURE_SET %s to %02x.%02x.%02x", what, hx_hex(SB.log[i].data, (size_t) SB.log[i].dlen), SB.log[i].addr[0], SB.log[i].addr[1], SB.log[i].addr[2]);
		else { used[hit] = 1; if (i > idx_enable) res_violation("feature-set-after-enable: a feature was set after the system had been enabled", "%s", what); }
	}
	for (int k = 0; k < ne; k++) if (!used[k]) { res_violation("feature-set-missing: a configured feature of a connected board was not sent", "%s: feature %02x=%02x for %02x.%02x.%02x", what, exp[k].data[0], exp[k].data[1], exp[k].addr[0], exp[k].addr[1], exp[k].addr[2]); break; }
	/* (2) track outputs on, after enable */
	int last_go = idx_enable;
	for (int b = 0; b < m->nb; b++) if (cm_board_connected(m, b) && cm_is_track_output(&m->b[b])) {
		uint8_t a[4]; cm_board_addr(m, b, a); int cnt = 0;
		for (int i = from; i < to; i++) if (SB.log[i].type == MSG_CS_SET_STATE && SB.log[i].dlen == 1 && SB.log[i].data[0] == 0x03 && !memcmp(SB.log[i].addr, a, 4)) { cnt++; if (i < idx_enable) res_violation("track-on-before-enable", "%s", what); if (i > last_go) last_go = i; }
		if (cnt != 1) res_violation("track-output-on-count: a connected track output was not switched on exactly once", "%s: board %s GO commands=%d", what, m->b[b].id, cnt);
	}
	/* (3) initial values, each exactly once, after the track outputs are on */
	ne = 0;
	for (int b = 0; b < m->nb; b++) {
		for (int i = 0; i < m->b[b].npb; i++) if (m->b[b].pb[i].initial[0]) { int n = cm_ref_board_accessory(m, 1, m->b[b].pb[i].id, m->b[b].pb[i].initial, &exp[ne]); if (n > 0) ne += n; }
		for (int i = 0; i < m->b[b].npd; i++) if (m->b[b].pd[i].initial[0]) { int n = cm_ref_dcc_accessory(m, 1, m->b[b].pd[i].id, m->b[b].pd[i].initial, &exp[ne]); if (n > 0) ne += n; }
		for (int i = 0; i < m->b[b].nsb; i++) if (m->b[b].sb[i].initial[0]) { int n = cm_ref_board_accessory(m, 0, m->b[b].sb[i].id, m->b[b].sb[i].initial, &exp[ne]); if (n > 0) ne += n; }
		for (int i = 0; i < m->b[b].nsd; i++) if (m->b[b].sd[i].initial[0]) { int n = cm_ref_dcc_accessory(m, 0, m->b[b].sd[i].id, m->b[b].sd[i].initial, &exp[ne]); if (n > 0) ne += n; }
		for (int i = 0; i < m->b[b].nper; i++) if (m->b[b].per[i].initial[0]) { int n = cm_ref_peripheral(m, m->b[b].per[i].id, m->b[b].per[i].initial, &exp[ne]); if (n > 0) ne += n; }
	}
	for (int t = 0; t < m->nt; t++) { uint32_t fb = 0;
		for (int k = 0; k < m->t[t].nper; k++) if (m->t[t].per[k].has_initial) {
			for (int b = 0; b < m->nb; b++) if (cm_board_connected(m, b) && cm_is_track_output(&m->b[b])) {
				int n = cm_ref_train_peripheral(m, m->t[t].id, m->t[t].per[k].id, m->t[t].per[k].initial, m->b[b].id, fb, &exp[ne]); if (n > 0) ne += n; }
			fb = (fb & ~(1u << m->t[t].per[k].bit)) | ((uint32_t) m->t[t].per[k].initial << m->t[t].per[k].bit);
		} }
	memset(used, 0, sizeof used);
	for (int i = from; i < to; i++) {
		uint8_t ty = SB.log[i].type;
		int relevant = ty == MSG_ACCESSORY_SET || ty == MSG_CS_ACCESSORY || ty == MSG_LC_OUTPUT || (ty == MSG_CS_DRIVE && SB.log[i].dlen == 9 && (SB.log[i].data[3] & 0x3E));
		if (!relevant) continue;
		int hit = -1; for (int k = 0; k < ne; k++) if (!used[k] && msg_eq(&exp[k], i)) { hit = k; break; }
		if (hit < 0) { char cls[160]; snprintf(cls, sizeof cls, "initial-value-unexpected type=%02x: a command was sent that no configured initial value prescribes (wrong encoding, wrong board, or repeated)", ty);
			res_violation(cls, "%s: %02x %s to %02x.%02x.%02x", what, ty, hx_hex(SB.log[i].data, (size_t) SB.log[i].dlen), SB.log[i].addr[0], SB.log[i].addr[1], SB.log[i].addr[2]); }
		else { used[hit] = 1; if (i < last_go) res_violation("initial-value-before-track-on: an initial value was commanded before the track outputs were switched on", "%s: type %02x", what, ty); }
	}
	for (int k = 0; k < ne; k++) if (!used[k]) { char cls[160]; snprintf(cls, sizeof cls, "initial-value-missing type=%02x: a configured initial value of connected equipment was not commanded", exp[k].type);
		res_violation(cls, "%s: expected %02x %s to %02x.%02x.%02x", what, exp[k].type, hx_hex(exp[k].data, (size_t) exp[k].dlen), exp[k].addr[0], exp[k].addr[1], exp[k].addr[2]); break; }
}
static void c20_child(const void *job, size_t n) {
	vs_dev_t devs[VS_MAXDEV]; int nd; size_t pl; const uint8_t *p = job_parse(job, n, devs, &nd, &pl);
	uint32_t start, count; memcpy(&start, p, 4); memcpy(&count, p + 4, 4);
	if (count != 1) res_infra("c20 runs one case per child");
	c20_case_t c; c20_decode(start, &c);
	static cm_model_t m; build(&m, &c);
	hx_child_begin(NULL, 0, 0, NULL, 0, 120ull * 1000000ull);
	cm_install(&m);
	for (int i = 0; i < SB.nn; i++) SB.n[i].feature_xor = c.fxor;
	int rc = hx_start_normal(0); hx_quiesce();
	if (rc) res_violation("start-failed", "bidib_start_pointer returned %d", rc);
	else {
		int reset_at = 0; for (int i = 0; i < SB.nlog; i++) if (SB.log[i].type == MSG_SYS_RESET) reset_at = i;
		check_segment(&m, reset_at, SB.nlog, "start-up");
		int mark = SB.nlog;
		if (!res_nviol()) { bidib_send_sys_reset(0); hx_quiesce(); check_segment(&m, mark, SB.nlog, "after bidib_send_sys_reset"); }
	}
	hx_emit_ledger_violations("C20");
	hx_hash_t h; hx_hash_init(&h); for (int i = 0; i < SB.nlog; i++) { hx_hash_add(&h, SB.log[i].addr, 4); hx_hash_add(&h, &SB.log[i].type, 1); hx_hash_add(&h, SB.log[i].data, (size_t) SB.log[i].dlen); }
	res_printf("O %llx %llx\n", (unsigned long long) h.a, (unsigned long long) h.b);
	res_finish();
}
/* c20.hub: the same start-up check with boards beneath an unconfigured hub (features x initial values x presence) */
static void hub_child(const void *job, size_t n) {
	vs_dev_t devs[VS_MAXDEV]; int nd; size_t pl; const uint8_t *p = job_parse(job, n, devs, &nd, &pl);
	c20_case_t c = { 1, (uint8_t) (1 + p[0] % 2), 1, (uint8_t) (p[0] & 2 ? 0x3F : 0x15), (uint8_t) (p[1] & 7), 0, (uint8_t) (1 + p[0] / 4 % 3) };
	static cm_model_t m; build(&m, &c);
	hx_child_begin(NULL, 0, 0, NULL, 0, 120ull * 1000000ull);
	cm_install(&m);
	int rc = hx_start_normal(0); hx_quiesce();
	char what[100]; snprintf(what, sizeof what, "start-up, %s%s beneath an unconfigured hub", c.hub & 1 ? "oc1 " : "", c.hub & 2 ? "booster2" : "");
	if (rc) res_violation("start-failed", "bidib_start_pointer returned %d", rc);
	else { int reset_at = 0; for (int i = 0; i < SB.nlog; i++) if (SB.log[i].type == MSG_SYS_RESET) reset_at = i; check_segment(&m, reset_at, SB.nlog, what); }
	hx_emit_ledger_violations("C20");
	hx_hash_t h; hx_hash_init(&h); for (int i = 0; i < SB.nlog; i++) { hx_hash_add(&h, SB.log[i].addr, 4); hx_hash_add(&h, &SB.log[i].type, 1); hx_hash_add(&h, SB.log[i].data, (size_t) SB.log[i].dlen); }
	res_printf("O %llx %llx\n", (unsigned long long) h.a, (unsigned long long) h.b);
	res_finish();
}
/* c20.spelling: the same numbers written differently — byte-sized values in decimal and in decimal with leading zeros (010 is
 * ten, not eight): the transcript must be the one of the hexadecimal spelling */
static void spelling_child(const void *job, size_t n) {
	vs_dev_t devs[VS_MAXDEV]; int nd; size_t pl; const uint8_t *p = job_parse(job, n, devs, &nd, &pl);
	c20_case_t c = { 2, 2, 1, 0x3F, (uint8_t) (p[0] & 7), 0, 0 };
	static cm_model_t m; build(&m, &c); m.num_style = (1 + p[0] / 8) % 3; m.reverse_boards = p[0] >= 16;      /* cases 16..23: hexadecimal, boards listed in reverse order */
	if (p[0] >= 24) {     /* cases 24..27: a train with a function on every slot, all with an initial value, listed in ascending / descending bit order:
		                 * every group byte of the start-up commands carries the functions switched on before (bit 31 first is the hard order) */
		m.num_style = 0; m.reverse_boards = 0; c.presence = (uint8_t) (p[0] & 1 ? 3 : 7); build(&m, &c); cm_add_function_train(&m);
		cm_train_t *ft = &m.t[m.nt - 1]; for (int k = 0; k < ft->nper; k++) { ft->per[k].has_initial = 1; ft->per[k].initial = 1; }
		if (p[0] & 2) for (int a = 0, b = ft->nper - 1; a < b; a++, b--) { cm_tper_t tmp = ft->per[a]; ft->per[a] = ft->per[b]; ft->per[b] = tmp; } }
	/* values that differ between decimal, octal and hexadecimal reading */
	m.b[0].features[1] = (cm_feature_t) {0x65, 10}; m.b[1].features[0] = (cm_feature_t) {0x0C, 0x10}; m.b[1].features[1] = (cm_feature_t) {0x2C, 0x63};
	hx_child_begin(NULL, 0, 0, NULL, 0, 120ull * 1000000ull);
	cm_install(&m);
	int rc = hx_start_normal(0); hx_quiesce();
	char what[140]; snprintf(what, sizeof what, "start-up, byte values written in decimal%s", m.num_style == 2 ? " with leading zeros" : "");
	if (m.reverse_boards) snprintf(what, sizeof what, "start-up, boards listed in reverse order in the configuration (presence mask %d)", c.presence);
	if (p[0] >= 24) snprintf(what, sizeof what, "start-up, train with an initial value on every function slot, listed in %s bit order (presence mask %d)", p[0] & 2 ? "descending" : "ascending", c.presence);
	if (rc) res_violation("start-failed", "%s: bidib_start_pointer returned %d", what, rc);
	else { int reset_at = 0; for (int i = 0; i < SB.nlog; i++) if (SB.log[i].type == MSG_SYS_RESET) reset_at = i; check_segment(&m, reset_at, SB.nlog, what); }
	hx_emit_ledger_violations("C20");
	hx_hash_t h; hx_hash_init(&h); for (int i = 0; i < SB.nlog; i++) { hx_hash_add(&h, SB.log[i].addr, 4); hx_hash_add(&h, &SB.log[i].type, 1); hx_hash_add(&h, SB.log[i].data, (size_t) SB.log[i].dlen); }
	res_printf("O %llx %llx\n", (unsigned long long) h.a, (unsigned long long) h.b);
	res_finish();
}
static size_t spelling_gen(long idx, uint8_t *payload, char *human, size_t hn) { payload[0] = (uint8_t) idx; if (idx >= 24) snprintf(human, hn, "train with initial values on every function slot, variant %ld", idx - 24); else if (idx >= 16) snprintf(human, hn, "boards listed in reverse order, presence mask %ld", idx % 8); else snprintf(human, hn, "byte values in decimal%s, presence mask %ld", idx / 8 ? " with leading zeros" : "", idx % 8); return 1; }
static size_t hub_gen(long idx, uint8_t *payload, char *human, size_t hn) { payload[0] = (uint8_t) (idx % 12); payload[1] = (uint8_t) (idx / 12); snprintf(human, hn, "unconfigured-hub tree variant %d, feature/initial profile %d, presence mask %d", 1 + (int) (idx % 12) / 4, (int) (idx % 4), (int) (idx / 12)); return 2; }
static int stride;
static size_t c20_gen(long idx, uint8_t *payload, char *human, size_t hn) {
	uint32_t start = (uint32_t) (idx * stride), count = 1; memcpy(payload, &start, 4); memcpy(payload + 4, &count, 4);
	c20_case_t c; c20_decode(start, &c);
	snprintf(human, hn, "features(master,oc1,lc1)=%d,%d,%d initial-values-mask=%02x present(oc1,lc1,booster2)=%d%d%d feature-answer-xor=%d", c.f0, c.f1, c.f2, c.initmask, c.presence & 1, (c.presence >> 1) & 1, (c.presence >> 2) & 1, c.fxor);
	return 8;
}

/* ---------------------------------------------------------------- c20.vanish: a board drops off during the enumeration
 * All three optional boards are configured with a feature and initial values and present when the node table is read for the
 * first time; while it is being read (at the k-th MSG_NODETAB_GETNEXT, k = 0..5) one of them disappears and the interface
 * announces the changed table (MSG_NODETAB_COUNT), so the library reads it again.  The transcript must be the one for the
 * FINAL tree: nothing — no feature, no initial value, no track-on — for the board that is gone. */
static int van_board, van_at, van_seen, van_done; static cm_model_t *van_model;
static int vanish_hook(int node, const rc_msg_t *m) {
	if (m->type != MSG_NODETAB_GETNEXT || van_done || node != 0) return 0;
	if (van_seen++ != van_at) return 0;
	van_done = 1;
	int sbn = van_model->b[van_board].sbnode; SB.n[sbn].present = 0; van_model->b[van_board].present = 0;
	SB.n[0].tab_version++; SB.n[0].tab_iter = 0;
	int rows = 1; for (int i = 0; i < SB.nn; i++) if (SB.n[i].parent == 0 && SB.n[i].present) rows++;
	uint8_t d = (uint8_t) rows; sb_send(0, MSG_NODETAB_COUNT, &d, 1);
	res_printf("C table_changes_applied 1\n");
	return 1;
}
static void vanish_child(const void *job, size_t n) {
	vs_dev_t devs[VS_MAXDEV]; int nd; size_t pl; const uint8_t *p = job_parse(job, n, devs, &nd, &pl);
	van_board = 1 + p[0] % 3; van_at = p[0] / 3; van_seen = 0; van_done = 0; int second_reset = p[1];
	c20_case_t c = { 1, 2, 1, 0x3F, 7, 0 }; static cm_model_t m; build(&m, &c); van_model = &m;
	hx_child_begin(NULL, 0, 0, NULL, 0, 120ull * 1000000ull);
	cm_install(&m); SB.on_msg = vanish_hook;
	if (second_reset) { van_done = 1; }      /* variant: the board vanishes during the enumeration of a later system reset */
	int rc = hx_start_normal(0); hx_quiesce();
	char what[120]; snprintf(what, sizeof what, "%s vanishes at GETNEXT #%d of %s", m.b[van_board].id, van_at, second_reset ? "a later reset" : "start-up");
	if (rc) res_violation("start-failed", "%s: bidib_start_pointer returned %d", what, rc);
	else {
		if (second_reset) { int mark = SB.nlog; van_done = 0; van_seen = 0; bidib_send_sys_reset(0); hx_quiesce(); if (van_done) check_segment(&m, mark, SB.nlog, what); }
		else if (van_done) { int reset_at = 0; for (int i = 0; i < SB.nlog; i++) if (SB.log[i].type == MSG_SYS_RESET) reset_at = i; check_segment(&m, reset_at, SB.nlog, what); }
	}
	hx_emit_ledger_violations("C20");
	hx_hash_t h; hx_hash_init(&h); for (int i = 0; i < SB.nlog; i++) { hx_hash_add(&h, SB.log[i].addr, 4); hx_hash_add(&h, &SB.log[i].type, 1); hx_hash_add(&h, SB.log[i].data, (size_t) SB.log[i].dlen); }
	res_printf("O %llx %llx\n", (unsigned long long) h.a, (unsigned long long) h.b);
	res_finish();
}
static size_t vanish_gen(long idx, uint8_t *payload, char *human, size_t hn) {
	payload[0] = (uint8_t) (idx % 18); payload[1] = (uint8_t) (idx / 18);
	static const char *bn[3] = {"oc1", "lc1", "booster2"}; snprintf(human, hn, "%s vanishes at GETNEXT #%d during %s", bn[payload[0] % 3], payload[0] / 3, payload[1] ? "a later system reset" : "start-up"); return 2;
}
/* ---------------------------------------------------------------- c20.slow: a board that is slow to confirm, or stalled
 * oc1 is configured with 1 / 8 / 9 / 10 / 12 features (eight 6-byte answers fill its response budget, so from the ninth on the
 * settings are HELD by flow control until answers arrive or expire).  Mode 0: every MSG_FEATURE answer of oc1 arrives D later
 * (a timer thread of the harness delivers it in virtual time); mode 1: oc1 reports MSG_STALL(1) at the end of the enumeration
 * and MSG_STALL(0) D later, so everything for it is held meanwhile.  D = 0.5 / 1.5 / 3 / 5 s.  The transcript must still show
 * every feature setting exactly once and before MSG_SYS_ENABLE. */
static struct { uint64_t due; int node; uint8_t type; uint8_t d[4]; int dl; int sent; } late[64]; static int nlate; static volatile int timer_stop;
static int slow_mode, slow_node, slow_rows_seen, slow_rows; static uint64_t slow_delay;
static void late_add(int node, uint8_t type, const uint8_t *d, int dl) { if (nlate >= 64) res_infra("too many delayed answers"); late[nlate].due = vs_now_us() + slow_delay; late[nlate].node = node; late[nlate].type = type; memcpy(late[nlate].d, d, (size_t) dl); late[nlate].dl = dl; late[nlate].sent = 0; nlate++; }
static void *bus_timer(void *arg) { (void) arg;
	while (!timer_stop) { vs_sleep_us(50000); uint64_t now = vs_now_us(); for (int i = 0; i < nlate; i++) if (!late[i].sent && late[i].due <= now) { late[i].sent = 1; sb_send(late[i].node, late[i].type, late[i].d, late[i].dl); } }
	return NULL; }
static int slow_hook(int node, const rc_msg_t *m) {
	if (slow_mode == 0 && node == slow_node && m->type == MSG_FEATURE_SET && m->dlen >= 2) { uint8_t d[2] = {m->data[0], m->data[1]}; late_add(node, MSG_FEATURE, d, 2); return 1; }
	if (slow_mode == 1 && node == 0 && m->type == MSG_NODETAB_GETNEXT && ++slow_rows_seen == slow_rows) { uint8_t on = 1, off = 0; sb_send(slow_node, MSG_STALL, &on, 1); late_add(slow_node, MSG_STALL, &off, 1); return 0; }
	/* modes 2..4: the command station confirms the track-output command late / never / with another state (the commanded
	 * start-up sequence does not depend on what the station reports back) */
	if (slow_mode >= 2 && m->type == MSG_CS_SET_STATE && node >= 0 && m->dlen >= 1 && m->data[0] != 0xFF) {
		uint8_t st = m->data[0]; if (slow_mode == 2) late_add(node, MSG_CS_STATE, &st, 1); else if (slow_mode == 4) { st = 0x00; sb_send(node, MSG_CS_STATE, &st, 1); } return 1; }
	return 0;
}
static void slow_child(const void *job, size_t n) {
	vs_dev_t devs[VS_MAXDEV]; int nd; size_t pl; const uint8_t *p = job_parse(job, n, devs, &nd, &pl);
	static const int NF[5] = {1, 8, 9, 10, 12}; static const uint64_t DL[4] = {500000, 1500000, 3000000, 5000000};
	int nf = NF[p[0] % 5]; slow_delay = DL[p[0] / 5 % 4]; slow_mode = p[0] / 20;
	if (p[0] >= 40) { nf = 1; slow_mode = p[0] < 44 ? 2 : p[0] == 44 ? 3 : 4; slow_delay = DL[(p[0] - 40) % 4]; } nlate = 0; timer_stop = 0; slow_rows_seen = 0;
	c20_case_t c = { 1, 1, 1, 0x3F, 7, 0, 0 }; static cm_model_t m; build(&m, &c);
	m.b[1].nfeatures = nf; for (int k = 0; k < nf; k++) m.b[1].features[k] = (cm_feature_t) {(uint8_t) (0x10 + k), (uint8_t) (k + 1)};
	hx_child_begin(NULL, 0, 0, NULL, 0, 120ull * 1000000ull);
	cm_install(&m); slow_node = m.b[1].sbnode; slow_rows = 0; for (int i = 0; i < SB.nn; i++) if (SB.n[i].parent == 0 && SB.n[i].present) slow_rows++; slow_rows++;
	SB.on_msg = slow_hook;
	int t = vs_spawn(bus_timer, NULL);
	int rc = hx_start_normal(0);
	/* what start-up has commanded may still be HELD by flow control behind an unanswered request when the call returns: let the
	 * late answers arrive (<= 5 s), let unanswered requests expire (2 s), and give every node one more event, because the library
	 * notices an expiry only at the next send to / message from the node (C03).  Only then is the transcript judged. */
	vs_sleep_us(7000000); timer_stop = 1; vs_join_tid(t); hx_quiesce();
	if (!rc) { for (int b = 0; b < m.nb; b++) if (cm_board_connected(&m, b)) bidib_ping(m.b[b].id, 0); bidib_flush(); hx_quiesce(); }
	char what[200]; snprintf(what, sizeof what, "start-up, oc1 with %d features %s %.1f s", nf, slow_mode ? "stalled at the end of the enumeration for" : "answers every feature setting after", (double) slow_delay / 1e6);
	if (slow_mode == 2) snprintf(what, sizeof what, "start-up, track outputs confirm their state %.1f s late", (double) slow_delay / 1e6);
	if (slow_mode == 3) snprintf(what, sizeof what, "start-up, track outputs never confirm their state");
	if (slow_mode == 4) snprintf(what, sizeof what, "start-up, track outputs answer the GO command with state OFF");
	if (rc) res_violation("start-failed", "%s: bidib_start_pointer returned %d", what, rc);
	else { int reset_at = 0; for (int i = 0; i < SB.nlog; i++) if (SB.log[i].type == MSG_SYS_RESET) reset_at = i; check_segment(&m, reset_at, SB.nlog, what); }
	int delivered = 0; for (int i = 0; i < nlate; i++) delivered += late[i].sent;
	hx_emit_ledger_violations("C20");
	hx_hash_t h; hx_hash_init(&h); for (int i = 0; i < SB.nlog; i++) { hx_hash_add(&h, SB.log[i].addr, 4); hx_hash_add(&h, &SB.log[i].type, 1); hx_hash_add(&h, SB.log[i].data, (size_t) SB.log[i].dlen); }
	res_printf("O %llx %llx\nC delayed_messages_delivered %d\n", (unsigned long long) h.a, (unsigned long long) h.b, delivered);
	res_finish();
}
static size_t slow_gen(long idx, uint8_t *payload, char *human, size_t hn) { static const int NF[5] = {1, 8, 9, 10, 12}; static const char *DL[4] = {"0.5", "1.5", "3", "5"};
	payload[0] = (uint8_t) idx; snprintf(human, hn, "oc1 with %d features, %s %s s", NF[idx % 5], idx / 20 ? "stalled for" : "feature answers delayed by", DL[idx / 5 % 4]);
	if (idx >= 40) snprintf(human, hn, "track-output state confirmation %s", idx < 44 ? "late" : idx == 44 ? "never" : "with state OFF"); return 1; }
void c20_register(void) { harness_register("c20.slow", slow_child); harness_register("c20.spelling", spelling_child); harness_register("c20.start", c20_child); harness_register("c20.vanish", vanish_child); harness_register("c20.hub", hub_child); }
int c20_run(const char *tier) {
	int thorough = !strcmp(tier, "thorough");
	stride = 1; (void) thorough;
	ex_spec_t e = { .harness = "c20.start", .ncases = c20_count() / stride, .gen = c20_gen, .label = "c20.start" };
	ex_map(&e);
	ex_spec_t v = { .harness = "c20.vanish", .ncases = 36, .gen = vanish_gen, .label = "c20.vanish" };
	ex_map(&v); e.done += v.done; e.distinct_outcomes += v.distinct_outcomes; if (!v.exhaustive) e.exhaustive = 0;
	ex_spec_t hb = { .harness = "c20.hub", .ncases = 96, .gen = hub_gen, .label = "c20.hub" };
	ex_map(&hb); e.done += hb.done; e.distinct_outcomes += hb.distinct_outcomes; if (!hb.exhaustive) e.exhaustive = 0;
	ex_spec_t sl = { .harness = "c20.slow", .ncases = 46, .gen = slow_gen, .label = "c20.slow" };
	ex_map(&sl); e.done += sl.done; e.distinct_outcomes += sl.distinct_outcomes; if (!sl.exhaustive) e.exhaustive = 0;
	rep_note("c20.slow: %ld start-ups with a slow or stalled board (5 feature counts x 4 delays x {late answers, stall}; track-output state confirmed late x 4 / never / as OFF), %ld delayed messages delivered", sl.done, rep_get("delayed_messages_delivered"));
	ex_spec_t sp = { .harness = "c20.spelling", .ncases = 28, .gen = spelling_gen, .label = "c20.spelling" };
	ex_map(&sp); e.done += sp.done; e.distinct_outcomes += sp.distinct_outcomes; if (!sp.exhaustive) e.exhaustive = 0;
	rep_note("c20.spelling: %ld start-ups with byte values written in decimal / decimal with leading zeros / boards listed in reverse order", sp.done);
	rep_note("c20.hub: %ld start-ups with configured boards beneath a hub the configuration does not mention", hb.done);
	rep_note("c20.vanish: %ld cases (3 boards x GETNEXT #0..5 x {start-up, later reset}), table change applied in %ld", v.done, rep_get("table_changes_applied"));
	rep_count("executions", e.done); rep_count("states", e.distinct_outcomes); rep_count("transitions", e.done * 2); rep_flag("exhaustive", e.exhaustive);
	rep_note("configurations x trees executed=%ld (each: start-up transcript + transcript after a further bidib_send_sys_reset), distinct transcripts=%ld", e.done, e.distinct_outcomes);
	return 0;
}
