/* C04 — stall: nothing is sent into a stalled subtree; held traffic resumes in order.
 * E2: BFS over histories of stall/unstall notices, sends and answers on the tree {0, 1, 1.1, 1.1.1, 1.2, 2}. */
#include "../fw/explore.h"
#include "../fw/hx.h"
#include "../fw/ref_flow.h"
#include "include/bidib.h"
#include <stdio.h>
#include <stdlib.h>
#include <string.h>

#define NN 6
static const uint8_t NADDR[NN][4] = {{0, 0, 0, 0}, {1, 0, 0, 0}, {1, 1, 0, 0}, {1, 1, 1, 0}, {1, 2, 0, 0}, {2, 0, 0, 0}};
static const char *NNAME[NN] = {"0", "1", "1.1", "1.1.1", "1.2", "2"};
static const int STALLERS[4] = {0, 1, 2, 5};
/* events: stall(n,1) x4, stall(n,0) x4, send(m) x6 (ping, 5 bytes), sendbig(m) for 1.1 and 1.1.1 (configx 40), answer(m) x6 */
#define EV_STALL1 0
#define EV_STALL0 4
#define EV_SEND 8
#define EV_BIG 14
#define EV_ANS 16
#define EV_N 22
static const int BIGNODES[2] = {2, 3};

static const char *evname(int ev) {
	static char b[4][40]; static int k; char *s = b[k++ & 3];
	if (ev < EV_STALL0) snprintf(s, 40, "stall(%s,1)", NNAME[STALLERS[ev]]);
	else if (ev < EV_SEND) snprintf(s, 40, "stall(%s,0)", NNAME[STALLERS[ev - EV_STALL0]]);
	else if (ev < EV_BIG) snprintf(s, 40, "send(%s,ping)", NNAME[ev - EV_SEND]);
	else if (ev < EV_ANS) snprintf(s, 40, "send(%s,configx40)", NNAME[BIGNODES[ev - EV_BIG]]);
	else snprintf(s, 40, "answer(%s)", NNAME[ev - EV_ANS]);
	return s;
}
static int is_ancestor_or_self(int a, int d) {   /* a is ancestor-or-self of d */
	if (a == 0) return 1;                         /* the interface is the root of everything */
	for (int i = 0; i < 3; i++) { if (NADDR[a][i] == 0) return 1; if (NADDR[a][i] != NADDR[d][i]) return 0; }
	return 1;
}
static struct {
	rf_t rf; int stalled[NN];
	uint8_t pend[NN][128]; int npend[NN];
	uint8_t submitted[NN][128]; int nsub[NN];
	size_t wire_off;
} S;
static int nidx(const uint8_t a[4]) { for (int i = 0; i < NN; i++) if (!memcmp(a, NADDR[i], 4)) return i; return -1; }
static int blocked(int d) { for (int a = 0; a < NN; a++) if (S.stalled[a] && is_ancestor_or_self(a, d)) return 1; return 0; }
static int blocker(int d) { for (int a = 0; a < NN; a++) if (S.stalled[a] && is_ancestor_or_self(a, d)) return a; return -1; }

static void absorb_wire(void) {
	static rc_pkt_t pk[64]; char err[200];
	int np = rc_decode_strict(env_out() + S.wire_off, env_out_len() - S.wire_off, pk, 64, err, sizeof err);
	S.wire_off = env_out_len();
	if (np < 0) { res_violation("wire-malformed", "%s", err); return; }
	for (int i = 0; i < np; i++) for (int j = 0; j < pk[i].nmsgs; j++) {
		rc_msg_t *m = &pk[i].msgs[j]; int node = nidx(m->addr);
		if (node < 0) { res_violation("wire-unknown-destination", "message to %02x.%02x.%02x", m->addr[0], m->addr[1], m->addr[2]); continue; }
		rf_node_t *rn = rf_node(&S.rf, m->addr); int idx = rn->wire_count;
		if (blocked(node)) {
			char cls[160]; snprintf(cls, sizeof cls, "sent-into-stalled-subtree stalled=%s", blocker(node) == 0 ? "interface(0)" : blocker(node) == node ? "self" : "ancestor");
			res_violation(cls, "message type %02x to node %s reached the wire while node %s is stalled", m->type, NNAME[node], NNAME[blocker(node)]);
		}
		if (idx >= S.nsub[node] || S.submitted[node][idx] != m->type || m->seq != (idx % 255) + 1)
			res_violation("order: messages to a node are not on the wire in submission order exactly once",
			              "node %s wire position %d: type %02x seq %d", NNAME[node], idx, m->type, m->seq);
		rf_on_wire(&S.rf, m, vs_now_us());
		if (m->type < 128 && rf_resp[m->type].size > 0 && S.npend[node] < 128) S.pend[node][S.npend[node]++] = m->type;
		if (rf_sum(rn->eager, rn->n_eager) > RF_LIMIT) res_violation("budget-exceeded: unanswered, unexpired requests on the wire exceed 48 response bytes", "node %s", NNAME[node]);
	}
}
static void check_node(int node, const char *when) {
	uint8_t types[128]; int nd = vx_node_deferred(NADDR[node], types, 128);
	rf_node_t *rn = rf_node(&S.rf, NADDR[node]);
	if (rn->wire_count + nd != S.nsub[node])
		res_violation("lost-or-duplicated: submitted != on wire + held", "node %s: submitted %d, on wire %d, held %d", NNAME[node], S.nsub[node], rn->wire_count, nd);
	if (nd && when && !blocked(node)) {
		int size = types[0] < 128 ? rf_resp[types[0]].size : 0;
		if (rf_sum(rn->lazy, rn->n_lazy) + size <= RF_LIMIT) {
			char cls[128]; snprintf(cls, sizeof cls, "stranded-after-%s: node not stalled, budget free, held message not transmitted", when);
			res_violation(cls, "node %s holds %d message(s), oldest type %02x fits (outstanding %d)", NNAME[node], nd, types[0], rf_sum(rn->lazy, rn->n_lazy));
		}
	}
}
static int apply_event(int ev) {
	if (ev < EV_SEND) {
		int on = ev < EV_STALL0; int n = STALLERS[on ? ev : ev - EV_STALL0];
		uint8_t d = (uint8_t) on;
		S.stalled[n] = on;
		hx_feed_msg(NADDR[n], 0, MSG_STALL, &d, 1);
		bidib_flush(); hx_quiesce(); absorb_wire();
		/* after an unstall: every node of the subtree that is no longer blocked must have been served */
		for (int m = 0; m < NN; m++) check_node(m, (!on && is_ancestor_or_self(n, m)) ? "unstall" : NULL);
	} else if (ev < EV_ANS) {
		int node = ev < EV_BIG ? ev - EV_SEND : BIGNODES[ev - EV_BIG];
		uint8_t type = ev < EV_BIG ? MSG_SYS_PING : MSG_LC_CONFIGX_GET;
		t_bidib_node_address a = {NADDR[node][0], NADDR[node][1], NADDR[node][2]};
		S.submitted[node][S.nsub[node]++] = type;
		if (ev < EV_BIG) bidib_send_sys_ping(a, (uint8_t) S.nsub[node], 0); else bidib_send_lc_configx_get(a, 0, (uint8_t) S.nsub[node], 0);
		bidib_flush(); hx_quiesce(); absorb_wire();
		for (int m = 0; m < NN; m++) check_node(m, m == node ? "send" : NULL);
	} else {
		int node = ev - EV_ANS;
		if (!S.npend[node]) return 0;
		uint8_t type = rf_resp[S.pend[node][0]].acc[0];
		memmove(S.pend[node], S.pend[node] + 1, (size_t) --S.npend[node]);
		uint8_t data[2] = {0, 0};
		hx_feed_msg(NADDR[node], 0, type, data, 2);
		bidib_flush(); hx_quiesce();
		uint8_t *m; while ((m = bidib_read_message())) free(m);
		rf_on_uplink(&S.rf, NADDR[node], type, vs_now_us());
		absorb_wire();
		for (int m2 = 0; m2 < NN; m2++) check_node(m2, m2 == node ? "answer" : NULL);
	}
	return 1;
}
static void c04_child(const void *job, size_t n) {
	vs_dev_t devs[VS_MAXDEV]; int nd; size_t pl;
	const uint8_t *p = job_parse(job, n, devs, &nd, &pl);
	int len = p[1]; const uint8_t *ev = p + 2;
	hx_child_begin(NULL, 0, 0, NULL, 0, 0);
	if (hx_start_debug(0)) res_infra("start failed");
	hx_quiesce();
	memset(&S, 0, sizeof S); rf_init(&S.rf);
	for (int i = 0; i < NN; i++) rf_node(&S.rf, NADDR[i]);
	for (int i = 0; i < len; i++) {
		if (!apply_event(ev[i])) { if (i == len - 1) res_printf("N 1\n"); else res_infra("inapplicable event inside a history"); res_finish(); }
		if (res_nviol() && i < len - 1) res_infra("violation before the last event of a history");
	}
	hx_emit_ledger_violations("C04");
	static char dump[1 << 16]; size_t o = hx_dump_tx(dump, sizeof dump);
	o += rf_dump(&S.rf, dump + o, sizeof dump - o, vs_now_us());
	for (int i = 0; i < NN; i++) o += (size_t) snprintf(dump + o, sizeof dump - o, "s%d p%d sub%d;", S.stalled[i], S.npend[i], S.nsub[i]);
	hx_hash_t h; hx_hash_init(&h); hx_hash_add(&h, dump, o);
	res_printf("S %llx %llx\n", (unsigned long long) h.a, (unsigned long long) h.b);
	res_finish();
}

/* ---------------------------------------------------------------- c04.sched (E1): release of a stall under concurrency
 * Variant 0: node 1 is stalled, messages for 1, 1.1 and 1.2 are held.  Variant 1: nested — node 1 and node 1.1 are stalled,
 * 1.1 has already been released (its waiters hang on 1).  Then, concurrently: the receiver processes MSG_STALL=0 from node 1
 * while two application threads submit further messages for 1.1 / 1.2 and for 1.  Every schedule with <= 2 (thorough 3)
 * preemptions: afterwards everything submitted is on the wire exactly once, per destination in submission order (the
 * sequence numbers are consecutive), nothing is held, and nothing was written before the release notice had been read. */
static const t_bidib_node_address A1 = {1, 0, 0}, A11 = {1, 1, 0}, A12 = {1, 2, 0};
static void *cs_ta(void *arg) { (void) arg; bidib_send_sys_ping(A11, 0x51, 0); bidib_send_sys_ping(A12, 0x52, 0); bidib_flush(); return NULL; }
static void *cs_tb(void *arg) { (void) arg; bidib_send_sys_ping(A1, 0x61, 0); bidib_send_sys_ping(A11, 0x62, 0); bidib_flush(); return NULL; }
static void c04_sched_child(const void *job, size_t n) {
	vs_dev_t devs[VS_MAXDEV]; int nd; size_t pl; const uint8_t *p = job_parse(job, n, devs, &nd, &pl);
	int variant = p[0];
	hx_child_begin(devs, nd, 1, NULL, 0, 0);
	if (hx_start_debug(0)) res_infra("start failed");
	hx_quiesce();
	uint8_t on = 1, off = 0;
	hx_feed_msg(NADDR[1], 0, MSG_STALL, &on, 1);
	if (variant == 1) hx_feed_msg(NADDR[2], 0, MSG_STALL, &on, 1);
	bidib_send_sys_ping(A1, 1, 0); bidib_send_sys_ping(A11, 2, 0); bidib_send_sys_ping(A12, 3, 0); bidib_send_sys_ping(A11, 4, 0); bidib_flush(); hx_quiesce();
	if (variant == 1) { hx_feed_msg(NADDR[2], 0, MSG_STALL, &off, 1); bidib_flush(); hx_quiesce(); }
	if (env_out_len() != 0) res_violation("sent-into-stalled-subtree stalled=ancestor", "bytes were written while node 1 is stalled (set-up of c04.sched)");
	size_t in_base = env_bytes_consumed(); uint8_t m[16], f[40]; int ml = rc_build_msg(m, NADDR[1], 0, MSG_STALL, &off, 1); size_t fl = rc_frame(f, m, (size_t) ml, 1); env_push_quiet(f, fl);
	size_t release_end = in_base + fl;
	vs_window(1);
	int t1 = vs_spawn(cs_ta, NULL), t2 = vs_spawn(cs_tb, NULL); vs_join_tid(t1); vs_join_tid(t2); hx_quiesce();
	vs_window(0);
	bidib_flush(); hx_quiesce();
	uint8_t *q; while ((q = bidib_read_message())) free(q);
	for (int w = 0; w < env_nwrites(); w++) if (env_writes()[w].len && env_writes()[w].consumed < release_end) { res_violation("sent-into-stalled-subtree stalled=ancestor", "write %d happened before the library had read the release notice of node 1", w); break; }
	static rc_pkt_t pk[64]; char err[200]; int np = rc_decode_strict(env_out(), env_out_len(), pk, 64, err, sizeof err);
	hx_hash_t h; hx_hash_init(&h);
	if (np < 0) res_violation("wire-malformed", "%s", err);
	else { int cnt[3] = {0, 0, 0}, last[3] = {0, 0, 0};
		for (int i = 0; i < np; i++) for (int j = 0; j < pk[i].nmsgs; j++) { rc_msg_t *mm = &pk[i].msgs[j]; int k = !memcmp(mm->addr, NADDR[1], 4) ? 0 : !memcmp(mm->addr, NADDR[2], 4) ? 1 : !memcmp(mm->addr, NADDR[4], 4) ? 2 : -1;
			if (k < 0) { res_violation("wire-unknown-destination", "message to %02x.%02x.%02x", mm->addr[0], mm->addr[1], mm->addr[2]); continue; }
			cnt[k]++; if (mm->seq != last[k] + 1) res_violation("order: held traffic is not transmitted exactly once in per-node submission order", "node %s: sequence %d after %d", k == 0 ? "1" : k == 1 ? "1.1" : "1.2", mm->seq, last[k]); last[k] = mm->seq;
			hx_hash_add(&h, mm->addr, 3); }
		static const int EXP[3] = {2, 4, 2};
		for (int k = 0; k < 3; k++) if (cnt[k] != EXP[k]) { vx_node_info_t ni; int def = vx_node_info(NADDR[k == 0 ? 1 : k == 1 ? 2 : 4], &ni) ? ni.n_deferred : -1;
			res_violation("stranded-after-unstall: node not stalled, budget free, held message not transmitted", "node %s: %d of %d messages on the wire, %d still held", k == 0 ? "1" : k == 1 ? "1.1" : "1.2", cnt[k], EXP[k], def); } }
	hx_emit_ledger_violations("C04");
	res_printf("O %llx %llx\n", (unsigned long long) h.a, (unsigned long long) h.b);
	hx_emit_trace(); res_finish();
}
void c04_register(void) { harness_register("c04.hist", c04_child); harness_register("c04.sched", c04_sched_child); }
int c04_run(const char *tier) {
	int thorough = !strcmp(tier, "thorough");
	uint8_t param[1] = {(uint8_t) thorough};
	const char *d = getenv("VERIF_DEPTH");
	e2_spec_t s = { .harness = "c04.hist", .param = param, .nparam = 1, .nevents = EV_N, .max_depth = d ? atoi(d) : (thorough ? 6 : 5),
	                .label = "c04.hist", .evname = evname };
	e2_explore(&s);
	for (int v4 = 0; v4 < 4; v4++) { int v = v4 % 2, up = v4 >= 2;      /* second round: a scheduling point after every unlock as well, one preemption less */
		uint8_t sp[1] = {(uint8_t) v}; char label[120]; snprintf(label, sizeof label, "c04.sched %s%s", v ? "nested stall, inner released first" : "single stall", up ? " (points after unlocks)" : "");
		e1_spec_t es = { .harness = "c04.sched", .param = sp, .nparam = 1, .bound = (thorough ? 3 : 2) - up, .label = strdup(label), .unlock_points = up };
		e1_explore(&es); long ex = 0; for (int k = 0; k < 8; k++) ex += es.schedules_by_cost[k]; s.execs += ex; s.states += es.distinct_outcomes; s.transitions += es.choice_points; if (!es.exhaustive) s.exhaustive = 0;
		rep_note("%s: bound=%d completed=%d schedules by cost=[%ld,%ld,%ld,%ld] distinct outcomes=%ld", label, es.bound, es.completed_bound, es.schedules_by_cost[0], es.schedules_by_cost[1], es.schedules_by_cost[2], es.schedules_by_cost[3], es.distinct_outcomes); }
	rep_count("states", s.states); rep_count("transitions", s.transitions); rep_count("executions", s.execs);
	rep_count("depth_completed", s.depth_completed); rep_flag("exhaustive", s.exhaustive);
	char sb[256]; size_t o = 0; for (int i = 0; i <= s.depth_completed + 1 && i < 16; i++) o += (size_t) snprintf(sb + o, sizeof sb - o, "%ld ", s.states_by_depth[i]);
	rep_note("c04.hist: alphabet=%d events, depth completed=%d, new states by depth: %s", s.nevents, s.depth_completed, sb);
	return 0;
}
