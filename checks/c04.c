/* C04 — stall: nothing is sent into a stalled subtree; held traffic resumes in order.
 * E2: BFS over histories of stall/unstall notices, sends and answers on the tree {0, 1, 1.1, 1.1.1, 1.2, 2}. */
#include "../fw/explore.h"
#include "../fw/hx.h"
#include "../fw/ref_flow.h"
#include "include/bidib.h"
#include <stdio.h>
#include <stdlib.h>
#include <string.h>

#define NN 6
static const uint8_t NADDR[NN][4] = {{0, 0, 0, 0}, {1, 0, 0, 0}, {1, 1, 0, 0}, {1, 1, 1, 0}, {1, 2, 0, 0}, {2, 0, 0, 0}};
static const char *NNAME[NN] = {"0", "1", "1.1", "1.1.1", "1.2", "2"};
static const int STALLERS[4] = {0, 1, 2, 5};
/* events: stall(n,1) x4, stall(n,0) x4, send(m) x6 (ping, 5 bytes), sendbig(m) for 1.1 and 1.1.1 (configx 40), answer(m) x6 */
#define EV_STALL1 0
#define EV_STALL0 4
#define EV_SEND 8
#define EV_BIG 14
#define EV_ANS 16
#define EV_N 22
static const int BIGNODES[2] = {2, 3};

static const char *evname(int ev) {
	static char b[4][40]; static int k; char *s = b[k++ & 3];
	if (ev < EV_STALL0) snprintf(s, 40, "stall(%s,1)", NNAME[STALLERS[ev]]);
	else if (ev < EV_SEND) snprintf(s, 40, "stall(%s,0)", NNAME[STALLERS[ev - EV_STALL0]]);
	else if (ev < EV_BIG) snprintf(s, 40, "send(%s,ping)", NNAME[ev - EV_SEND]);
	else if (ev < EV_ANS) snprintf(s, 40, "send(%s,configx40)", NNAME[BIGNODES[ev - EV_BIG]]);
	else snprintf(s, 40, "answer(%s)", NNAME[ev - EV_ANS]);
	return s;
}
static int is_ancestor_or_self(int a, int d) {   /* a is ancestor-or-self of d */
	if (a == 0) return 1;                         /* the interface is the root of everything */
	for (int i = 0; i < 3; i++) { if (NADDR[a][i] == 0) return 1; if (NADDR[a][i] != NADDR[d][i]) return 0; }
	return 1;
}
static struct {
	rf_t rf; int stalled[NN];
	uint8_t pend[NN][128]; int npend[NN];
	uint8_t submitted[NN][128]; int nsub[NN];
	size_t wire_off;
} S;
static int nidx(const uint8_t a[4]) { for (int i = 0; i < NN; i++) if (!memcmp(a, NADDR[i], 4)) return i; return -1; }
static int blocked(int d) { for (int a = 0; a < NN; a++) if (S.stalled[a] && is_ancestor_or_self(a, d)) return 1; return 0; }
static int blocker(int d) { for (int a = 0; a < NN; a++) if (S.stalled[a] && is_ancestor_or_self(a, d)) return a; return -1; }

static void absorb_wire(void) {
	static rc_pkt_t pk[64]; char err[200];
	int np = rc_decode_strict(env_out() + S.wire_off, env_out_len() - S.wire_off, pk, 64, err, sizeof err);
	S.wire_off = env_out_len();
	if (np < 0) { res_violation("wire-malformed", "%s", err); return; }
	for (int i = 0; i < np; i++) for (int j = 0; j < pk[i].nmsgs; j++) {
		rc_msg_t *m = &pk[i].msgs[j]; int node = nidx(m->addr);
		if (node < 0) { res_violation("wire-unknown-destination", "message to %02x.%02x.%02x", m->addr[0], m->addr[1], m->addr[2]); continue; }
		rf_node_t *rn = rf_node(&S.rf, m->addr); int idx = rn->wire_count;
		if (blocked(node)) {
			char cls[160]; snprintf(cls, sizeof cls, "sent-into-stalled-subtree stalled=%s", blocker(node) == 0 ? "interface(0)" : blocker(node) == node ? "self" : "ancestor");
			res_violation(cls, "message type %02x to node %s reached the wire while node %s is stalled", m->type, NNAME[node], NNAME[blocker(node)]);
		}
		if (idx >= S.nsub[node] || S.submitted[node][idx] != m->type || m->seq != (idx % 255) + 1)
			res_violation("order: messages to a node are not on the wire in submission order exactly once",
			              "node %s wire position %d: type %02x seq %d", NNAME[node], idx, m->type, m->seq);
		rf_on_wire(&S.rf, m, vs_now_us());
		if (m->type < 128 && rf_resp[m->type].size > 0 && S.npend[node] < 128) S.pend[node][S.npend[node]++] = m->type;
		if (rf_sum(rn->eager, rn->n_eager) > RF_LIMIT) res_violation("budget-exceeded: unanswered, unexpired requests on the wire exceed 48 response bytes", "node %s", NNAME[node]);
	}
}
static void check_node(int node, const char *when) {
	uint8_t types[128]; int nd = vx_node_deferred(NADDR[node], types, 128);
	rf_node_t *rn = rf_node(&S.rf, NADDR[node]);
	if (rn->wire_count + nd != S.nsub[node])
		res_violation("lost-or-duplicated: submitted != on wire + held", "node %s: submitted %d, on wire %d, held %d", NNAME[node], S.nsub[node], rn->wire_count, nd);
	if (nd && when && !blocked(node)) {
		int size = types[0] < 128 ? rf_resp[types[0]].size : 0;
		if (rf_sum(rn->lazy, rn->n_lazy) + size <= RF_LIMIT) {
			char cls[128]; snprintf(cls, sizeof cls, "stranded-after-%s: node not stalled, budget free, held message not transmitted", when);
			res_violation(cls, "node %s holds %d message(s), oldest type %02x fits (outstanding %d)", NNAME[node], nd, types[0], rf_sum(rn->lazy, rn->n_lazy));
		}
	}
}
static int apply_event(int ev) {
	if (ev < EV_SEND) {
		int on = ev < EV_STALL0; int n = STALLERS[on ? ev : ev - EV_STALL0];
		uint8_t d = (uint8_t) on;
		S.stalled[n] = on;
		hx_feed_msg(NADDR[n], 0, MSG_STALL, &d, 1);
		bidib_flush(); hx_quiesce(); absorb_wire();
		/* after an unstall: every node of the subtree that is no longer blocked must have been served */
		for (int m = 0; m < NN; m++) check_node(m, (!on && is_ancestor_or_self(n, m)) ? "unstall" : NULL);
	} else if (ev < EV_ANS) {
		int node = ev < EV_BIG ? ev - EV_SEND : BIGNODES[ev - EV_BIG];
		uint8_t type = ev < EV_BIG ? MSG_SYS_PING : MSG_LC_CONFIGX_GET;
		t_bidib_node_address a = {NADDR[node][0], NADDR[node][1], NADDR[node][2]};
		S.submitted[node][S.nsub[node]++] = type;
		if (ev < EV_BIG) bidib_send_sys_ping(a, (uint8_t) S.nsub[node], 0); else bidib_send_lc_configx_get(a, 0, (uint8_t) S.nsub[node], 0);
		bidib_flush(); hx_quiesce(); absorb_wire();
		for (int m = 0; m < NN; m++) check_node(m, m == node ? "send" : NULL);
	} else {
		int node = ev - EV_ANS;
		if (!S.npend[node]) return 0;
		uint8_t type = rf_resp[S.pend[node][0]].acc[0];
		memmove(S.pend[node], S.pend[node] + 1, (size_t) --S.npend[node]);
		uint8_t data[2] = {0, 0};
		hx_feed_msg(NADDR[node], 0, type, data, 2);
		bidib_flush(); hx_quiesce();
		uint8_t *m; while ((m = bidib_read_message())) free(m);
		rf_on_uplink(&S.rf, NADDR[node], type, vs_now_us());
		absorb_wire();
		for (int m2 = 0; m2 < NN; m2++) check_node(m2, m2 == node ? "answer" : NULL);
	}
	return 1;
}
static void c04_child(const void *job, size_t n) {
	vs_dev_t devs[VS_MAXDEV]; int nd; size_t pl;
	const uint8_t *p = job_parse(job, n, devs, &nd, &pl);
	int len = p[1]; const uint8_t *ev = p + 2;
	hx_child_begin(NULL, 0, 0, NULL, 0, 0);
	if (hx_start_debug(0)) res_infra("start failed");
	hx_quiesce();
	memset(&S, 0, sizeof S); rf_init(&S.rf);
	for (int i = 0; i < NN; i++) rf_node(&S.rf, NADDR[i]);
	for (int i = 0; i < len; i++) {
		if (!apply_event(ev[i])) { if (i == len - 1) res_printf("N 1\n"); else res_infra("inapplicable event inside a history"); res_finish(); }
		if (res_nviol() && i < len - 1) res_infra("violation before the last event of a history");
	}
	hx_emit_ledger_violations("C04");
	static char dump[1 << 16]; size_t o = hx_dump_tx(dump, sizeof dump);
	o += rf_dump(&S.rf, dump + o, sizeof dump - o, vs_now_us());
	for (int i = 0; i < NN; i++) o += (size_t) snprintf(dump + o, sizeof dump - o, "s%d p%d sub%d;", S.stalled[i], S.npend[i], S.nsub[i]);
	hx_hash_t h; hx_hash_init(&h); hx_hash_add(&h, dump, o);
	res_printf("S %llx %llx\n", (unsigned long long) h.a, (unsigned long long) h.b);
	res_finish();
}
void c04_register(void) { harness_register("c04.hist", c04_child); }
int c04_run(const char *tier) {
	int thorough = !strcmp(tier, "thorough");
	uint8_t param[1] = {(uint8_t) thorough};
	const char *d = getenv("VERIF_DEPTH");
	e2_spec_t s = { .harness = "c04.hist", .param = param, .nparam = 1, .nevents = EV_N, .max_depth = d ? atoi(d) : (thorough ? 6 : 5),
	                .label = "c04.hist", .evname = evname };
	e2_explore(&s);
	rep_count("states", s.states); rep_count("transitions", s.transitions); rep_count("executions", s.execs);
	rep_count("depth_completed", s.depth_completed); rep_flag("exhaustive", s.exhaustive);
	char sb[256]; size_t o = 0; for (int i = 0; i <= s.depth_completed + 1 && i < 16; i++) o += (size_t) snprintf(sb + o, sizeof sb - o, "%ld ", s.states_by_depth[i]);
	rep_note("c04.hist: alphabet=%d events, depth completed=%d, new states by depth: %s", s.nevents, s.depth_completed, sb);
	return 0;
}
