/* C15 — node table: correct address/connectivity at start-up and on node new/lost.
 *  c15.tree   : start-up against every node tree (<=3 address levels, fan-out bound, nested and unknown interfaces,
 *               unknown and absent nodes) x row orders; expected connectivity/addresses from the tree
 *  c15.change : a node-table change (node disappears / appears / re-appears at another local address) at every point of
 *               the enumeration of representative trees; the interface answers with MSG_NODETAB_COUNT (restart)
 *  c15.hist   : E2 BFS over node-lost / node-new histories after start-up; acks with the announced version; pings go to
 *               the current address of connected boards only */
#include "../fw/explore.h"
#include "../fw/hx.h"
#include "../fw/simbus.h"
#include "include/bidib.h"
#include <stdio.h>
#include <stdlib.h>
#include <string.h>

#define NC 7
enum { N_HUBA, N_HUBB, N_LEAF1, N_LEAF2, N_LEAF3, N_UNKLEAF, N_UNKHUB };
static const char *CNAME[NC] = {"hubA", "hubB", "leaf1", "leaf2", "leaf3", "unknown-leaf", "unknown-hub"};
static const uint8_t CUID[NC][7] = {
	{0x81, 0x00, 0x0D, 0x72, 0x00, 0xAA, 0x01}, {0x81, 0x00, 0x0D, 0x72, 0x00, 0xBB, 0x02},
	{0x05, 0x00, 0x0D, 0x6B, 0x00, 0x01, 0x01}, {0x05, 0x00, 0x0D, 0x6B, 0x00, 0x02, 0x02}, {0x05, 0x00, 0x0D, 0x6B, 0x00, 0x03, 0x03},
	{0x05, 0x00, 0x0D, 0x99, 0x00, 0x09, 0x09}, {0x81, 0x00, 0x0D, 0x99, 0x00, 0x08, 0x08} };
static const int CONFIGURED[NC] = {1, 1, 1, 1, 1, 0, 0};
static const int IS_IFACE[NC] = {1, 1, 0, 0, 0, 0, 1};
/* parent codes: 0 absent, 1 root, 2 hubA, 3 hubB, 4 unknown-hub */
static const int PARENT_OF_CODE[5] = {-2, -1, N_HUBA, N_HUBB, N_UNKHUB};
static const char *CFG_BOARD =
"boards:\n  - id: master\n    unique-id: 0xDA000D680001EE\n  - id: hubA\n    unique-id: 0x81000D7200AA01\n  - id: hubB\n    unique-id: 0x81000D7200BB02\n"
"  - id: leaf1\n    unique-id: 0x05000D6B000101\n  - id: leaf2\n    unique-id: 0x05000D6B000202\n  - id: leaf3\n    unique-id: 0x05000D6B000303\n";
static const char *CFG_TRACK = "boards:\n  - id: master\n";
static const char *CFG_TRAIN = "trains: []\n";

typedef struct { uint8_t parent[NC]; uint8_t perm; uint8_t change_at, change_kind; } tree_t;
static int depth_of(const tree_t *t, int c, int guard) {
	if (guard > 6) return 99; int pc = t->parent[c]; if (pc == 0) return 99; if (pc == 1) return 1;
	int p = PARENT_OF_CODE[pc]; if (t->parent[p] == 0) return 99; return 1 + depth_of(t, p, guard + 1);
}
static int tree_valid(const tree_t *t, int maxfan) {
	int fan[5] = {0, 0, 0, 0, 0};
	for (int c = 0; c < NC; c++) {
		int pc = t->parent[c]; if (pc == 0) continue;
		if (pc >= 2 && PARENT_OF_CODE[pc] == c) return 0;
		if (depth_of(t, c, 0) > 3) return 0;
		fan[pc]++;
	}
	for (int i = 1; i < 5; i++) if (fan[i] > maxfan) return 0;
	return 1;
}
/* build the simulated tree; sbidx[c] = simbus node index or -1 */
static int sbidx[NC];
static void build_tree(const tree_t *t) {
	sb_init(); for (int c = 0; c < NC; c++) sbidx[c] = -1;
	/* breadth first so that parents exist; the row order of an interface is the creation order of its children */
	for (int level = 1; level <= 3; level++) {
		int order[NC]; for (int i = 0; i < NC; i++) order[i] = (t->perm & 1) ? NC - 1 - i : i;
		if (t->perm & 2) { int tmp = order[0]; order[0] = order[2]; order[2] = tmp; tmp = order[3]; order[3] = order[5]; order[5] = tmp; }
		for (int k = 0; k < NC; k++) {
			int c = order[k]; if (t->parent[c] == 0 || sbidx[c] >= 0 || depth_of(t, c, 0) != level) continue;
			int pi = t->parent[c] == 1 ? 0 : sbidx[PARENT_OF_CODE[t->parent[c]]];
			if (pi < 0) continue;
			sbidx[c] = sb_add_node(pi, (uint8_t) (c + 1), CUID[c]);
		}
	}
}
static void tree_human(const tree_t *t, char *buf, size_t n) {
	size_t o = 0; static const char *pn[5] = {"absent", "root", "hubA", "hubB", "unknown-hub"};
	for (int c = 0; c < NC; c++) if (t->parent[c]) o += (size_t) snprintf(buf + o, n - o, "%s<-%s ", CNAME[c], pn[t->parent[c]]);
	snprintf(buf + o, n - o, "row-order=%d", t->perm);
}
/* expected (from the simulated tree) vs getters */
static const char *BOARD_ID[NC] = {"hubA", "hubB", "leaf1", "leaf2", "leaf3", NULL, NULL};
static void check_connectivity(const char *what) {
	t_bidib_id_list_query conn = bidib_get_boards_connected();
	for (int c = -1; c < NC; c++) {
		const char *id = c < 0 ? "master" : BOARD_ID[c]; if (!id) continue;
		int exp_conn = c < 0 ? 1 : (sbidx[c] >= 0 && sb_find(SB.n[sbidx[c]].addr) == sbidx[c]);
		const uint8_t *ea = c < 0 ? SB.n[0].addr : (sbidx[c] >= 0 ? SB.n[sbidx[c]].addr : NULL);
		int listed = 0; for (size_t i = 0; i < conn.length; i++) if (!strcmp(conn.ids[i], id)) listed++;
		bool bc = bidib_get_board_connected(id);
		t_bidib_node_address_query aq = bidib_get_nodeaddr(id);
		if (listed != exp_conn || bc != (bool) exp_conn) {
			char cls[200]; snprintf(cls, sizeof cls, "connectivity-wrong: board reported %s but the tree says %s", bc ? "connected" : "disconnected", exp_conn ? "present" : "absent");
			res_violation(cls, "%s: board %s listed=%d get_board_connected=%d expected=%d", what, id, listed, bc, exp_conn);
		} else if (exp_conn && (!aq.known_and_connected || aq.address.top != ea[0] || aq.address.sub != ea[1] || aq.address.subsub != ea[2])) {
			res_violation("address-wrong: connected board is not reported at the address formed by its path of local addresses", "%s: board %s reported %02x.%02x.%02x known=%d expected %02x.%02x.%02x", what, id,
			              aq.address.top, aq.address.sub, aq.address.subsub, aq.known_and_connected, ea[0], ea[1], ea[2]);
		}
	}
	bidib_free_id_list_query(conn);
}
static void start_or_die(void) {
	env_set_cfg(CFG_BOARD, CFG_TRACK, CFG_TRAIN);
	int rc = hx_start_normal(0);
	if (rc) res_violation("start-failed: start-up against the node tree returned an error", "bidib_start_pointer returned %d", rc);
	hx_quiesce();
}
/* ---------------------------------------------------------------- c15.tree / c15.change */
static tree_t g_tree; static int g_getnext_seen; static int g_changed;
static int change_hook(int node, const rc_msg_t *m) {
	if (m->type != MSG_NODETAB_GETNEXT || g_changed || node < 0) return 0;
	if (g_getnext_seen++ != g_tree.change_at) return 0;
	g_changed = 1;
	/* the change concerns the table of the interface that is being read */
	int child = -1; for (int i = SB.nn - 1; i > 0; i--) if (SB.n[i].parent == node && SB.n[i].present) { child = i; break; }
	if (g_tree.change_kind == 3) { child = -1; for (int i = 1; i < SB.nn; i++) if (SB.n[i].parent == node && SB.n[i].present) { child = i; break; } if (child < 0) return 0; SB.n[child].present = 0; }   /* first child: its row may already have been read */
	else if (g_tree.change_kind == 0) { if (child < 0) return 0; SB.n[child].present = 0; }
	else if (g_tree.change_kind == 1) { if (sbidx[N_LEAF3] >= 0) return 0; sbidx[N_LEAF3] = sb_add_node(node, 9, CUID[N_LEAF3]); if (sbidx[N_LEAF3] < 0) return 0; }
	else { if (child < 0) return 0; SB.n[child].present = 0; int c = -1; for (int k = 0; k < NC; k++) if (sbidx[k] == child) c = k; if (c < 0) return 0;
		sbidx[c] = sb_add_node(node, (uint8_t) (SB.n[child].local + 20), CUID[c]); }
	SB.n[node].tab_version++; SB.n[node].tab_iter = 0;
	int rows = 1; for (int i = 0; i < SB.nn; i++) if (SB.n[i].parent == node && SB.n[i].present) rows++;
	uint8_t d = (uint8_t) rows; sb_send(node, MSG_NODETAB_COUNT, &d, 1);
	res_printf("C table_changes_applied 1\n");
	return 1;
}
static void tree_child(const void *job, size_t n) {
	vs_dev_t devs[VS_MAXDEV]; int nd; size_t pl; const uint8_t *p = job_parse(job, n, devs, &nd, &pl);
	memcpy(&g_tree, p, sizeof g_tree);
	hx_child_begin(NULL, 0, 0, NULL, 0, 120ull * 1000000ull);
	build_tree(&g_tree);
	g_getnext_seen = 0; g_changed = 0; if (g_tree.change_at != 255) SB.on_msg = change_hook;
	start_or_die();
	char what[300]; tree_human(&g_tree, what, sizeof what);
	check_connectivity(what);
	/* commands go to the current address only */
	hx_hash_t h; hx_hash_init(&h);
	for (int c = -1; c < NC; c++) { const char *id = c < 0 ? "master" : BOARD_ID[c]; if (!id) continue; bool bc = bidib_get_board_connected(id); hx_hash_add(&h, &bc, sizeof bc); }
	hx_emit_ledger_violations("C15");
	res_printf("O %llx %llx\n", (unsigned long long) h.a, (unsigned long long) h.b);
	res_finish();
}
static tree_t *trees; static long ntrees, captrees;
static void add_tree(const tree_t *t) { if (ntrees == captrees) { captrees = captrees ? captrees * 2 : 4096; trees = realloc(trees, sizeof(tree_t) * (size_t) captrees); } trees[ntrees++] = *t; }
static size_t tree_gen(long idx, uint8_t *payload, char *human, size_t hn) {
	memcpy(payload, &trees[idx], sizeof(tree_t)); size_t o = 0;
	if (trees[idx].change_at != 255) o = (size_t) snprintf(human, hn, "table change kind %d at GETNEXT #%d; ", trees[idx].change_kind, trees[idx].change_at);
	tree_human(&trees[idx], human + o, hn - o); return sizeof(tree_t);
}
/* ---------------------------------------------------------------- c15.hist */
/* base tree: root: hubA(1), leaf1(3); hubA: leaf2(4), unknown-leaf(6).  events: lost(X), new(X under P at local L) */
typedef struct { int c; int parent_c; uint8_t local; } place_t;    /* parent_c: -1 root */
static const place_t NEWS[] = { {N_LEAF1, -1, 3}, {N_LEAF1, -1, 13}, {N_LEAF2, N_HUBA, 4}, {N_LEAF2, -1, 14}, {N_HUBA, -1, 1}, {N_LEAF3, -1, 5}, {N_LEAF3, N_HUBA, 15}, {N_UNKLEAF, N_HUBA, 6} };
#define N_NEWS 8
static const int LOSTS[] = {N_LEAF1, N_LEAF2, N_HUBA, N_UNKLEAF, N_LEAF3};
#define N_LOSTS 5
/* a new-node notice for a board the library still holds connected: the lost notice never arrived (dropped for its CRC, or the board
 * was moved and the new interface announces first), or the interface repeats its notice */
static const place_t MOVES[] = { {N_LEAF1, -1, 13}, {N_LEAF1, -1, 3}, {N_LEAF2, -1, 14}, {N_LEAF2, N_HUBA, 4} };
#define N_MOVES 4
#define H_EVENTS (N_NEWS + N_LOSTS + N_MOVES)
static const char *h_evname(int ev) {
	static char b[4][64]; static int k; char *s = b[k++ & 3];
	if (ev < N_LOSTS) snprintf(s, 64, "lost(%s)", CNAME[LOSTS[ev]]);
	else if (ev < N_LOSTS + N_NEWS) { const place_t *p = &NEWS[ev - N_LOSTS]; snprintf(s, 64, "new(%s under %s local %d)", CNAME[p->c], p->parent_c < 0 ? "root" : CNAME[p->parent_c], p->local); }
	else { const place_t *p = &MOVES[ev - N_LOSTS - N_NEWS]; snprintf(s, 64, "new-without-lost(%s under %s local %d)", CNAME[p->c], p->parent_c < 0 ? "root" : CNAME[p->parent_c], p->local); }
	return s;
}
static int present(int c) { return sbidx[c] >= 0 && sb_find(SB.n[sbidx[c]].addr) == sbidx[c]; }
static int logpos;
static void expect_ack(int iface, uint8_t version, const char *what) {
	int acks = 0, ok = 0;
	for (; logpos < SB.nlog; logpos++) if (SB.log[logpos].type == MSG_NODE_CHANGED_ACK) {
		acks++; if (!memcmp(SB.log[logpos].addr, SB.n[iface].addr, 4) && SB.log[logpos].dlen == 1 && SB.log[logpos].data[0] == version) ok++;
	}
	if (acks != 1 || ok != 1) res_violation("ack-wrong: a node-table notice is not acknowledged exactly once to its sender with the announced version", "%s: %d acknowledgements, %d correct (version %d)", what, acks, ok, version);
}
static int h_apply(int ev) {
	const char *what = h_evname(ev); uint8_t d[9];
	if (ev < N_LOSTS) {
		int c = LOSTS[ev]; if (!present(c)) return 0;
		int node = sbidx[c], iface = SB.n[node].parent;
		SB.n[node].present = 0; for (int i = 0; i < SB.nn; i++) { int k = SB.n[i].parent; while (k > 0) { if (k == node) { SB.n[i].present = 0; break; } k = SB.n[k].parent; } }
		d[0] = ++SB.n[iface].tab_version; d[1] = SB.n[node].local; memcpy(d + 2, SB.n[node].uid, 7);
		sb_send(iface, MSG_NODE_LOST, d, 9); vs_point(); hx_quiesce();
		expect_ack(iface, d[0], what);
	} else if (ev >= N_LOSTS + N_NEWS) {
		const place_t *p = &MOVES[ev - N_LOSTS - N_NEWS]; if (!present(p->c)) return 0;
		int iface = p->parent_c < 0 ? 0 : (present(p->parent_c) ? sbidx[p->parent_c] : -1); if (iface < 0) return 0;
		int old = sbidx[p->c];
		if (!(SB.n[old].parent == iface && SB.n[old].local == p->local)) {       /* elsewhere: the board leaves its place silently */
			for (int i = 0; i < SB.nn; i++) if (SB.n[i].parent == iface && SB.n[i].present && SB.n[i].local == p->local) return 0;
			if (SB.nn >= SB_MAXNODES - 1) return 0;
			SB.n[old].present = 0; sbidx[p->c] = sb_add_node(iface, p->local, CUID[p->c]);
		}
		d[0] = ++SB.n[iface].tab_version; d[1] = p->local; memcpy(d + 2, CUID[p->c], 7);
		sb_send(iface, MSG_NODE_NEW, d, 9); vs_point(); hx_quiesce();
		expect_ack(iface, d[0], what);
	} else {
		const place_t *p = &NEWS[ev - N_LOSTS]; if (present(p->c)) return 0;
		int iface = p->parent_c < 0 ? 0 : (present(p->parent_c) ? sbidx[p->parent_c] : -1); if (iface < 0) return 0;
		for (int i = 0; i < SB.nn; i++) if (SB.n[i].parent == iface && SB.n[i].present && SB.n[i].local == p->local) return 0;   /* address taken */
		if (SB.nn >= SB_MAXNODES - 1) return 0;
		sbidx[p->c] = sb_add_node(iface, p->local, CUID[p->c]);
		d[0] = ++SB.n[iface].tab_version; d[1] = p->local; memcpy(d + 2, CUID[p->c], 7);
		sb_send(iface, MSG_NODE_NEW, d, 9); vs_point(); hx_quiesce();
		expect_ack(iface, d[0], what);
	}
	check_connectivity(what);
	/* later commands: a ping to every configured board */
	for (int c = -1; c < NC; c++) {
		const char *id = c < 0 ? "master" : BOARD_ID[c]; if (!id) continue;
		int exp_conn = c < 0 ? 1 : present(c); int before = SB.nlog;
		int rc = bidib_ping(id, 0x5A); bidib_flush(); hx_quiesce();
		uint8_t *m; while ((m = bidib_read_message())) free(m);
		int pings = 0, right = 0;
		for (int i = before; i < SB.nlog; i++) if (SB.log[i].type == MSG_SYS_PING) { pings++; const uint8_t *ea = c < 0 ? SB.n[0].addr : SB.n[sbidx[c]].addr; if (exp_conn && !memcmp(SB.log[i].addr, ea, 4)) right++; }
		if (exp_conn && (rc != 0 || pings != 1 || right != 1)) res_violation("command-misaddressed: a command to a connected board did not go to its current address", "%s: ping %s rc=%d sent=%d to-current-address=%d", what, id, rc, pings, right);
		if (!exp_conn && (rc == 0 || pings)) res_violation("command-to-disconnected-board: a command was accepted/sent for a board that is not connected", "%s: ping %s rc=%d sent=%d", what, id, rc, pings);
	}
	logpos = SB.nlog;
	return 1;
}
static void hist_child(const void *job, size_t n) {
	vs_dev_t devs[VS_MAXDEV]; int nd; size_t pl; const uint8_t *p = job_parse(job, n, devs, &nd, &pl);
	int len = p[1]; const uint8_t *ev = p + 2;
	hx_child_begin(NULL, 0, 0, NULL, 0, 0);
	tree_t t; memset(&t, 0, sizeof t); t.parent[N_HUBA] = 1; t.parent[N_LEAF1] = 1; t.parent[N_LEAF2] = 2; t.parent[N_UNKLEAF] = 2; t.change_at = 255;
	build_tree(&t); start_or_die(); check_connectivity("after start-up");
	uint8_t *m; while ((m = bidib_read_message())) free(m); while ((m = bidib_read_error_message())) free(m);
	vs_sleep_us(2500000); hx_quiesce(); logpos = SB.nlog;
	for (int i = 0; i < len; i++) {
		if (!h_apply(ev[i])) { if (i == len - 1) res_printf("N 1\n"); else res_infra("inapplicable event inside a history"); res_finish(); }
		if (res_nviol() && i < len - 1) res_infra("violation before the last event");
	}
	hx_emit_ledger_violations("C15");
	char dump[2048]; size_t o = 0;
	for (int c = 0; c < NC; c++) o += (size_t) snprintf(dump + o, sizeof dump - o, "%d:%d@%02x%02x%02x;", c, present(c), present(c) ? SB.n[sbidx[c]].addr[0] : 0, present(c) ? SB.n[sbidx[c]].addr[1] : 0, present(c) ? SB.n[sbidx[c]].addr[2] : 0);
	for (int c = -1; c < NC; c++) { const char *id = c < 0 ? "master" : BOARD_ID[c]; if (!id) continue; t_bidib_node_address_query aq = bidib_get_nodeaddr(id);
		o += (size_t) snprintf(dump + o, sizeof dump - o, "%s=%d@%02x%02x%02x;", id, bidib_get_board_connected(id), aq.address.top, aq.address.sub, aq.address.subsub); }
	/* table versions by candidate (not by simulator node index: a re-added node gets a fresh index, which is an artefact of
	 * the order of events and made equal states look different one step later — found by the abstraction audit) */
	o += (size_t) snprintf(dump + o, sizeof dump - o, "v%d", SB.n[0].tab_version);
	for (int c = 0; c < NC; c++) o += (size_t) snprintf(dump + o, sizeof dump - o, "v%d", present(c) ? SB.n[sbidx[c]].tab_version : -1);
	hx_hash_t h; hx_hash_init(&h); hx_hash_add(&h, dump, o);
	if (getenv("VERIF_IN_REPLAY")) res_printf("X %s\n", dump);
	res_printf("S %llx %llx\n", (unsigned long long) h.a, (unsigned long long) h.b);
	res_finish();
}
void c15_register(void) { harness_register("c15.tree", tree_child); harness_register("c15.hist", hist_child); }
int c15_run(const char *tier) {
	int thorough = !strcmp(tier, "thorough");
	ntrees = 0; tree_t t; memset(&t, 0, sizeof t); t.change_at = 255;
	int maxfan = 3; long shapes = 0;
	/* every assignment of parents to the candidate nodes (quick: leaf3 and the unknown hub only as absent/root) */
	for (long code = 0; code < 78125; code++) {
		long c = code; int ok = 1;
		for (int k = 0; k < NC; k++) { t.parent[k] = (uint8_t) (c % 5); c /= 5; }
		if (t.parent[N_HUBA] == 2 || t.parent[N_HUBB] == 3 || t.parent[N_UNKHUB] == 4) ok = 0;
		if (!ok || !tree_valid(&t, maxfan)) continue;
		shapes++;
		for (int perm = 0; perm < 4; perm++) { t.perm = (uint8_t) perm; add_tree(&t); }
	}
	long plain_trees = ntrees;
	/* table changes at every GETNEXT of representative trees */
	static const uint8_t REP[6][NC] = { {1, 0, 1, 2, 0, 0, 0}, {1, 2, 1, 3, 0, 2, 0}, {1, 1, 2, 3, 0, 1, 0}, {0, 0, 1, 1, 0, 0, 0}, {1, 0, 2, 2, 0, 0, 1}, {1, 0, 1, 0, 0, 4, 1} };
	for (int r = 0; r < 6; r++) for (int kind = 0; kind < 4; kind++) for (int at = 0; at < 12; at++) {
		memcpy(t.parent, REP[r], NC); t.perm = 0; t.change_at = (uint8_t) at; t.change_kind = (uint8_t) kind; if (tree_valid(&t, 3)) add_tree(&t); }
	ex_spec_t e = { .harness = "c15.tree", .ncases = ntrees, .gen = tree_gen, .label = "c15.tree" };
	ex_map(&e);
	uint8_t param[1] = {0}; const char *d = getenv("VERIF_DEPTH");
	e2_spec_t s = { .harness = "c15.hist", .param = param, .nparam = 1, .nevents = H_EVENTS, .max_depth = d ? atoi(d) : (thorough ? 12 : 8), .label = "c15.hist", .evname = h_evname, .audit = thorough };
	e2_explore(&s);
	rep_count("states", s.states + e.distinct_outcomes); rep_count("transitions", s.transitions + e.done); rep_count("executions", s.execs + e.done);
	rep_flag("exhaustive", s.exhaustive && e.exhaustive);
	char sb[200]; size_t o = 0; for (int i = 0; i <= s.depth_completed + 1 && i < 16; i++) o += (size_t) snprintf(sb + o, sizeof sb - o, "%ld ", s.states_by_depth[i]);
	rep_note("trees: %ld shapes x row orders = %ld start-ups, + %ld mid-enumeration change cases (%ld applied); node-new/lost histories: %d events, depth %d, new states by depth: %s",
	         shapes, plain_trees, ntrees - plain_trees, rep_get("table_changes_applied"), H_EVENTS, s.depth_completed, sb);
	return 0;
}
