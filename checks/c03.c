/* C03 — per-node response budget never exceeded; deferred messages FIFO, exactly once, never stranded.
 * E2: breadth-first search over histories of send / answer / alternative answer / lost answer / spontaneous /
 * duplicate / tick events on two nodes, real library in debug mode, reference model ref_flow.
 * E1: two senders racing the receiver that processes answers. */
#include "../fw/explore.h"
#include "../fw/hx.h"
#include "../fw/ref_flow.h"
#include "include/bidib.h"
#include <stdio.h>
#include <stdlib.h>
#include <string.h>

static const uint8_t NADDR[2][4] = {{1, 0, 0, 0}, {1, 1, 0, 0}};
static const t_bidib_node_address NA[2] = {{1, 0, 0}, {1, 1, 0}};
#define SPONT_TYPE MSG_BM_CV

/* request classes: worst-case answer 0, 5, 13 (3 accepted answers), 21, 40, 6, 32 */
enum { RQ_ACK, RQ_PING, RQ_NODETAB, RQ_BMRANGE, RQ_CONFIGX, RQ_MAGIC, RQ_VENDOR, RQ_N };
static const uint8_t RQ_TYPE[RQ_N] = {MSG_NODE_CHANGED_ACK, MSG_SYS_PING, MSG_NODETAB_GETNEXT, MSG_BM_GET_RANGE, MSG_LC_CONFIGX_GET, MSG_SYS_GET_MAGIC, MSG_VENDOR_GET};
static const char *RQ_NAME[RQ_N] = {"ack0", "ping5", "nodetab13", "bmrange21", "configx40", "magic6", "vendor32"};
enum { UP_MATCH, UP_ALT, UP_LOST, UP_SPONT, UP_DUP, UP_N };
static const char *UP_NAME[UP_N] = {"answer", "alt-answer", "answer-lost", "spontaneous", "duplicate"};

static int n_rq(int thorough) { return thorough ? RQ_N : 5; }
static int n_events(int thorough) { return 2 * n_rq(thorough) + 2 * UP_N + 1 + 4; }   /* + stall(A,1) stall(A,0) stall(B,1) stall(B,0); B = 1.1.0 lies beneath A = 1.0.0 */
static int g_thorough;
static const char *evname(int ev) {
	static char b[4][48]; static int k; char *s = b[k++ & 3];
	int nr = n_rq(g_thorough);
	if (ev < 2 * nr) snprintf(s, 48, "send(%s,%s)", ev / nr ? "B" : "A", RQ_NAME[ev % nr]);
	else if (ev < 2 * nr + 2 * UP_N) { int u = ev - 2 * nr; snprintf(s, 48, "up(%s,%s)", u / UP_N ? "B" : "A", UP_NAME[u % UP_N]); }
	else if (ev == 2 * nr + 2 * UP_N) snprintf(s, 48, "tick(1s)");
	else { int k = ev - (2 * nr + 2 * UP_N + 1); snprintf(s, 48, "stall(%s,%d)", k / 2 ? "B" : "A", k % 2 ? 0 : 1); }
	return s;
}

static void do_send(int node, int cls, uint8_t tag) {
	switch (cls) {
	case RQ_ACK: bidib_send_node_changed_ack(NA[node], tag, 0); break;
	case RQ_PING: bidib_send_sys_ping(NA[node], tag, 0); break;
	case RQ_NODETAB: bidib_send_nodetab_getnext(NA[node], 0); break;
	case RQ_BMRANGE: bidib_send_bm_get_range(NA[node], 0, 8, 0); break;
	case RQ_CONFIGX: bidib_send_lc_configx_get(NA[node], 0, tag & 0x7f, 0); break;
	case RQ_MAGIC: bidib_send_sys_get_magic(NA[node], 0); break;
	case RQ_VENDOR: { uint8_t name[2] = {'a', tag}; bidib_send_vendor_get(NA[node], 2, name, 0); break; }
	}
}

typedef struct { uint8_t type; } sub_t;
static struct {
	rf_t rf;
	uint8_t pend[2][256]; int npend[2];        /* requests on the wire the simulated node has not answered yet */
	uint8_t submitted[2][256]; int nsub[2];    /* types submitted in order */
	int last_ans[2];
	size_t wire_off;
	int stall[2];                               /* stall flag reported by A / by B */
} S;
static int blocked(int node) { return S.stall[0] || (node == 1 && S.stall[1]); }

static void drain_queues(void) {
	uint8_t *m;
	while ((m = bidib_read_message())) free(m);
	while ((m = bidib_read_error_message())) free(m);
}

/* consume new wire bytes, update reference, check safety/order. returns 0 on violation */
static void absorb_wire(void) {
	static rc_pkt_t pk[64]; char err[200];
	size_t len = env_out_len() - S.wire_off;
	int np = rc_decode_strict(env_out() + S.wire_off, len, pk, 64, err, sizeof err);
	if (np < 0) { res_violation("wire-malformed", "%s", err); S.wire_off = env_out_len(); return; }
	S.wire_off = env_out_len();
	for (int i = 0; i < np; i++) for (int j = 0; j < pk[i].nmsgs; j++) {
		rc_msg_t *m = &pk[i].msgs[j];
		int node = !memcmp(m->addr, NADDR[0], 4) ? 0 : !memcmp(m->addr, NADDR[1], 4) ? 1 : -1;
		if (node < 0) { res_violation("wire-unknown-destination", "message to %02x.%02x.%02x", m->addr[0], m->addr[1], m->addr[2]); continue; }
		rf_node_t *rn = rf_node(&S.rf, m->addr);
		int idx = rn->wire_count;
		int expseq = (idx % 255) + 1;
		if (idx >= S.nsub[node] || S.submitted[node][idx] != m->type || m->seq != expseq)
			res_violation("order: messages to a node are not on the wire in submission order exactly once",
			              "node %c wire position %d: type %02x seq %d, expected type %02x seq %d", 'A' + node, idx, m->type, m->seq,
			              idx < S.nsub[node] ? S.submitted[node][idx] : 0, expseq);
		if (blocked(node)) res_violation("sent-into-stalled-subtree: a message reached the wire although its node or an ancestor reports a stall", "node %c, type %02x", 'A' + node, m->type);
		rf_on_wire(&S.rf, m, vs_now_us());
		if (m->type < 128 && rf_resp[m->type].size > 0 && S.npend[node] < 256) S.pend[node][S.npend[node]++] = m->type;
		int sum = rf_sum(rn->eager, rn->n_eager);
		if (sum > RF_LIMIT)
			res_violation("budget-exceeded: unanswered, unexpired requests on the wire exceed 48 response bytes",
			              "node %c: %d bytes outstanding after type %02x reached the wire", 'A' + node, sum, m->type);
	}
}

static void check_stranded(int node, const char *when) {
	uint8_t types[8]; int nd = vx_node_deferred(NADDR[node], types, 8);
	if (nd == 0 || blocked(node)) return;      /* while the node or an ancestor is stalled, holding back is what is required */
	rf_node_t *rn = rf_node(&S.rf, NADDR[node]);
	int size = types[0] < 128 ? rf_resp[types[0]].size : 0;
	int lazy = rf_sum(rn->lazy, rn->n_lazy), noexp = rf_sum(rn->noexp, rn->n_noexp);
	if (lazy + size <= RF_LIMIT) {
		const char *cause = (noexp + size <= RF_LIMIT) ? "answer-credit-or-retry-missing" : "expiry-not-applied";
		char cls[160]; snprintf(cls, sizeof cls, "stranded cause=%s at=%s", cause, when);
		res_violation(cls, "node %c: oldest held message type %02x (answer %d bytes) fits the budget (outstanding %d after answers and 2 s expiry; %d ignoring expiry) but was not handed to the transmit buffer; %d held",
		              'A' + node, types[0], size, lazy, noexp, nd);
	}
}
static void check_counts(void) {
	for (int node = 0; node < 2; node++) {
		uint8_t types[200]; int nd = vx_node_deferred(NADDR[node], types, 200);
		rf_node_t *rn = rf_node(&S.rf, NADDR[node]);
		if (rn->wire_count + nd != S.nsub[node])
			res_violation("lost-or-duplicated: submitted != on wire + held", "node %c: submitted %d, on wire %d, held %d", 'A' + node, S.nsub[node], rn->wire_count, nd);
		for (int i = 0; i < nd; i++) if (types[i] != S.submitted[node][rn->wire_count + i]) {
			res_violation("held-order: held messages are not in submission order", "node %c held[%d]=%02x expected %02x", 'A' + node, i, types[i], S.submitted[node][rn->wire_count + i]);
			break;
		}
	}
}

/* returns 0 when the event is not applicable in this state */
static int apply_event(int ev, int thorough) {
	int nr = n_rq(thorough);
	if (ev < 2 * nr) {
		int node = ev / nr, cls = ev % nr;
		S.submitted[node][S.nsub[node]] = RQ_TYPE[cls];
		do_send(node, cls, (uint8_t) (S.nsub[node] + 1)); S.nsub[node]++;
		bidib_flush(); hx_quiesce();
		rf_expire(&S.rf, vs_now_us());
		absorb_wire();
		check_stranded(node, "send");
	} else if (ev < 2 * nr + 2 * UP_N) {
		int u = ev - 2 * nr, node = u / UP_N, kind = u % UP_N; int type = -1;
		switch (kind) {
		case UP_MATCH: if (!S.npend[node]) return 0; type = rf_resp[S.pend[node][0]].acc[0]; break;
		case UP_ALT: if (!S.npend[node] || rf_resp[S.pend[node][0]].nacc < 2) return 0; type = rf_resp[S.pend[node][0]].acc[rf_resp[S.pend[node][0]].nacc - 1]; break;
		case UP_LOST: if (!S.npend[node]) return 0; break;
		case UP_SPONT: type = SPONT_TYPE; break;
		case UP_DUP: if (S.last_ans[node] < 0) return 0; type = S.last_ans[node]; break;
		}
		if (kind == UP_MATCH || kind == UP_ALT || kind == UP_LOST) { memmove(S.pend[node], S.pend[node] + 1, (size_t) --S.npend[node]); }
		if (kind == UP_LOST) return 1;        /* nothing arrives; state of the environment changed only */
		if (kind == UP_MATCH || kind == UP_ALT) S.last_ans[node] = type;
		uint8_t data[4] = {0, 0, 0, 0};
		hx_feed_msg(NADDR[node], 0, (uint8_t) type, data, 2);
		bidib_flush(); hx_quiesce();
		drain_queues();
		rf_on_uplink(&S.rf, NADDR[node], (uint8_t) type, vs_now_us());
		absorb_wire();
		check_stranded(node, "uplink");
	} else if (ev == 2 * nr + 2 * UP_N) {
		vs_sleep_us(1000000); hx_quiesce();
		bidib_flush(); hx_quiesce();
		rf_expire(&S.rf, vs_now_us());
		absorb_wire();
	} else {
		int k = ev - (2 * nr + 2 * UP_N + 1), node = k / 2, on = k % 2 ? 0 : 1;
		if (S.stall[node] == on) return 0;
		uint8_t d = (uint8_t) on; S.stall[node] = on;
		hx_feed_msg(NADDR[node], 0, MSG_STALL, &d, 1);
		bidib_flush(); hx_quiesce(); drain_queues();
		rf_expire(&S.rf, vs_now_us());
		absorb_wire();
		/* what the end of a stall can release: the node itself and (A only) the node beneath it.  A is NOT judged when B reports: the
		 * notice comes from B, the library applies A's 2 s expiry only when A is touched (a send to A, an uplink from A) — same rule as for a bare tick */
		if (!on) { check_stranded(node, "unstall"); if (node == 0) check_stranded(1, "unstall"); }
	}
	check_counts();
	return 1;
}

/* focused alphabet (second exploration, deeper): node A only — three request sizes, answer, lost answer, tick.  Histories such as
 * "X sent, tick, Y sent, Z held, tick, X's answer lost, Y answered" need seven steps */
static const int FOCUS[6] = {RQ_NODETAB, RQ_BMRANGE, RQ_CONFIGX, -1 /* up(A,answer) */, -2 /* up(A,lost) */, -3 /* tick */};
static int focus_event(int e) { int nr = n_rq(0); return FOCUS[e] >= 0 ? FOCUS[e] : FOCUS[e] == -1 ? 2 * nr + UP_MATCH : FOCUS[e] == -2 ? 2 * nr + UP_LOST : 2 * nr + 2 * UP_N; }
static const char *focus_evname(int e) { g_thorough = 0; return evname(focus_event(e)); }
static void c03_child(const void *job, size_t n) {
	vs_dev_t devs[VS_MAXDEV]; int nd; size_t pl;
	const uint8_t *p = job_parse(job, n, devs, &nd, &pl);
	int focused = p[0] >> 1, thorough = focused ? 0 : (p[0] & 1); int len = p[1]; uint8_t evbuf[16]; const uint8_t *ev = p + 2;
	if (focused) { for (int i = 0; i < len && i < 16; i++) evbuf[i] = (uint8_t) focus_event(p[2 + i]); ev = evbuf; }
	g_thorough = thorough;
	hx_child_begin(NULL, 0, 0, NULL, 0, 0);
	if (hx_start_debug(0)) res_infra("start failed");
	hx_quiesce();
	memset(&S, 0, sizeof S); rf_init(&S.rf); S.last_ans[0] = S.last_ans[1] = -1;
	rf_node(&S.rf, NADDR[0]); rf_node(&S.rf, NADDR[1]);
	for (int i = 0; i < len; i++) {
		int ok = apply_event(ev[i], thorough);
		if (!ok) { if (i == len - 1) res_printf("N 1\n"); else res_infra("inapplicable event inside a history"); res_finish(); }
		if (res_nviol() && i < len - 1) res_infra("violation before the last event of a history (should have been cut)");
	}
	hx_emit_ledger_violations("C03");
	static char dump[1 << 16]; size_t o = hx_dump_tx(dump, sizeof dump);
	o += rf_dump(&S.rf, dump + o, sizeof dump - o, vs_now_us());
	for (int node = 0; node < 2; node++) {
		o += (size_t) snprintf(dump + o, sizeof dump - o, "P%d[", node);
		for (int i = 0; i < S.npend[node]; i++) o += (size_t) snprintf(dump + o, sizeof dump - o, "%02x", S.pend[node][i]);
		o += (size_t) snprintf(dump + o, sizeof dump - o, "]sub%d la%d st%d;", S.nsub[node], S.last_ans[node], S.stall[node]);
	}
	hx_hash_t h; hx_hash_init(&h); hx_hash_add(&h, dump, o);
	res_printf("S %llx %llx\n", (unsigned long long) h.a, (unsigned long long) h.b);
	if (getenv("VERIF_DUMP")) res_printf("X %s\n", dump);
	res_finish();
}


/* ---------------------------------------------------------------- c03.sched (E1): the budget under concurrency
 * Node A starts with 40 of 48 bytes in use (8 unanswered pings).  Two PONG answers are waiting in the input; the receiver
 * credits them while two application threads submit further requests (5-byte and 21-byte answers).  For every schedule:
 *  - at every write of the library, the answer sizes of all requests to A written so far, minus 5 bytes for every PONG packet
 *    the read callback had completely delivered when that write was made (a correct implementation cannot credit earlier),
 *    is <= 48;
 *  - messages to A are on the wire in sequence-number order exactly once;
 *  - at quiescence nothing is held that would fit. */
static void *cs_t1(void *arg) { (void) arg; bidib_send_sys_ping(NA[0], 0x31, 0); bidib_send_sys_ping(NA[0], 0x32, 0); bidib_flush(); return NULL; }
static void *cs_t2(void *arg) { (void) arg; bidib_send_bm_get_range(NA[0], 0, 8, 0); bidib_send_sys_ping(NA[0], 0x41, 0); bidib_flush(); return NULL; }
static void c03_sched_child(const void *job, size_t n) {
	vs_dev_t devs[VS_MAXDEV]; int nd; size_t pl; const uint8_t *p = job_parse(job, n, devs, &nd, &pl); int unlock_pts = pl > 0 && p[0] == 1;
	hx_child_begin(devs, nd, 1, NULL, 0, 0);
	if (hx_start_debug(0)) res_infra("start failed");
	hx_quiesce();
	for (int i = 0; i < 8; i++) bidib_send_sys_ping(NA[0], (uint8_t) i, 0);
	bidib_flush(); hx_quiesce();
	size_t in_base = env_bytes_consumed(); size_t ans_end[2]; size_t off = 0;
	for (int k = 0; k < 2; k++) { uint8_t d = (uint8_t) k, m[16], f[40]; int ml = rc_build_msg(m, NADDR[0], (uint8_t) (k + 1), MSG_SYS_PONG, &d, 1); size_t fl = rc_frame(f, m, (size_t) ml, 1); env_push_quiet(f, fl); off += fl; ans_end[k] = in_base + off; }
	vs_unlock_points = unlock_pts;      /* second pass: what the senders / the receiver still do after dropping a lock is interruptible */
	vs_window(1);
	int t1 = vs_spawn(cs_t1, NULL), t2 = vs_spawn(cs_t2, NULL);
	vs_join_tid(t1); vs_join_tid(t2); hx_quiesce();
	vs_window(0);
	vs_unlock_points = 0;
	bidib_flush(); hx_quiesce(); drain_queues();
	/* oracle over the write log */
	static rc_pkt_t pk[64]; char err[200]; int used = 0, lastseq = 0, count = 0; hx_hash_t h; hx_hash_init(&h);
	for (int w = 0; w < env_nwrites(); w++) {
		const env_write_t *W = &env_writes()[w];
		int np = rc_decode_strict(env_out() + W->off, W->len, pk, 64, err, sizeof err);
		if (np < 0) continue;      /* a packet split over several writes: C01's subject; the complete stream is checked below */
		int credit = 0; for (int k = 0; k < 2; k++) if (W->consumed >= ans_end[k]) credit += 5;
		for (int i = 0; i < np; i++) for (int j = 0; j < pk[i].nmsgs; j++) { rc_msg_t *m = &pk[i].msgs[j]; if (memcmp(m->addr, NADDR[0], 4)) continue;
			used += m->type < 128 ? rf_resp[m->type].size : 0; count++;
			if (m->seq != lastseq + 1) res_violation("order: messages to a node are not on the wire in submission order exactly once", "sequence %d after %d", m->seq, lastseq);
			lastseq = m->seq; hx_hash_add(&h, &m->type, 1);
			if (used - credit > 48) { res_violation("budget-exceeded: more than 48 bytes of worst-case answers outstanding at a node", "write %d: %d bytes requested in total, %d bytes credited by the %d answer(s) the library had read by then", w, used, credit, credit / 5); goto done; } }
	}
done:;
	vx_node_info_t ni; if (vx_node_info(NADDR[0], &ni)) {
		uint8_t types[8]; int ndf = vx_node_deferred(NADDR[0], types, 8);
		if (ndf > 0 && !ni.stall && ni.used + rf_resp[types[0] & 127].size <= 48) res_violation("stranded-at-quiescence: the oldest held message fits the budget but was not transmitted", "used %d, held %d, head type %02x", ni.used, ndf, types[0]);
		if (count + ndf != 12) res_violation("message-count", "%d on the wire + %d held, 12 submitted", count, ndf);
		hx_hash_add(&h, &ndf, sizeof ndf);
	}
	hx_emit_ledger_violations("C03");
	res_printf("O %llx %llx\n", (unsigned long long) h.a, (unsigned long long) h.b);
	hx_emit_trace(); res_finish();
}
void c03_register(void) { harness_register("c03.hist", c03_child); harness_register("c03.sched", c03_sched_child); }

int c03_run(const char *tier) {
	int thorough = !strcmp(tier, "thorough"); g_thorough = thorough;
	uint8_t param[1] = {(uint8_t) thorough};
	const char *d = getenv("VERIF_DEPTH");
	e2_spec_t s = { .harness = "c03.hist", .param = param, .nparam = 1, .nevents = n_events(thorough),
	                .max_depth = d ? atoi(d) : (thorough ? 6 : 5), .label = "c03.hist", .evname = evname };
	e2_explore(&s);
	{ uint8_t fp[1] = {2}; e2_spec_t f = { .harness = "c03.hist", .param = fp, .nparam = 1, .nevents = 6, .max_depth = d ? atoi(d) : (thorough ? 10 : 7), .label = "c03.hist(focused: node A, 3 request sizes, answer, lost answer, tick)", .evname = focus_evname };
	  e2_explore(&f); s.states += f.states; s.transitions += f.transitions; s.execs += f.execs; if (!f.exhaustive) s.exhaustive = 0; g_thorough = thorough;
	  char fb[256]; size_t fo = 0; for (int i = 0; i <= f.depth_completed + 1 && i < 16; i++) fo += (size_t) snprintf(fb + fo, sizeof fb - fo, "%ld ", f.states_by_depth[i]);
	  rep_note("c03.hist focused alphabet: 6 events, depth completed=%d, new states by depth: %s", f.depth_completed, fb); }
	{ e1_spec_t es = { .harness = "c03.sched", .param = "", .nparam = 0, .bound = thorough ? 3 : 2, .label = "c03.sched two senders || receiver crediting answers" };
	  e1_explore(&es); long ex = 0; for (int k = 0; k < 8; k++) ex += es.schedules_by_cost[k]; s.execs += ex; s.states += es.distinct_outcomes; s.transitions += es.choice_points; if (!es.exhaustive) s.exhaustive = 0;
	  rep_note("c03.sched: bound=%d completed=%d schedules by cost=[%ld,%ld,%ld,%ld] distinct outcomes=%ld contended=%ld", es.bound, es.completed_bound, es.schedules_by_cost[0], es.schedules_by_cost[1], es.schedules_by_cost[2], es.schedules_by_cost[3], es.distinct_outcomes, es.contended_execs); }
	{ uint8_t up[1] = {1}; e1_spec_t es = { .harness = "c03.sched", .param = up, .nparam = 1, .bound = thorough ? 2 : 1, .label = "c03.sched two senders || receiver, points after every unlock" };
	  e1_explore(&es); long ex = 0; for (int k = 0; k < 8; k++) ex += es.schedules_by_cost[k]; s.execs += ex; s.states += es.distinct_outcomes; s.transitions += es.choice_points; if (!es.exhaustive) s.exhaustive = 0;
	  rep_note("c03.sched with a scheduling point after every unlock: bound=%d completed=%d schedules by cost=[%ld,%ld,%ld] distinct outcomes=%ld", es.bound, es.completed_bound, es.schedules_by_cost[0], es.schedules_by_cost[1], es.schedules_by_cost[2], es.distinct_outcomes); }
	rep_count("states", s.states); rep_count("transitions", s.transitions); rep_count("executions", s.execs);
	rep_count("depth_completed", s.depth_completed); rep_flag("exhaustive", s.exhaustive);
	char sb[256]; size_t o = 0; for (int i = 0; i <= s.depth_completed + 1 && i < 16; i++) o += (size_t) snprintf(sb + o, sizeof sb - o, "%ld ", s.states_by_depth[i]);
	rep_note("c03.hist: alphabet=%d events, depth completed=%d, new states by depth: %s", s.nevents, s.depth_completed, sb);
	return 0;
}
