/* C08 — train presence / position / orientation always agree with the segment address lists.
 *  c08.hist : E2 BFS over MSG_BM_OCC / MSG_BM_FREE / MSG_BM_MULTIPLE / MSG_BM_ADDRESS reports for seg1, seg2 (master) and
 *             seg4 (oc1); address lists of 0..2 entries out of train1, train2 (both orientation codes), one unknown
 *             locomotive address and an accessory-type entry, and the free form (single address 0x0000).
 * Oracle (no reference model, getter results only), after every processed report:
 *   for each configured train T with DCC address A
 *     listing(T) := { segment s | bidib_get_segment_state(s) lists A }          (all five configured segments)
 *     bidib_get_train_on_track(T), bidib_get_train_state(T).on_track, bidib_get_state().trains[T].on_track  ==  listing(T) != {}
 *     bidib_get_trains_on_track() contains T  <=>  listing(T) != {}            (and contains nothing else)
 *     bidib_get_train_position(T).segments  ==  listing(T)   as a set, every segment once
 *     every reported orientation (position query, train state, snapshot) is one that some segment reports with A
 *   bidib_get_state().segments[s] lists the same addresses as bidib_get_segment_state(s)
 *   a segment just reported free (MSG_BM_FREE, or its bit cleared in MSG_BM_MULTIPLE) lists no address.
 * State key: sd_dump (segments and trains are part of it).  Normal mode, simulated bus, standard configuration model. */
#include "../fw/explore.h"
#include "../fw/hx.h"
#include "../fw/simbus.h"
#include "../fw/cfgmodel.h"
#include "../fw/statedump.h"
#include "include/bidib.h"
#include <stdio.h>
#include <stdlib.h>
#include <string.h>

static cm_model_t M;
#define T1L 0x23
#define T1H 0x01
#define T2L 0x02
#define T2H 0x03
#define BACK 0x80      /* address bits 15..14 = 10: locomotive, backward */
#define ACCT 0x40      /* address bits 15..14 = 01: accessory decoder */
/* reported segments: index -> (board, detector number, id) */
static const struct { int board; uint8_t num; const char *id; } SEG[3] = {{0, 0, "seg1"}, {0, 1, "seg2"}, {1, 0, "seg4"}};
static const char *ALLSEG[5] = {"seg1", "seg2", "seg3", "seg4", NULL};
/* address lists */
static const struct { const char *name; int n; uint8_t e[4]; } LIST[] = {
	{"[]", 0, {0}}, {"[0000] (free form)", 1, {0, 0}}, {"[train1 fwd]", 1, {T1L, T1H}}, {"[train1 back]", 1, {T1L, T1H | BACK}},
	{"[train2 fwd]", 1, {T2L, T2H}}, {"[train2 back]", 1, {T2L, T2H | BACK}}, {"[unknown loco 0555]", 1, {0x55, 0x05}},
	{"[train1 fwd, train2 back]", 2, {T1L, T1H, T2L, T2H | BACK}}, {"[accessory 1122, train1 back]", 2, {0x22, 0x11 | ACCT, T1L, T1H | BACK}},
	/* the same decoder twice in one list is not a report a detector can produce: not generated */
};
#define NLIST ((int) (sizeof LIST / sizeof LIST[0]))
typedef struct { int board; uint8_t type; uint8_t d[8]; int dl; char name[80]; } ev_t;
static ev_t EV[64]; static int nev;
static void ev_add(int board, uint8_t type, const uint8_t *d, int dl, const char *fmt, const char *a, const char *b) {
	ev_t *e = &EV[nev++]; e->board = board; e->type = type; e->dl = dl; memcpy(e->d, d, (size_t) dl); snprintf(e->name, sizeof e->name, fmt, a, b);
}
static void ev_build(void) {
	nev = 0; uint8_t d[8];
	for (int s = 0; s < 3; s++) { d[0] = SEG[s].num; ev_add(SEG[s].board, MSG_BM_OCC, d, 1, "occ %s%s", SEG[s].id, ""); ev_add(SEG[s].board, MSG_BM_FREE, d, 1, "free %s%s", SEG[s].id, ""); }
	static const char *MN[4] = {"seg1 free seg2 free", "seg1 occ seg2 free", "seg1 free seg2 occ", "seg1 occ seg2 occ"};
	for (int v = 0; v < 4; v++) { d[0] = 0; d[1] = 8; d[2] = (uint8_t) v; ev_add(0, MSG_BM_MULTIPLE, d, 3, "multiple master: %s%s", MN[v], ""); }
	for (int v = 0; v < 2; v++) { d[0] = 0; d[1] = 8; d[2] = (uint8_t) v; ev_add(1, MSG_BM_MULTIPLE, d, 3, "multiple oc1: seg4 %s%s", v ? "occ" : "free", ""); }
	{ uint8_t z = 0; ev_add(-1, 0, &z, 0, "bidib_send_sys_reset (detectors answer)%s%s", "", ""); ev_add(-1, 1, &z, 0, "bidib_send_sys_reset (detectors silent)%s%s", "", ""); }
	/* messages and commands that are NOT occupancy reports: "after every processed message" also binds them — nothing but the
	 * segment data may decide presence, position and orientation (board -2: an API call, type = which) */
	{ uint8_t m0[9] = {T1L, T1H, 3, 0, 0, 0, 0, 0, 0}; ev_add(0, MSG_CS_DRIVE_MANUAL, m0, 9, "drive-manual train1 released (active=0)%s%s", "", "");
	  uint8_t m1[9] = {T1L, T1H, 3, 3, 0x85, 0x10, 0, 0, 0}; ev_add(0, MSG_CS_DRIVE_MANUAL, m1, 9, "drive-manual train1 speed 5 forwards%s%s", "", "");
	  uint8_t c0[3] = {0, 1, 0}; ev_add(0, MSG_BM_CONFIDENCE, c0, 3, "confidence seg1 void%s%s", "", "");
	  uint8_t z = 0; ev_add(-2, 0, &z, 0, "bidib_send_cs_drive(train2, active=0)%s%s", "", ""); ev_add(-2, 1, &z, 0, "bidib_set_train_speed(train2, -3)%s%s", "", ""); }
	for (int s = 0; s < 3; s++) for (int l = 0; l < NLIST; l++) { d[0] = SEG[s].num; memcpy(d + 1, LIST[l].e, (size_t) (2 * LIST[l].n)); ev_add(SEG[s].board, MSG_BM_ADDRESS, d, 1 + 2 * LIST[l].n, "address %s %s", SEG[s].id, LIST[l].name); }
}
/* two further events are not uplink messages: bidib_send_sys_reset with detectors that answer the occupancy query of the
 * restart dialogue (all free), and with detectors that stay silent (type 0 / 1 as marker, board -1) */
static int silent_detectors; static int det_hook(int node, const rc_msg_t *m) { (void) node; return silent_detectors && (m->type == MSG_BM_GET_RANGE || m->type == MSG_BM_ADDR_GET_RANGE || m->type == MSG_BM_GET_CONFIDENCE); }
static const char *evname(int ev) { if (!nev) ev_build(); return EV[ev].name; }

static void drain(void) { uint8_t *m; while ((m = bidib_read_message())) free(m); while ((m = bidib_read_error_message())) free(m); }
static void begin_normal(void) {
	hx_child_begin(NULL, 0, 0, NULL, 0, 0);
	if (getenv("VERIF_LOG")) env_log_to_stderr = 1;
	cm_std(&M); cm_install(&M); SB.on_msg = NULL;
	if (hx_start_normal(0)) res_infra("normal start failed");
	hx_quiesce(); bidib_flush(); hx_quiesce(); drain();
}
static const char *lists_text(void) {   /* the segment data the derived values are judged against */
	static char b[400]; size_t o = 0; b[0] = 0;
	for (int s = 0; ALLSEG[s]; s++) { t_bidib_segment_state_query q = bidib_get_segment_state(ALLSEG[s]);
		o += (size_t) snprintf(b + o, sizeof b - o, "%s=[", ALLSEG[s]);
		if (q.known) for (size_t k = 0; k < q.data.dcc_address_cnt && o + 20 < sizeof b; k++) o += (size_t) snprintf(b + o, sizeof b - o, "%02x%02x/%u,", q.data.dcc_addresses[k].addrh, q.data.dcc_addresses[k].addrl, q.data.dcc_addresses[k].type);
		o += (size_t) snprintf(b + o, sizeof b - o, "] "); bidib_free_segment_state_query(q); }
	return b;
}
/* the coupling invariant on getter results; returns number of violations reported */
static int check_coupling(const char *what) {
	int bad = 0;
	t_bidib_track_state st = bidib_get_state();
	/* (a) snapshot segments == single getter */
	for (int s = 0; ALLSEG[s]; s++) { t_bidib_segment_state_query q = bidib_get_segment_state(ALLSEG[s]); int found = 0;
		if (!q.known) { res_violation("segment-unknown getter=bidib_get_segment_state", "%s: %s", what, ALLSEG[s]); bad++; }
		for (size_t i = 0; i < st.segments_count; i++) if (!strcmp(st.segments[i].id, ALLSEG[s])) { found = 1; const t_bidib_segment_state_data *a = &st.segments[i].data;
			int same = q.known && a->dcc_address_cnt == q.data.dcc_address_cnt;
			for (size_t k = 0; same && k < a->dcc_address_cnt; k++) if (a->dcc_addresses[k].addrl != q.data.dcc_addresses[k].addrl || a->dcc_addresses[k].addrh != q.data.dcc_addresses[k].addrh || a->dcc_addresses[k].type != q.data.dcc_addresses[k].type) same = 0;
			if (!same) { res_violation("snapshot-differs-from-getter entity=segment", "%s: %s: bidib_get_state lists %zu address(es), bidib_get_segment_state %zu; %s", what, ALLSEG[s], a->dcc_address_cnt, q.known ? q.data.dcc_address_cnt : 0, lists_text()); bad++; } }
		if (!found) { res_violation("snapshot-differs-from-getter entity=segment", "%s: %s missing in bidib_get_state", what, ALLSEG[s]); bad++; }
		bidib_free_segment_state_query(q); }
	t_bidib_id_list_query on = bidib_get_trains_on_track();
	for (int t = 0; t < M.nt; t++) {
		const char *id = M.t[t].id;
		/* listing(T) from the single-segment getter */
		const char *lst[8]; int nl = 0, orimask = 0;    /* orimask bit0: some segment reports the address forward (left), bit1: backward (right) */
		for (int s = 0; ALLSEG[s]; s++) { t_bidib_segment_state_query q = bidib_get_segment_state(ALLSEG[s]); int hit = 0;
			if (q.known) for (size_t k = 0; k < q.data.dcc_address_cnt; k++) if (q.data.dcc_addresses[k].addrl == M.t[t].addrl && q.data.dcc_addresses[k].addrh == M.t[t].addrh) { hit = 1; orimask |= q.data.dcc_addresses[k].type == 0 ? 1 : 2; }
			if (hit) lst[nl++] = ALLSEG[s];
			bidib_free_segment_state_query(q); }
		int exp_on = nl > 0;
		/* on-track, three getters */
		bool g1 = bidib_get_train_on_track(id);
		if ((int) g1 != exp_on) { res_violation("train-on-track-differs getter=bidib_get_train_on_track", "%s: %s reported %d, segments: %s", what, id, g1, lists_text()); bad++; }
		t_bidib_train_state_query ts = bidib_get_train_state(id);
		if (!ts.known) { res_violation("train-unknown getter=bidib_get_train_state", "%s: %s", what, id); bad++; }
		else {
			if ((int) ts.data.on_track != exp_on) { res_violation("train-on-track-differs getter=bidib_get_train_state", "%s: %s reported %d, segments: %s", what, id, ts.data.on_track, lists_text()); bad++; }
			else if (exp_on && !(orimask & (ts.data.orientation == BIDIB_TRAIN_ORIENTATION_LEFT ? 1 : 2))) { res_violation("train-orientation-differs getter=bidib_get_train_state", "%s: %s reported %s, segments: %s", what, id, ts.data.orientation == BIDIB_TRAIN_ORIENTATION_LEFT ? "left" : "right", lists_text()); bad++; }
		}
		bidib_free_train_state_query(ts);
		int in_snapshot = 0;
		for (size_t i = 0; i < st.trains_count; i++) if (!strcmp(st.trains[i].id, id)) { in_snapshot = 1; const t_bidib_train_state_data *d = &st.trains[i].data;
			if ((int) d->on_track != exp_on) { res_violation("train-on-track-differs getter=bidib_get_state", "%s: %s reported %d, segments: %s", what, id, d->on_track, lists_text()); bad++; }
			else if (exp_on && !(orimask & (d->orientation == BIDIB_TRAIN_ORIENTATION_LEFT ? 1 : 2))) { res_violation("train-orientation-differs getter=bidib_get_state", "%s: %s reported %s, segments: %s", what, id, d->orientation == BIDIB_TRAIN_ORIENTATION_LEFT ? "left" : "right", lists_text()); bad++; } }
		if (!in_snapshot) { res_violation("snapshot-differs-from-getter entity=train", "%s: %s missing in bidib_get_state", what, id); bad++; }
		int listed = 0; for (size_t i = 0; i < on.length; i++) if (!strcmp(on.ids[i], id)) listed++;
		if (listed != exp_on) { res_violation("trains-on-track-list-differs getter=bidib_get_trains_on_track", "%s: %s listed %d time(s), segments: %s", what, id, listed, lists_text()); bad++; }
		/* position */
		t_bidib_train_position_query p = bidib_get_train_position(id);
		int same = (int) p.length == nl;
		for (int i = 0; same && i < nl; i++) { int cnt = 0; for (size_t k = 0; k < p.length; k++) if (p.segments[k] && !strcmp(p.segments[k], lst[i])) cnt++; if (cnt != 1) same = 0; }
		if (!same) { char pt[160]; size_t o = 0; pt[0] = 0; for (size_t k = 0; k < p.length && o + 30 < sizeof pt; k++) o += (size_t) snprintf(pt + o, sizeof pt - o, "%s,", p.segments[k] ? p.segments[k] : "(null)");
			res_violation("train-position-differs getter=bidib_get_train_position", "%s: %s position [%s], segments: %s", what, id, pt, lists_text()); bad++; }
		else if (nl > 0 && !(orimask & (p.orientation_is_left ? 1 : 2))) { res_violation("train-orientation-differs getter=bidib_get_train_position", "%s: %s reported %s, segments: %s", what, id, p.orientation_is_left ? "left" : "right", lists_text()); bad++; }
		bidib_free_train_position_query(p);
	}
	for (size_t i = 0; i < on.length; i++) { int known = 0; for (int t = 0; t < M.nt; t++) if (!strcmp(on.ids[i], M.t[t].id)) known = 1;
		if (!known) { res_violation("trains-on-track-list-differs getter=bidib_get_trains_on_track", "%s: lists %s which is not a configured train", what, on.ids[i]); bad++; } }
	bidib_free_id_list_query(on); bidib_free_track_state(st);
	return bad;
}
static int check_freed(const ev_t *e, const char *what) {
	int bad = 0;
	for (int s = 0; s < 3; s++) { if (SEG[s].board != e->board) continue; int freed = 0;
		if (e->type == MSG_BM_FREE && e->d[0] == SEG[s].num) freed = 1;
		if (e->type == MSG_BM_MULTIPLE && SEG[s].num >= e->d[0] && SEG[s].num < e->d[0] + e->d[1] && !(e->d[2 + (SEG[s].num - e->d[0]) / 8] >> ((SEG[s].num - e->d[0]) % 8) & 1)) freed = 1;
		if (!freed) continue;
		t_bidib_segment_state_query q = bidib_get_segment_state(SEG[s].id);
		if (q.known && q.data.dcc_address_cnt != 0) { char cls[120]; snprintf(cls, sizeof cls, "freed-segment-lists-addresses type=%s", e->type == MSG_BM_FREE ? "MSG_BM_FREE" : "MSG_BM_MULTIPLE");
			res_violation(cls, "%s: %s still lists %zu address(es): %s", what, SEG[s].id, q.data.dcc_address_cnt, lists_text()); bad++; }
		bidib_free_segment_state_query(q); }
	return bad;
}
static void hist_child(const void *job, size_t n) {
	vs_dev_t devs[VS_MAXDEV]; int nd; size_t pl; const uint8_t *p = job_parse(job, n, devs, &nd, &pl);
	int len = p[1]; const uint8_t *ev = p + 2;
	ev_build(); begin_normal();
	long checks = 0;
	if (check_coupling("after start-up") == 0) for (int i = 0; i < len; i++) {
		const ev_t *e = &EV[ev[i]]; char what[160]; snprintf(what, sizeof what, "event %d: %s", i, e->name);
		if (e->board == -2) {
			if (e->type == 0) { t_bidib_node_address a = {0, 0, 0}; t_bidib_cs_drive_mod dp; memset(&dp, 0, sizeof dp); dp.dcc_address.addrl = T2L; dp.dcc_address.addrh = T2H; dp.dcc_format = 2; dp.active = 0; bidib_send_cs_drive(a, dp, 0); }
			else bidib_set_train_speed("train2", -3, "master");
			bidib_flush(); hx_quiesce(); drain();
		} else if (e->board < 0) { silent_detectors = e->type; SB.on_msg = det_hook; bidib_send_sys_reset(0); hx_quiesce(); vs_sleep_us(3500000); hx_quiesce(); bidib_flush(); hx_quiesce(); drain(); silent_detectors = 0; SB.on_msg = NULL; }
		else { sb_send(M.b[e->board].sbnode, e->type, e->d, e->dl); vs_point(); hx_quiesce(); drain(); }
		int bad = (e->board < 0 ? 0 : check_freed(e, what)) + check_coupling(what); checks++;
		if (bad) { if (i < len - 1) res_infra("violation before the last event"); break; }
	}
	hx_emit_ledger_violations("C08");
	static char dump[1 << 15]; sd_dump(dump, sizeof dump); hx_hash_t h; hx_hash_init(&h); hx_hash_str(&h, dump);
	res_printf("S %llx %llx\nC coupling_checks %ld\n", (unsigned long long) h.a, (unsigned long long) h.b, checks);
	res_finish();
}
/* ---------------------------------------------------------------- c08.sched (E1): "the derived values never lag", seen by a reader
 * One report is processed by the receiver while an application thread reads FIRST the segment (the source), THEN the train (the
 * derived values).  Two separate getter calls are not atomic, so the train may be NEWER than the segment that was read — but never
 * older: once the segment shows the new address list, presence / position / orientation derived from it must be in place.
 * variants: train1 enters seg1 (address report), leaves it (free report), leaves it (multiple report), turns round (address
 * report with the other orientation).  All schedules up to the preemption bound. */
static int sched_variant; static struct { int seg_cnt, seg_dir; int on, poslen, left; } OBS;
static void *sched_reader(void *arg) { (void) arg;
	t_bidib_segment_state_query q = bidib_get_segment_state("seg1"); OBS.seg_cnt = q.known ? (int) q.data.dcc_address_cnt : -1; OBS.seg_dir = q.known && q.data.dcc_address_cnt ? (int) q.data.dcc_addresses[0].type : -1; bidib_free_segment_state_query(q);
	OBS.on = bidib_get_train_on_track("train1") ? 1 : 0;
	t_bidib_train_position_query pq = bidib_get_train_position("train1"); OBS.poslen = (int) pq.length; OBS.left = pq.orientation_is_left ? 1 : 0; bidib_free_train_position_query(pq);
	return NULL; }
static void sched_child(const void *job, size_t n) {
	vs_dev_t devs[VS_MAXDEV]; int nd; size_t pl; const uint8_t *p = job_parse(job, n, devs, &nd, &pl);
	sched_variant = p[0];
	hx_child_begin(devs, nd, 1, NULL, 0, 0);
	cm_std(&M); cm_install(&M); SB.on_msg = NULL;
	if (hx_start_normal(0)) res_infra("normal start failed");
	hx_quiesce(); bidib_flush(); hx_quiesce(); drain();
	uint8_t occ0 = 0, enter[3] = {0, T1L, T1H}, back[3] = {0, T1L, T1H | BACK}, mfree[3] = {0, 8, 0x00};
	if (sched_variant != 0) { sb_send(M.b[0].sbnode, MSG_BM_OCC, &occ0, 1); sb_send(M.b[0].sbnode, MSG_BM_ADDRESS, enter, 3); vs_point(); hx_quiesce(); drain(); }
	else { sb_send(M.b[0].sbnode, MSG_BM_OCC, &occ0, 1); vs_point(); hx_quiesce(); drain(); }
	/* the report under test waits in the input */
	{ uint8_t mm[40], f[90]; int sbn = M.b[0].sbnode; uint8_t seq = SB.n[sbn].seq; SB.n[sbn].seq = seq == 255 ? 1 : (uint8_t) (seq + 1); int ml;
	  if (sched_variant == 0) ml = rc_build_msg(mm, SB.n[sbn].addr, seq, MSG_BM_ADDRESS, enter, 3);
	  else if (sched_variant == 1) ml = rc_build_msg(mm, SB.n[sbn].addr, seq, MSG_BM_FREE, &occ0, 1);
	  else if (sched_variant == 2) ml = rc_build_msg(mm, SB.n[sbn].addr, seq, MSG_BM_MULTIPLE, mfree, 3);
	  else ml = rc_build_msg(mm, SB.n[sbn].addr, seq, MSG_BM_ADDRESS, back, 3);
	  env_push_quiet(f, rc_frame(f, mm, (size_t) ml, 1)); }
	vs_unlock_points = 1;      /* a handler that updates the segment, drops the lock and derives the train values afterwards is interruptible in between */
	vs_window(1);
	int t1 = vs_spawn(sched_reader, NULL); vs_join_tid(t1); hx_quiesce();
	vs_window(0);
	vs_unlock_points = 0;
	drain();
	static const char *VN[4] = {"train1 enters seg1 (address report)", "train1 leaves seg1 (free report)", "train1 leaves seg1 (multiple report)", "train1 turns round in seg1 (address report)"};
	int lag = 0;
	if (sched_variant == 0 && OBS.seg_cnt == 1 && (!OBS.on || OBS.poslen != 1)) lag = 1;                  /* segment already lists the train, train not yet there */
	if ((sched_variant == 1 || sched_variant == 2) && OBS.seg_cnt == 0 && (OBS.on || OBS.poslen != 0)) lag = 1;   /* segment already empty, train still there */
	if (sched_variant == 3 && OBS.seg_cnt == 1 && OBS.seg_dir == 2 && OBS.left) lag = 1;                   /* segment already reports backwards, train still oriented as before */
	if (lag) { char cls[200]; snprintf(cls, sizeof cls, "derived-values-lag: a reader saw the segment's new address list and afterwards still the old presence / position / orientation of the train (%s)", sched_variant == 0 ? "enter" : sched_variant == 3 ? "turn" : "leave");
		res_violation(cls, "%s: segment read first: %d address(es) type %d; then train1 on_track=%d position length=%d orientation_is_left=%d", VN[sched_variant], OBS.seg_cnt, OBS.seg_dir, OBS.on, OBS.poslen, OBS.left); }
	check_coupling("after the report (quiescent)");
	hx_emit_ledger_violations("C08");
	res_printf("O %x %x\n", (unsigned) (OBS.seg_cnt * 100 + OBS.on * 10 + OBS.poslen), (unsigned) (OBS.left + 2 * (OBS.seg_dir + 1)));
	hx_emit_trace(); res_finish();
}
void c08_register(void) { harness_register("c08.sched", sched_child); harness_register("c08.hist", hist_child); }
int c08_run(const char *tier) {
	int thorough = !strcmp(tier, "thorough");
	ev_build();
	uint8_t param[1] = {0}; const char *d = getenv("VERIF_DEPTH");
	long sch = 0, sch_out = 0; int sch_ex = 1;
	for (int v = 0; v < 4; v++) { uint8_t sp[1] = {(uint8_t) v}; char label[64]; snprintf(label, sizeof label, "c08.sched variant %d", v);
		e1_spec_t es = { .harness = "c08.sched", .param = sp, .nparam = 1, .bound = thorough ? 3 : 2, .label = strdup(label) };
		e1_explore(&es); for (int k = 0; k < 8; k++) sch += es.schedules_by_cost[k]; sch_out += es.distinct_outcomes; if (!es.exhaustive) sch_ex = 0; }
	rep_note("c08.sched: receiver processing one report || reader (segment, then train), 4 variants, preemption bound %d: %ld schedules, %ld distinct observations", thorough ? 3 : 2, sch, sch_out);
	e2_spec_t s = { .harness = "c08.hist", .param = param, .nparam = 1, .nevents = nev, .max_depth = d ? atoi(d) : (thorough ? 6 : 5), .label = "c08.hist", .evname = evname };
	e2_explore(&s);
	rep_count("states", s.states + sch_out); rep_count("transitions", s.transitions + sch); rep_count("executions", s.execs + sch);
	rep_flag("exhaustive", s.exhaustive && sch_ex);
	char sb[200]; size_t o = 0; for (int i = 0; i <= s.depth_completed + 1 && i < 16; i++) o += (size_t) snprintf(sb + o, sizeof sb - o, "%ld ", s.states_by_depth[i]);
	rep_note("c08.hist: %d events (3 segments on 2 boards, %d address lists), depth completed=%d, new states by depth: %s; coupling evaluated after %ld events", nev, NLIST, s.depth_completed, sb, rep_get("coupling_checks"));
	return 0;
}
