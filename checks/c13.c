/* C13 — start with arbitrary configuration files terminates with 0 or 1, never crashes or hangs; after 1 the library is
 * stopped, has released memory and locks and can be started again with a valid configuration.
 * Exhaustive single mutations of the standard configuration triple (ASan build, simulated bus so that an accepted start can
 * complete):  structural mutations at every line (delete line, delete value, duplicate entry block, rename key, swap with the
 * next sibling, scalar -> sequence / mapping, section -> scalar, truncate here, six replacement values, re-use the previous
 * value of the same key), missing / empty file, and byte-level faults (12 bytes written at every offset). */
#include "../fw/explore.h"
#include "../fw/hx.h"
#include "../fw/simbus.h"
#include "../fw/cfgmodel.h"
#include "include/bidib.h"
#include <stdio.h>
#include <stdlib.h>
#include <string.h>

static cm_model_t M;
#define MAXL 400
typedef struct { char *line[MAXL]; int n; } text_t;
static void split(const char *s, text_t *t) { t->n = 0; while (*s && t->n < MAXL) { const char *e = strchr(s, '\n'); size_t l = e ? (size_t) (e - s) : strlen(s); t->line[t->n] = strndup(s, l); t->n++; s += l + (e ? 1 : 0); } }
static char *join(const text_t *t) { size_t n = 1; for (int i = 0; i < t->n; i++) n += strlen(t->line[i]) + 1; char *o = malloc(n + 64); size_t k = 0; for (int i = 0; i < t->n; i++) { size_t l = strlen(t->line[i]); memcpy(o + k, t->line[i], l); k += l; o[k++] = '\n'; } o[k] = 0; return o; }
static int indent_of(const char *l) { int i = 0; while (l[i] == ' ') i++; return i; }
static int item_indent(const char *l) { int i = indent_of(l); return l[i] == '-' ? i : -1; }
static const char *REPL[6] = {"", "0x", "0xGG", "256", "-1", "aaaaaaaaaaaaaaaaaaaaaaaaaaaaaaaaaaaaaaaaaaaaaaaaaaaaaaaaaaaaaaaaaaaaaaaaaaaaaaaaaaaaaaaaaaaaaaaaaaaaaaaaaaaaaaaaaaaaaaaaaaaaaaaaaaaaaaaaaaaaaaaa"};
enum { K_DELETE, K_DELVALUE, K_DUPBLOCK, K_RENAME, K_SWAP, K_TOSEQ, K_TOMAP, K_TOSCALAR, K_TRUNC, K_REPL0, K_REPL1, K_REPL2, K_REPL3, K_REPL4, K_REPL5, K_REUSE, K_LONG1, K_LONG2, K_LONG3, K_N };
static const int LONGLEN[3] = {1000, 2100, 70000};     /* scalars around and beyond every fixed-size text buffer a log line or a conversion might use */
static const char *KNAME[K_N] = {"delete line", "delete value", "duplicate entry block", "rename key", "swap with next sibling", "scalar->sequence", "scalar->mapping", "section->scalar", "truncate after line",
	"value=''", "value=0x", "value=0xGG", "value=256", "value=-1", "value=very long", "re-use previous value of the same key", "value=1000 characters", "value=2100 characters", "value=70000 characters"};
/* applies mutation k at line i; returns NULL if not applicable */
static char *mutate(const char *src, int k, int i) {
	text_t t; split(src, &t); if (i >= t.n) return NULL;
	char *l = t.line[i]; char *colon = strchr(l, ':'); int ind = indent_of(l); char buf[600]; char *res = NULL;
	int has_value = colon && colon[1] == ' ' && colon[2];
	switch (k) {
	case K_DELETE: memmove(&t.line[i], &t.line[i + 1], sizeof(char *) * (size_t) (t.n - i - 1)); t.n--; res = join(&t); break;
	case K_DELVALUE: if (!has_value) break; colon[1] = 0; res = join(&t); break;
	case K_DUPBLOCK: { int ii = item_indent(l); if (ii < 0) break; int e = i + 1; while (e < t.n && indent_of(t.line[e]) > ii) e++;
		int cnt = e - i; if (t.n + cnt >= MAXL) break; memmove(&t.line[e + cnt], &t.line[e], sizeof(char *) * (size_t) (t.n - e)); for (int q = 0; q < cnt; q++) t.line[e + q] = strdup(t.line[i + q]); t.n += cnt; res = join(&t); break; }
	case K_RENAME: { if (!colon) break; int ks = ind; if (l[ks] == '-') ks += 2; snprintf(buf, sizeof buf, "%.*sx%s", ks, l, l + ks); t.line[i] = strdup(buf); res = join(&t); break; }
	case K_SWAP: { if (i + 1 >= t.n || !colon) break; int j = i + 1; int myind = l[ind] == '-' ? ind + 2 : ind; if (l[ind] == '-') break;
		if (indent_of(t.line[j]) != myind || !strchr(t.line[j], ':') || t.line[j][myind] == '-') break; char *tmp = t.line[i]; t.line[i] = t.line[j]; t.line[j] = tmp; res = join(&t); break; }
	case K_TOSEQ: if (!has_value) break; snprintf(buf, sizeof buf, "%.*s\n%*s- %s", (int) (colon - l + 1), l, ind + 4, "", colon + 2); t.line[i] = strdup(buf); res = join(&t); break;
	case K_TOMAP: if (!has_value) break; snprintf(buf, sizeof buf, "%.*s\n%*sa: %s", (int) (colon - l + 1), l, ind + 4, "", colon + 2); t.line[i] = strdup(buf); res = join(&t); break;
	case K_TOSCALAR: { if (!colon || has_value) break; int e = i + 1; while (e < t.n && indent_of(t.line[e]) > ind) e++; if (e == i + 1) break;
		snprintf(buf, sizeof buf, "%s scalar", l); t.line[i] = strdup(buf); memmove(&t.line[i + 1], &t.line[e], sizeof(char *) * (size_t) (t.n - e)); t.n -= e - i - 1; res = join(&t); break; }
	case K_TRUNC: t.n = i + 1; res = join(&t); break;
	case K_REUSE: { if (!has_value) break; char key[64]; int ks = ind; if (l[ks] == '-') ks += 2; int kl = (int) (colon - (l + ks)); if (kl <= 0 || kl > 60) break; snprintf(key, sizeof key, "%.*s:", kl, l + ks);
		int j; for (j = i - 1; j >= 0; j--) { const char *c = strstr(t.line[j], key); if (c && c[kl + 1] == ' ' && (c == t.line[j] || c[-1] == ' ')) { snprintf(buf, sizeof buf, "%.*s %s", (int) (colon - l + 1), l, c + kl + 2); break; } }
		if (j < 0 || !strcmp(buf, l)) break; t.line[i] = strdup(buf); res = join(&t); break; }
	case K_LONG1: case K_LONG2: case K_LONG3: { if (!has_value) break; int L = LONGLEN[k - K_LONG1]; size_t pre = (size_t) (colon - l + 1); char *nl = malloc(pre + (size_t) L + 4);
		memcpy(nl, l, pre); nl[pre] = ' '; for (int q = 0; q < L; q++) nl[pre + 1 + (size_t) q] = (char) ('a' + q % 26); nl[pre + 1 + (size_t) L] = 0; t.line[i] = nl; res = join(&t); break; }
	default: if (k >= K_REPL0 && k <= K_REPL5) { if (!has_value) break; snprintf(buf, sizeof buf, "%.*s %s", (int) (colon - l + 1), l, REPL[k - K_REPL0]); t.line[i] = strdup(buf); res = join(&t); } break;
	}
	return res;
}
static const uint8_t BYTES[12] = {':', '-', ' ', '\n', '#', '[', '{', '"', '&', '*', 0x00, 0xFF};
typedef struct { uint8_t file; uint8_t kind; uint16_t line; uint8_t mode; uint8_t base; uint8_t prior; /* 1: a complete earlier session (valid start, stop) precedes the start under test; 2: an earlier session against a silent interface (start fails after its threads ran) */ } c13_case_t;   /* mode 0 structural, 1 byte fault (line = offset, kind = byte index), 2 missing file, 3 empty file */
static const char *FILEN[3] = {"board", "track", "train"};

/* base configuration 1: the standard configuration with ZERO wherever a number, port, address, value or bit may be zero.
 * A record the parser has only partly built holds zeros, so in this base a half-read entry collides with a complete
 * earlier one (duplicate checks, look-ups by number) — paths the standard numbering (2, 3, 0x10, ...) never reaches. */
static void zero_heavy(cm_model_t *m) {
	for (int b = 0; b < m->nb; b++) { cm_board_t *B = &m->b[b];
		if (B->nfeatures) { B->features[0].number = 0; B->features[0].value = 0; }
		if (B->npb) { B->pb[0].number = 0; for (int a = 0; a < B->pb[0].naspects; a++) B->pb[0].aspects[a].value = (uint8_t) a; }
		if (B->nsb) { B->sb[0].number = B->npb ? 1 : 0; for (int a = 0; a < B->sb[0].naspects; a++) B->sb[0].aspects[a].value = (uint8_t) a; }
		if (B->nper) { B->per[0].number = 0; B->per[0].port0 = 0; B->per[0].port1 = 0; for (int a = 0; a < B->per[0].naspects; a++) B->per[0].aspects[a].value = (uint8_t) a; }
		if (B->npd) { B->pd[0].addrl = 0; B->pd[0].addrh = 0; B->pd[0].extended = 0; }
		if (B->nseg) B->seg[0].addr = 0;
	}
	if (m->nt > 1) { m->t[1].addrl = 0x01; m->t[1].addrh = 0x00; if (m->t[1].nper) m->t[1].per[0].bit = 0; }
}
static void base_model(int base) { cm_std(&M); if (base == 1) zero_heavy(&M); }
static int silent; static int hook(int node, const rc_msg_t *m) { (void) node; (void) m; return silent; }
static int run_case(const c13_case_t *c, char *human, size_t hn) {
	if (c->prior) {     /* an earlier session in the same process: whatever it leaves behind (thread handles, queues, per-session values) meets the rejected start */
		cm_std(&M); cm_install(&M); SB.on_msg = hook; silent = c->prior == 2;
		int r0 = hx_start_normal(0); hx_quiesce();
		if (c->prior == 1 && r0 != 0) res_infra("earlier session: valid start failed");
		if (!r0) { bidib_stop(); hx_quiesce(); }
		uint8_t *um; while ((um = bidib_read_message())) free(um); while ((um = bidib_read_error_message())) free(um);
		env_clear_io(); hx_emit_ledger_violations("C13");
	}
	base_model(c->base); cm_install(&M); SB.on_msg = hook; silent = 0;
	const char *txt[3] = {M.board_txt, M.track_txt, M.train_txt}; static char bytebuf[16000];
	if (c->mode == 0) { char *mt = mutate(txt[c->file], c->kind, c->line); if (!mt) return 0; txt[c->file] = mt; snprintf(human, hn, "%s%s file: %s at line %d", c->base ? "[zero-heavy base] " : "", FILEN[c->file], KNAME[c->kind], c->line + 1); }
	else if (c->mode == 1) { size_t len = strlen(txt[c->file]); if (c->line >= len) return 0; if ((uint8_t) txt[c->file][c->line] == BYTES[c->kind]) return 0;
		memcpy(bytebuf, txt[c->file], len + 1); bytebuf[c->line] = (char) BYTES[c->kind]; txt[c->file] = bytebuf; snprintf(human, hn, "%s file: byte %02x written at offset %d", FILEN[c->file], BYTES[c->kind], c->line); }
	else if (c->mode == 4) { snprintf(human, hn, "unmutated base configuration %d", c->base); }
	else if (c->mode == 2) { txt[c->file] = NULL; snprintf(human, hn, "%s file missing", FILEN[c->file]); }
	else { txt[c->file] = ""; snprintf(human, hn, "%s file empty", FILEN[c->file]); }
	env_set_cfg(txt[0], txt[1], txt[2]);
	hx_set_context(human);
	int rc = hx_start_normal(0); hx_quiesce();
	hx_emit_san_events(human); hx_emit_ledger_violations("C13");
	if (rc != 0 && rc != 1) res_violation("start-return-value: start returned neither 0 nor 1", "%s: %d", human, rc);
	if (c->mode == 4 && rc != 0) res_infra("the unmutated base configuration %d is rejected", c->base);
	if (rc == 1) {
		if (bidib_running) res_violation("running-after-failed-start: start returned 1 but the library is not stopped", "%s", human);
		if (vs_held_count(0)) { char h[200]; vs_held_desc(0, h, sizeof h); char cls[260]; snprintf(cls, sizeof cls, "lock-held-after-failed-start locks=%s", h); res_violation(cls, "%s", human); }
		if (vs_thread_live_unjoined()) res_violation("thread-not-joined-after-failed-start", "%s", human);
		hx_leak_check(human);
		/* restartable with a valid configuration */
		if (!res_nviol()) {
			cm_std(&M); cm_install(&M); SB.on_msg = hook;
			int rc2 = hx_start_normal(0); hx_quiesce();
			t_bidib_id_list_query q = bidib_get_boards_connected();
			if (rc2 != 0 || q.length != 4) res_violation("not-restartable-after-failed-start: a start with a valid configuration after a failed start does not succeed", "%s: second start returned %d, %zu boards connected", human, rc2, q.length);
			bidib_free_id_list_query(q);
			hx_emit_san_events("second start");
			bidib_stop(); hx_quiesce(); hx_emit_san_events("stop after second start"); hx_leak_check("after restart and stop");
		}
		return 2;
	}
	/* accepted: the library runs; stop it and check for leaks */
	bidib_stop(); hx_quiesce(); hx_emit_san_events("stop after accepted start"); hx_emit_ledger_violations("C13");
	hx_leak_check(human);
	return 1;
}
static void c13_child(const void *job, size_t n) {
	vs_dev_t devs[VS_MAXDEV]; int nd; size_t pl; const uint8_t *p = job_parse(job, n, devs, &nd, &pl);
	c13_case_t c; memcpy(&c, p, sizeof c);
	hx_child_begin(NULL, 0, 0, NULL, 0, 300ull * 1000000ull);
	char human[200] = "";
	int r = run_case(&c, human, sizeof human);
	if (r == 0) res_printf("N 1\n");
	res_printf("O %x %x\nC %s 1\n", r, c.mode, r == 0 ? "not_applicable" : r == 1 ? "accepted" : "rejected");
	res_finish();
}
static c13_case_t *cases; static long ncases, capcases;
static void add_case(c13_case_t c) { if (ncases == capcases) { capcases = capcases ? capcases * 2 : 8192; cases = realloc(cases, sizeof(c13_case_t) * (size_t) capcases); } cases[ncases++] = c; }
static size_t c13_gen(long idx, uint8_t *payload, char *human, size_t hn) {
	c13_case_t *c = &cases[idx]; memcpy(payload, c, sizeof *c);
	if (c->mode == 0) snprintf(human, hn, "%s%s%s file: %s at line %d", c->prior == 1 ? "[after an earlier session] " : c->prior == 2 ? "[after an earlier failed session] " : "", c->base ? "[zero-heavy base] " : "", FILEN[c->file], KNAME[c->kind], c->line + 1);
	else if (c->mode == 1) snprintf(human, hn, "%s file: byte %02x at offset %d", FILEN[c->file], BYTES[c->kind], c->line);
	else if (c->mode == 4) snprintf(human, hn, "unmutated base configuration %d", c->base);
	else snprintf(human, hn, "%s file %s", FILEN[c->file], c->mode == 2 ? "missing" : "empty");
	return sizeof *c;
}
void c13_register(void) { harness_register("c13.start", c13_child); }
int c13_run(const char *tier) {
	int thorough = !strcmp(tier, "thorough");
	ncases = 0;
	for (int base = 0; base < 2; base++) {
	base_model(base); cm_emit(&M); const char *txt[3] = {M.board_txt, M.track_txt, M.train_txt};
	for (int f = 0; f < 3; f++) { if (!base) { add_case((c13_case_t) {(uint8_t) f, 0, 0, 2, 0}); add_case((c13_case_t) {(uint8_t) f, 0, 0, 3, 0}); }
		text_t t; split(txt[f], &t);
		for (int i = 0; i < t.n; i++) for (int k = 0; k < K_N; k++) { char *m = mutate(txt[f], k, i); if (m) { add_case((c13_case_t) {(uint8_t) f, (uint8_t) k, (uint16_t) i, 0, (uint8_t) base}); free(m); } }
		size_t len = strlen(txt[f]); int stride = thorough ? 1 : 7;
		if (!base || thorough) for (size_t o = 0; o < len; o += (size_t) stride) for (int b = 0; b < 12; b++) if ((uint8_t) txt[f][o] != BYTES[b]) add_case((c13_case_t) {(uint8_t) f, (uint8_t) b, (uint16_t) o, 1, (uint8_t) base});
	}
	}
	/* a sample of the structural mutations again as the start of a LATER session (every 9th case, after a clean and after a failed earlier session) */
	{ long n0 = ncases; int k = 0; for (long i = 0; i < n0; i++) if (cases[i].mode == 0 && cases[i].base == 0 && (k++ % 9) == 0) { c13_case_t c = cases[i]; c.prior = 1 + (k / 9) % 2; add_case(c); } }
	/* both unmutated bases must be accepted */
	add_case((c13_case_t) {0, 0, 0, 4, 0}); add_case((c13_case_t) {0, 0, 0, 4, 1});
	ex_spec_t e = { .harness = "c13.start", .ncases = ncases, .gen = c13_gen, .label = "c13.start" };
	ex_map(&e);
	rep_count("executions", e.done); rep_count("states", rep_get("accepted") + rep_get("rejected") > 0 ? 2 : 1); rep_count("transitions", e.done); rep_count("distinct_nontrivial", e.done); rep_flag("exhaustive", e.exhaustive);
	rep_note("mutated configuration triples started=%ld (accepted %ld, rejected %ld; every rejected one followed by a start with the valid configuration)", e.done, rep_get("accepted"), rep_get("rejected"));
	return 0;
}
