/* C06 — each uplink message has exactly one destination; user queues are FIFO, bounded (128), once-only, caller-owned.
 *  c06.route : every type code 0..255 x content variants x {debug mode, normal dispatcher} — the README destination table
 *  c06.queue : fill levels 0..131 and all histories of {arrive, read} of depth d around the 128 bound, both user queues
 *  c06.sched : E1 — two reader threads racing the receiver which delivers three messages
 * Runs on the ASan build: ownership (double free / use after free / leak) is part of the property. */
#include "../fw/explore.h"
#include "../fw/hx.h"
#include "../fw/cfgmodel.h"
#include "include/bidib.h"
#include <stdio.h>
#include <stdlib.h>
#include <string.h>

uint8_t *bidib_read_intern_message(void);
enum { D_NONE = 1, D_MSG = 2, D_ERR = 4, D_INT = 8 };
static const uint8_t SRC[4] = {1, 0, 0, 0};

/* the README table: returns the set of allowed destinations (exactly one of them must be used) */
static int expected_dest(uint8_t type, const uint8_t *data, int debug) {
	if (type == MSG_STALL) return D_NONE;
	if (debug) return D_MSG;
	switch (type) {
	case MSG_SYS_ERROR: case MSG_NODE_NA: case MSG_FEATURE_NA: case MSG_LC_NA: return D_ERR;
	case MSG_SYS_MAGIC: case MSG_NODETAB_COUNT: case MSG_NODETAB: case MSG_FEATURE_COUNT: case MSG_FEATURE: return D_INT;
	case MSG_ACCESSORY_STATE: case MSG_ACCESSORY_NOTIFY:
		if (data[3] == 0x80) return D_ERR;
		if (data[3] & 0x80) return D_ERR | D_NONE;     /* error bit plus flag bits: the README does not settle it */
		return D_NONE;
	case MSG_BOOST_STAT:
		switch (data[0]) {
		case 0x01: case 0x02: return D_ERR;             /* short circuit, overtemperature */
		case 0x00: case 0x03: case 0x04: case 0x05: case 0x06: case 0x80: case 0x81: case 0x82: case 0x84: return D_NONE;
		default: return D_ERR | D_NONE;                 /* 0x83 (stop requested) and undefined codes */
		}
	case MSG_CS_DRIVE_EVENT: return D_ERR | D_NONE;
	case MSG_PKT_CAPACITY: case MSG_NODE_LOST: case MSG_NODE_NEW: case MSG_CS_STATE: case MSG_CS_DRIVE_ACK: case MSG_CS_ACCESSORY_ACK:
	case MSG_CS_DRIVE_MANUAL: case MSG_CS_ACCESSORY_MANUAL: case MSG_LC_STAT: case MSG_LC_WAIT: case MSG_BM_OCC: case MSG_BM_FREE:
	case MSG_BM_MULTIPLE: case MSG_BM_CONFIDENCE: case MSG_BM_ADDRESS: case MSG_BM_CURRENT: case MSG_BM_SPEED: case MSG_BM_DYN_STATE:
	case MSG_BOOST_DIAGNOSTIC:
		return D_NONE;
	default: return D_MSG;     /* incl. MSG_VENDOR unless it reports a configured reverser (none is configured here) */
	}
}
static const char *dname(int d) {
	static char b[4][48]; static int k; char *s = b[k++ & 3]; s[0] = 0;
	if (d & D_NONE) strcat(s, "state/none "); if (d & D_MSG) strcat(s, "message-queue "); if (d & D_ERR) strcat(s, "error-queue "); if (d & D_INT) strcat(s, "internal-queue ");
	return s;
}
/* route cases: index -> (debug, type, variant).  variants: 0 = all-zero payload; for content-dependent types a sweep */
/* messages at exactly their minimal length (message definitions): they are complete and have to reach their destination */
static const struct { uint8_t type, dlen, d0; } MINLEN[] = {
	{MSG_SYS_ERROR, 1, 0x00}, {MSG_SYS_ERROR, 1, 0x16}, {MSG_SYS_ERROR, 1, 0x21}, {MSG_SYS_ERROR, 1, 0x30},      /* error codes without parameter */
	{MSG_SYS_ERROR, 2, 0x02}, {MSG_SYS_ERROR, 2, 0x03}, {MSG_SYS_ERROR, 2, 0x04}, {MSG_SYS_ERROR, 2, 0x05}, {MSG_SYS_ERROR, 2, 0x10}, {MSG_SYS_ERROR, 2, 0x13}, {MSG_SYS_ERROR, 2, 0x20},
	{MSG_NODE_NA, 1, 0x05}, {MSG_FEATURE_NA, 1, 0x07}, {MSG_LC_NA, 2, 0x00},
	{MSG_SYS_PONG, 1, 0x11}, {MSG_SYS_MAGIC, 2, 0xFE}, {MSG_SYS_P_VERSION, 2, 7}, {MSG_SYS_SW_VERSION, 3, 1}, {MSG_SYS_UNIQUE_ID, 7, 0x40}, {MSG_SYS_IDENTIFY_STATE, 1, 1},
	{MSG_NODETAB_COUNT, 1, 2}, {MSG_FEATURE, 2, 3}, {MSG_FEATURE_COUNT, 1, 2}, {MSG_VENDOR_ACK, 1, 1}, {MSG_STRING, 3, 0},
};
#define N_MINLEN ((long) (sizeof MINLEN / sizeof MINLEN[0]))
static int g_dlen;
static long route_count(void) { return 2L * (256 + 256 /*boost*/ + 2 * 256 /*acc state+notify exec byte*/ + 3 /*drive event*/ + N_MINLEN); }
static void route_case(long idx, int *debug, uint8_t *type, uint8_t data[10]) {
	long per = route_count() / 2; *debug = (int) (idx / per); idx %= per; memset(data, 0, 10); g_dlen = 9;
	if (idx >= per - N_MINLEN) { long k = idx - (per - N_MINLEN); *type = MINLEN[k].type; g_dlen = MINLEN[k].dlen; data[0] = MINLEN[k].d0; if (*type == MSG_SYS_MAGIC) data[1] = 0xAF; return; }
	if (idx < 256) { *type = (uint8_t) idx; if (*type == MSG_VENDOR) { data[0] = 1; data[1] = 'x'; data[2] = 1; data[3] = '0'; } return; }
	idx -= 256;
	if (idx < 256) { *type = MSG_BOOST_STAT; data[0] = (uint8_t) idx; return; }
	idx -= 256;
	if (idx < 512) { *type = idx < 256 ? MSG_ACCESSORY_STATE : MSG_ACCESSORY_NOTIFY; data[3] = (uint8_t) (idx % 256); return; }
	idx -= 512;
	*type = MSG_CS_DRIVE_EVENT; data[0] = (uint8_t) idx;
}
static int drain_count(uint8_t *(*rd)(void), const uint8_t *exp, int el, int *same) {
	int n = 0; uint8_t *m; *same = 1;
	while ((m = rd())) { if (m[0] + 1 != el || memcmp(m, exp, (size_t) el)) *same = 0; n++; free(m); }
	return n;
}
static void route_child(const void *job, size_t n) {
	vs_dev_t devs[VS_MAXDEV]; int nd; size_t pl; const uint8_t *p = job_parse(job, n, devs, &nd, &pl);
	uint32_t start, count; memcpy(&start, p, 4); memcpy(&count, p + 4, 4);
	hx_child_begin(NULL, 0, 0, NULL, 0, 0);
	if (hx_start_debug(0)) res_infra("start failed");
	hx_quiesce();
	hx_hash_t h; hx_hash_init(&h);
	for (uint32_t c = start; c < start + count && (long) c < route_count(); c++) {
		int debug; uint8_t type, data[10]; route_case(c, &debug, &type, data);
		bidib_set_lowlevel_debug_mode(debug ? true : false);
		uint8_t m[32]; int ml = rc_build_msg(m, SRC, 0, type, data, g_dlen);
		char before[4096]; size_t bl = hx_dump_tx(before, sizeof before); (void) bl;
		hx_feed_msg(SRC, 0, type, data, g_dlen);
		if (type == MSG_ACCESSORY_NOTIFY && !debug) bidib_flush();
		hx_emit_san_events("route");
		int s1, s2, s3; int nm = drain_count(bidib_read_message, m, ml, &s1), ne = drain_count(bidib_read_error_message, m, ml, &s2), ni = drain_count(bidib_read_intern_message, m, ml, &s3);
		int got = (nm ? D_MSG : 0) | (ne ? D_ERR : 0) | (ni ? D_INT : 0); if (!got) got = D_NONE;
		int exp = expected_dest(type, data, debug);
		char what[160]; snprintf(what, sizeof what, "mode=%s type=%02x data=%s", debug ? "debug" : "normal", type, hx_hex(data, (size_t) g_dlen));
		if (nm + ne + ni > 1) res_violation("routed-more-than-once: a received message appears in several places", "%s: message-queue %d, error-queue %d, internal-queue %d", what, nm, ne, ni);
		else if (!(got & exp)) {
			char cls[200]; snprintf(cls, sizeof cls, "wrong-destination type=%02x%s expected=%s got=%s", type, debug ? " (debug mode)" : "", dname(exp), dname(got));
			res_violation(cls, "%s", what);
		} else if ((nm && !s1) || (ne && !s2) || (ni && !s3)) res_violation("queued-bytes-differ: the queued buffer does not hold exactly the received bytes", "%s", what);
		hx_hash_add(&h, &got, sizeof got);
	}
	bidib_set_lowlevel_debug_mode(true);
	res_printf("O %llx %llx\n", (unsigned long long) h.a, (unsigned long long) h.b);
	res_finish();
}
#define ROUTE_BATCH 128
static size_t route_gen(long idx, uint8_t *payload, char *human, size_t hn) {
	uint32_t start = (uint32_t) (idx * ROUTE_BATCH), count = ROUTE_BATCH; memcpy(payload, &start, 4); memcpy(payload + 4, &count, 4);
	int debug; uint8_t type, data[10]; route_case(start, &debug, &type, data);
	snprintf(human, hn, "route cases %u..%u (first: mode=%s type=%02x)", start, start + count - 1, debug ? "debug" : "normal", type); return 8;
}

/* ---------------------------------------------------------------- queue discipline */
typedef struct { uint8_t which; uint8_t fill; uint8_t len; uint8_t ops[8]; } qjob_t;   /* ops: 0 arrive, 1 read */
static void arrive(int which, int tag) {
	uint8_t d[2] = {(uint8_t) (tag & 0xff), (uint8_t) (tag >> 8)};
	hx_feed_msg(SRC, 0, which ? MSG_NODE_NA : MSG_SYS_PONG, d, 2);
}
static void queue_child(const void *job, size_t n) {
	vs_dev_t devs[VS_MAXDEV]; int nd; size_t pl; const uint8_t *p = job_parse(job, n, devs, &nd, &pl);
	qjob_t j; memcpy(&j, p, sizeof j);
	hx_child_begin(NULL, 0, 0, NULL, 0, 0);
	if (hx_start_debug(0)) res_infra("start failed");
	hx_quiesce();
	bidib_set_lowlevel_debug_mode(false);
	/* reference: FIFO of tags, capacity 128, oldest dropped */
	int ref[400], head = 0, tail = 0, next = 0;
	hx_hash_t h; hx_hash_init(&h);
	for (int i = 0; i < j.fill; i++) { arrive(j.which, next); ref[tail++] = next++; if (tail - head > 128) head++; }
	for (int k = 0; k <= j.len; k++) {
		int op = k < j.len ? j.ops[k] : 2;                /* finally: read until empty */
		if (op == 0) { arrive(j.which, next); ref[tail++] = next++; if (tail - head > 128) head++; }
		else for (;;) {
			uint8_t *m = j.which ? bidib_read_error_message() : bidib_read_message();
			int expect = head < tail ? ref[head] : -1;
			if (!m) { if (expect >= 0) res_violation("queue-lost-message: a retained message was not returned", "queue=%s fill=%d expected tag %d, got NULL", j.which ? "error" : "message", j.fill, expect); if (op == 2) break; else break; }
			int tag = m[m[0] - 1] | (m[m[0]] << 8);
			volatile uint8_t sink = 0; for (int b = 0; b <= m[0]; b++) sink ^= m[b];   /* touch every byte of the caller-owned buffer */
			(void) sink;
			if (expect < 0) res_violation("queue-extra-message: more than the retained messages were returned (duplicate or bound exceeded)", "queue=%s fill=%d got tag %d", j.which ? "error" : "message", j.fill, tag);
			else if (tag != expect) res_violation("queue-order: messages are not returned oldest first / bound of 128 with drop-oldest not kept", "queue=%s fill=%d got tag %d expected %d", j.which ? "error" : "message", j.fill, tag, expect);
			if (expect >= 0) head++;
			hx_hash_add(&h, &tag, sizeof tag);
			free(m);
			if (op == 1 || res_nviol()) break;
		}
		if (res_nviol()) break;
	}
	if ((j.which ? bidib_read_message() : bidib_read_error_message()) != NULL) res_violation("routed-more-than-once: a received message appears in several places", "other user queue not empty");
	hx_emit_san_events("queue discipline");
	bidib_stop();
	hx_emit_san_events("stop after queue activity");
	hx_leak_check("after bidib_stop with queue activity");
	res_printf("O %llx %llx\n", (unsigned long long) h.a, (unsigned long long) h.b);
	res_finish();
}
static int q_depth;
static long queue_count(void) { long hist = 0; for (int d = 1; d <= q_depth; d++) hist += 1L << d; return 2 * (132 + 4 * hist); }
static size_t queue_gen(long idx, uint8_t *payload, char *human, size_t hn) {
	qjob_t j; memset(&j, 0, sizeof j); long per = queue_count() / 2; j.which = (uint8_t) (idx / per); idx %= per;
	if (idx < 132) { j.fill = (uint8_t) idx; j.len = 0; }
	else {
		idx -= 132; long hist = 0; for (int d = 1; d <= q_depth; d++) hist += 1L << d;
		j.fill = (uint8_t) (126 + idx / hist); idx %= hist;
		int d = 1; while (idx >= (1L << d)) { idx -= 1L << d; d++; }
		j.len = (uint8_t) d; for (int k = 0; k < d; k++) j.ops[k] = (uint8_t) ((idx >> k) & 1);
	}
	memcpy(payload, &j, sizeof j);
	size_t o = (size_t) snprintf(human, hn, "queue=%s fill=%d ops=", j.which ? "error" : "message", j.fill);
	for (int k = 0; k < j.len; k++) o += (size_t) snprintf(human + o, hn - o, "%c", j.ops[k] ? 'R' : 'A');
	return sizeof j;
}

/* ---------------------------------------------------------------- E1: two readers vs receiver */
static int got_tags[2][4]; static int ngot[2];
static void *reader(void *arg) {
	int id = (int) (intptr_t) arg;
	for (int i = 0; i < 2; i++) { uint8_t *m = bidib_read_message(); if (m) { got_tags[id][ngot[id]++] = m[m[0] - 1]; free(m); } }
	return NULL;
}
static void sched_child(const void *job, size_t n) {
	vs_dev_t devs[VS_MAXDEV]; int nd; size_t pl; job_parse(job, n, devs, &nd, &pl);
	hx_child_begin(devs, nd, 1, NULL, 0, 0);
	if (hx_start_debug(0)) res_infra("start failed");
	hx_quiesce();
	ngot[0] = ngot[1] = 0;
	for (int t = 1; t <= 3; t++) { uint8_t d[2] = {(uint8_t) t, 0}, m[16], f[40]; int ml = rc_build_msg(m, SRC, 0, MSG_SYS_PONG, d, 2); env_push_quiet(f, rc_frame(f, m, (size_t) ml, 1)); }
	vs_window(1);
	int r1 = vs_spawn(reader, (void *) 0), r2 = vs_spawn(reader, (void *) 1);
	vs_join_tid(r1); vs_join_tid(r2); hx_quiesce();
	vs_window(0);
	int seen[4] = {0, 0, 0, 0}; uint8_t *m;
	for (int id = 0; id < 2; id++) for (int i = 0; i < ngot[id]; i++) seen[got_tags[id][i] & 3]++;
	for (int id = 0; id < 2; id++) if (ngot[id] == 2 && got_tags[id][0] > got_tags[id][1]) res_violation("queue-order: messages are not returned oldest first / bound of 128 with drop-oldest not kept", "reader %d got %d before %d", id, got_tags[id][0], got_tags[id][1]);
	while ((m = bidib_read_message())) { seen[m[m[0] - 1] & 3]++; free(m); }
	if (seen[1] != 1 || seen[2] != 1 || seen[3] != 1 || seen[0]) res_violation("not-exactly-one-reader: a queued message was returned to no reader or to several", "occurrences of tags 1..3: %d %d %d", seen[1], seen[2], seen[3]);
	hx_emit_san_events("readers vs receiver"); hx_emit_ledger_violations("C06");
	hx_hash_t h; hx_hash_init(&h); hx_hash_add(&h, got_tags, sizeof got_tags); hx_hash_add(&h, ngot, sizeof ngot);
	res_printf("O %llx %llx\n", (unsigned long long) h.a, (unsigned long long) h.b);
	hx_emit_trace(); res_finish();
}


/* ---------------------------------------------------------------- E1: buffer ownership, every uplink type (normal mode)
 * For every uplink type 0x80..0xFF: the receiver of a normal-mode session (standard configuration, sender = the SecAck
 * interface) handles one message of that type while an application thread drains both queues, overwrites every buffer it
 * gets and frees it.  Once a buffer is in a queue it is the caller's: any later access by the library is a use-after-free
 * under ASan (every schedule with <= 1 preemption, thorough 2); a SecAck mirror must still carry the reported payload. */
#include "../fw/simbus.h"
#include "../fw/cfg.h"
#include "../fw/sanhooks.h"
static void own_payload(uint8_t type, uint8_t *d, int *dl) {
	memset(d, 0, 16); *dl = 9;
	switch (type) {
	case MSG_BM_OCC: case MSG_BM_FREE: d[0] = 1; *dl = 1; break;
	case MSG_BM_MULTIPLE: d[0] = 0; d[1] = 8; d[2] = 0x03; *dl = 3; break;
	case MSG_BM_ADDRESS: d[0] = 0; d[1] = 0x23; d[2] = 0x01; *dl = 3; break;
	case MSG_BM_POSITION: d[0] = 0x23; d[1] = 0x01; d[2] = 0; d[3] = 0x34; d[4] = 0x12; *dl = 5; break;
	case MSG_VENDOR: d[0] = 5; memcpy(d + 1, "30051", 5); d[6] = 1; d[7] = '3'; *dl = 8; break;
	case MSG_BOOST_DIAGNOSTIC: d[0] = 0; d[1] = 10; d[2] = 1; d[3] = 120; *dl = 4; break;
	case MSG_NODE_NEW: case MSG_NODE_LOST: d[0] = 2; d[1] = 5; memcpy(d + 2, (uint8_t[]) {0x05, 0, 0x0D, 0x6B, 0, 9, 9}, 7); break;
	case MSG_ACCESSORY_STATE: case MSG_ACCESSORY_NOTIFY: d[0] = 2; d[1] = 1; d[2] = 2; d[3] = 0; d[4] = 0; *dl = 5; break;
	case MSG_LC_STAT: case MSG_LC_WAIT: d[0] = 0x23; d[1] = 0x01; d[2] = 1; *dl = 3; break;
	case MSG_CS_DRIVE_ACK: case MSG_CS_ACCESSORY_ACK: d[0] = 0x23; d[1] = 0x01; d[2] = 1; *dl = 3; break;
	case MSG_CS_DRIVE_MANUAL: d[0] = 0x23; d[1] = 0x01; d[2] = 3; d[3] = 1; d[4] = 0x85; break;
	case MSG_STALL: d[0] = 0; *dl = 1; break;
	default: break;
	}
}
static void *own_reader(void *arg) { (void) arg;
	for (int i = 0; i < 2; i++) { uint8_t *m = bidib_read_message(); if (m) { memset(m, 0xEE, (size_t) m[0] + 1 > 3 ? 3 : 1); free(m); } m = bidib_read_error_message(); if (m) { memset(m, 0xEE, 1); free(m); } }
	return NULL; }
static int own_one(uint8_t type) {
	uint8_t *m;
	san_reset(); san_tsan_ignore(0);
	int logpos = SB.nlog; uint8_t d[16]; int dl; own_payload(type, d, &dl);
	{ uint8_t mm[40], f[90]; int ml = rc_build_msg(mm, SB.n[0].addr, SB.n[0].seq, type, d, dl); SB.n[0].seq = SB.n[0].seq == 255 ? 1 : (uint8_t) (SB.n[0].seq + 1); env_push_quiet(f, rc_frame(f, mm, (size_t) ml, 1)); }
	vs_window(1);
	int r1 = vs_spawn(own_reader, NULL); vs_join_tid(r1); hx_quiesce();
	vs_window(0);
	bidib_flush(); hx_quiesce();
	while ((m = bidib_read_message())) free(m); while ((m = bidib_read_error_message())) free(m);
	char what[80]; snprintf(what, sizeof what, "receiver handling type %02x || queue reader", type);
	int before = res_nviol();
	hx_emit_tsan_races(what); san_tsan_ignore(1);     /* TSan build: the reader's writes / free against any later access of the library */
	hx_emit_san_events(what);
	for (int i = logpos; i < SB.nlog; i++) { uint8_t t = SB.log[i].type; if ((t == MSG_BM_MIRROR_OCC || t == MSG_BM_MIRROR_FREE || t == MSG_BM_MIRROR_MULTIPLE || t == MSG_BM_MIRROR_POSITION) && (SB.log[i].dlen != dl || memcmp(SB.log[i].data, d, (size_t) dl)))
			res_violation("buffer-used-after-queueing: a message the library still uses was handed to the caller", "%s: mirror %02x carries %s, reported %s", what, t, hx_hex(SB.log[i].data, (size_t) SB.log[i].dlen), hx_hex(d, (size_t) dl)); }
	return res_nviol() - before;
}
static int own_skip(int t) { return t == MSG_NODE_NEW || t == MSG_NODE_LOST || t == MSG_NODETAB || t == MSG_NODETAB_COUNT; }     /* these restart the node enumeration: C15's subject, seconds of virtual traffic */
static void own_child(const void *job, size_t n) {
	vs_dev_t devs[VS_MAXDEV]; int nd; size_t pl; const uint8_t *p = job_parse(job, n, devs, &nd, &pl);
	uint8_t type = p[0]; int count = pl > 1 ? p[1] : 1;
	hx_child_begin(devs, nd, count == 1, NULL, 0, 0);
	if (count > 1) vs_window(0);
	san_tsan_ignore(1);
	cfg_install_std();
	if (hx_start_normal(0)) res_infra("normal start failed");
	hx_quiesce(); vs_sleep_us(2500000); hx_quiesce();
	uint8_t *m; while ((m = bidib_read_message())) free(m); while ((m = bidib_read_error_message())) free(m);
	hx_emit_san_events("start-up");
	int logpos = SB.nlog; long done = 0;
	for (int t = type; t < type + count && t <= 0xFF; t++) { if (count > 1 && own_skip(t)) continue; own_one((uint8_t) t); done++; if (count > 1) { vs_sleep_us(2500000); hx_quiesce(); } }
	hx_hash_t h; hx_hash_init(&h);
	for (int i = logpos; i < SB.nlog; i++) { hx_hash_add(&h, &SB.log[i].type, 1); hx_hash_add(&h, SB.log[i].data, (size_t) SB.log[i].dlen); }
	hx_emit_ledger_violations("C06");
	res_printf("O %llx %llx\nC own_types %ld\n", (unsigned long long) h.a, (unsigned long long) h.b, done);
	if (count == 1) hx_emit_trace();
	res_finish();
}
static size_t ownall_gen(long idx, uint8_t *payload, char *human, size_t hn) { payload[0] = (uint8_t) (0x80 + idx * 32); payload[1] = 32; snprintf(human, hn, "uplink types %02x..%02x, one after the other (default schedule)", payload[0], payload[0] + 31); return 2; }
/* ---------------------------------------------------------------- c06.vendor: the one destination that depends on the CONFIGURATION
 * README: MSG_VENDOR goes to the message queue unless it reports the state of a configured reverser.  "Of a configured reverser"
 * means: the sender is a connected board that owns a reverser with that CV name.  Normal mode, standard model with the reverser on
 * the interface board or on oc1; oc1 present / absent from the start / lost after start-up / lost and lc1 logged in at oc1's
 * address; a vendor report from each of three addresses with the CV name and with another name. */
static cm_model_t VM;
static void vendor_child(const void *job, size_t n) {
	vs_dev_t devs[VS_MAXDEV]; int nd; size_t pl; const uint8_t *p = job_parse(job, n, devs, &nd, &pl);
	int owner = p[0] % 2, status = p[0] / 2;     /* status 0 present, 1 absent, 2 lost, 3 lost + lc1 takes the address */
	hx_child_begin(NULL, 0, 0, NULL, 0, 0);
	cm_std(&VM);
	if (owner == 1) { VM.b[1].nrev = 1; VM.b[1].rev[0] = VM.b[0].rev[0]; VM.b[0].nrev = 0; }
	if (status == 1) VM.b[1].present = 0;
	if (status == 3) VM.b[2].present = 0;
	cm_install(&VM);
	if (hx_start_normal(0)) res_infra("normal start failed");
	hx_quiesce(); vs_sleep_us(2500000); hx_quiesce();
	uint8_t d[9];
	if (status >= 2) { int nodeidx = VM.b[1].sbnode; SB.n[nodeidx].present = 0; d[0] = ++SB.n[0].tab_version; d[1] = VM.b[1].local; memcpy(d + 2, VM.b[1].uid, 7); sb_send(0, MSG_NODE_LOST, d, 9); vs_point(); hx_quiesce(); VM.b[1].present = 0; }
	if (status == 3) { VM.b[2].local = VM.b[1].local; VM.b[2].present = 1; VM.b[2].sbnode = sb_add_node(0, VM.b[2].local, VM.b[2].uid); d[0] = ++SB.n[0].tab_version; d[1] = VM.b[2].local; memcpy(d + 2, VM.b[2].uid, 7); sb_send(0, MSG_NODE_NEW, d, 9); vs_point(); hx_quiesce(); }
	uint8_t *m; while ((m = bidib_read_message())) free(m); while ((m = bidib_read_error_message())) free(m); while ((m = bidib_read_intern_message())) free(m);
	static const uint8_t ADDR[3][4] = {{0, 0, 0, 0}, {1, 0, 0, 0}, {2, 0, 0, 0}};
	static const char *ST[4] = {"oc1 present", "oc1 absent", "oc1 lost", "oc1 lost, lc1 logged in at its address"};
	long cases = 0;
	for (int a = 0; a < 3; a++) for (int nm = 0; nm < 2; nm++) {
		const char *name = nm ? "30099" : VM.b[owner].rev[0].cv; uint8_t v[16]; int vl = 0; v[vl++] = (uint8_t) strlen(name); memcpy(v + vl, name, strlen(name)); vl += (int) strlen(name); v[vl++] = 1; v[vl++] = '1';
		/* which connected board sits at this address now? */
		int sender = -1; for (int b = 0; b < VM.nb; b++) if (cm_board_connected(&VM, b)) { uint8_t ba[4]; cm_board_addr(&VM, b, ba); if (!memcmp(ba, ADDR[a], 4)) sender = b; }
		int consumed = sender >= 0 && VM.b[sender].nrev > 0 && !nm && !strcmp(VM.b[sender].rev[0].cv, name);
		uint8_t msg[40]; int ml = rc_build_msg(msg, ADDR[a], 0, MSG_VENDOR, v, vl);
		sb_send_from(ADDR[a], 0, MSG_VENDOR, v, vl); vs_point(); hx_quiesce();
		hx_emit_san_events("c06.vendor");
		int s1, s2, s3; int nq = drain_count(bidib_read_message, msg, ml, &s1), ne = drain_count(bidib_read_error_message, msg, ml, &s2), ni = drain_count(bidib_read_intern_message, msg, ml, &s3);
		char what[220]; snprintf(what, sizeof what, "reverser on %s, %s: MSG_VENDOR name %s from %02x.%02x.%02x (%s)", VM.b[owner].id, ST[status], name, ADDR[a][0], ADDR[a][1], ADDR[a][2], sender >= 0 ? VM.b[sender].id : "no connected board");
		if (nq + ne + ni > 1) res_violation("routed-more-than-once: a received message appears in several places", "%s: message-queue %d, error-queue %d, internal-queue %d", what, nq, ne, ni);
		else if (consumed && (nq || ne || ni)) res_violation("wrong-destination type=93 expected=state-tracking: the state report of a configured reverser was queued", "%s", what);
		else if (!consumed && !(nq == 1 && s1)) res_violation("wrong-destination type=93 expected=message-queue: a vendor report that is not the state of a configured reverser of its sender did not reach the message queue unchanged", "%s: message-queue %d, error-queue %d", what, nq, ne);
		cases++;
	}
	res_printf("O %x %x\nC vendor_cases %ld\n", owner, status, cases);
	res_finish();
}
static size_t vendor_gen(long idx, uint8_t *payload, char *human, size_t hn) { payload[0] = (uint8_t) idx; snprintf(human, hn, "reverser on %s, oc1 status %ld", idx % 2 ? "oc1" : "master", idx / 2); return 1; }
/* ---------------------------------------------------------------- c06.startup: error-class messages that arrive DURING start-up
 * The library's own start-up dialogue reads the internal queue; an error-class message that arrives meanwhile (after the node
 * table is being read, i.e. after the queues were reset) belongs to the user's error queue and must still be there, once and
 * unchanged, when bidib_start_pointer returns — whatever the dialogue is waiting for at that moment.  Injected directly before
 * the answer to every downlink message from the first MSG_NODETAB_GETNEXT on; three error-class messages.  Second half of the cases:
 * the interface answers the second row request with MSG_NODETAB_COUNT (its table changed meanwhile), so the library abandons the
 * pass and enumerates again — what reached the user queues before that still belongs to the user. */
static int su_at, su_seen, su_armed, su_done, su_kind, su_restart, su_rows, su_restarted; static uint8_t su_msg[40]; static int su_len;
static int su_hook(int node, const rc_msg_t *m) { (void) node;
	if (m->type == MSG_NODETAB_GETNEXT) su_armed = 1;
	if (!su_armed || su_done || su_seen++ != su_at) return 0;
	su_done = 1;
	static const uint8_t K[3][3] = {{MSG_SYS_ERROR, 0x01, 0x07}, {MSG_NODE_NA, 0x09, 0}, {MSG_BOOST_STAT, 0x02, 0}}; static const int KL[3] = {2, 1, 1};
	sb_send(0, K[su_kind][0], &K[su_kind][1], KL[su_kind]);
	su_len = rc_build_msg(su_msg, SB.n[0].addr, 0, K[su_kind][0], &K[su_kind][1], KL[su_kind]);
	return 0; }
static int su_hook2(int node, const rc_msg_t *m) {
	int r = su_hook(node, m);
	if (su_restart && !su_restarted && node == 0 && m->type == MSG_NODETAB_GETNEXT && ++su_rows == su_restart) { su_restarted = 1; uint8_t cnt = 4; sb_send(0, MSG_NODETAB_COUNT, &cnt, 1); return 1; }
	return r; }
static void startup_child(const void *job, size_t n) {
	vs_dev_t devs[VS_MAXDEV]; int nd; size_t pl; const uint8_t *p = job_parse(job, n, devs, &nd, &pl);
	su_kind = p[0]; su_at = p[1]; su_seen = 0; su_armed = 0; su_done = 0; su_restart = pl > 2 ? p[2] : 0; su_rows = 0; su_restarted = 0;
	hx_child_begin(NULL, 0, 0, NULL, 0, 0);
	int su_phase = pl > 3 ? p[3] : 0;      /* 0: the start-up dialogue, 1: the dialogue of bidib_send_sys_reset in the running session */
	cm_std(&VM); cm_install(&VM); SB.on_msg = su_phase ? NULL : su_hook2;
	int rc = hx_start_normal(0); hx_quiesce();
	if (rc) res_infra("normal start failed");
	if (su_phase) { uint8_t *m0; while ((m0 = bidib_read_message())) free(m0); while ((m0 = bidib_read_error_message())) free(m0);
		SB.on_msg = su_hook2; bidib_send_sys_reset(0); hx_quiesce(); }
	if (!su_done) { res_printf("N 1\nO 0 0\n"); res_finish(); }
	hx_emit_san_events("c06.startup");
	int found = 0, other = 0; uint8_t *m;
	while ((m = bidib_read_error_message())) { if (m[0] + 1 == su_len && m[0] == su_msg[0] && !memcmp(m + 1, su_msg + 1, 1) && !memcmp(m + 3, su_msg + 3, (size_t) su_len - 3)) found++; else other++; free(m); }
	int inmsg = 0; while ((m = bidib_read_message())) { if (m[0] + 1 == su_len && !memcmp(m + 3, su_msg + 3, (size_t) su_len - 3) && m[3] == su_msg[3]) inmsg++; free(m); }
	static const char *KN[3] = {"MSG_SYS_ERROR", "MSG_NODE_NA", "MSG_BOOST_STAT(error state)"};
	if (found != 1 || inmsg) { char cls[200]; snprintf(cls, sizeof cls, "wrong-destination type=%s during %s expected=error-queue: an error-class message that arrived while the %s dialogue was waiting is not in the error queue exactly once", KN[su_kind], su_phase ? "system-reset" : "start-up", su_phase ? "reset" : "start-up");
		res_violation(cls, "%s before the answer to downlink message #%d after the first node-table request%s: error queue holds it %d time(s), message queue %d time(s)", KN[su_kind], su_at, su_restart ? ", node table restarted at the second row request" : "", found, inmsg); }
	if (su_restart && !su_restarted) res_infra("the node-table restart did not take place");
	res_printf("O %x %x\nC startup_injections 1\nC startup_restarts %d\n", su_kind + 16 * su_restart, su_at, su_restarted);
	res_finish();
}
static size_t startup_gen(long idx, uint8_t *payload, char *human, size_t hn) { int ph = idx >= 240; idx %= 240; int rs = idx >= 120; idx %= 120; payload[3] = (uint8_t) ph; payload[0] = (uint8_t) (idx % 3); payload[1] = (uint8_t) (idx / 3); payload[2] = (uint8_t) (rs ? 2 : 0);
	snprintf(human, hn, "error-class message kind %ld before the answer to downlink message #%ld of the %s dialogue%s", idx % 3, idx / 3, ph ? "system-reset" : "start-up", rs ? ", node table restarted at the second row request" : ""); return 4; }
void c06_register(void) { harness_register("c06.startup", startup_child); harness_register("c06.vendor", vendor_child); harness_register("c06.own", own_child); harness_register("c06.route", route_child); harness_register("c06.queue", queue_child); harness_register("c06.sched", sched_child); }
int c06_run(const char *tier) {
	int thorough = !strcmp(tier, "thorough"); q_depth = thorough ? 5 : 3;
	long execs = 0, states = 0, transitions = 0; int exhaustive = 1;
	const char *variant = getenv("VERIF_VARIANT"); int tsan = variant && !strcmp(variant, "tsan");
	if (tsan) goto own_only;        /* the ThreadSanitizer build runs the ownership harness only */
	ex_spec_t r = { .harness = "c06.route", .ncases = (route_count() + ROUTE_BATCH - 1) / ROUTE_BATCH, .gen = route_gen, .label = "c06.route" };
	ex_map(&r); execs += r.done; states += r.distinct_outcomes; transitions += route_count(); if (!r.exhaustive) exhaustive = 0;
	ex_spec_t vd = { .harness = "c06.vendor", .ncases = 8, .gen = vendor_gen, .label = "c06.vendor" };
	{ ex_map(&vd); execs += vd.done; if (!vd.exhaustive) exhaustive = 0; rep_note("c06.vendor: %ld configuration / connectivity variants, %ld vendor reports routed", vd.done, rep_get("vendor_cases")); }
	{ ex_spec_t su = { .harness = "c06.startup", .ncases = 2 * 2 * 3 * 40, .gen = startup_gen, .label = "c06.startup" }; ex_map(&su); execs += su.done; if (!su.exhaustive) exhaustive = 0;
	  rep_note("c06.startup: %ld error-class messages injected at every point of the start-up dialogue and of the system-reset dialogue after the first node-table request; in %ld of these runs the interface restarted its node table during the enumeration", rep_get("startup_injections"), rep_get("startup_restarts")); }
	ex_spec_t q = { .harness = "c06.queue", .ncases = queue_count(), .gen = queue_gen, .label = "c06.queue" };
	ex_map(&q); execs += q.done; states += q.distinct_outcomes; transitions += q.done; if (!q.exhaustive) exhaustive = 0;
	e1_spec_t s = { .harness = "c06.sched", .param = "", .nparam = 0, .bound = thorough ? 3 : 2, .label = "c06.sched two readers vs receiver" };
	e1_explore(&s); long ex = 0; for (int k = 0; k < 8; k++) ex += s.schedules_by_cost[k];
	execs += ex; states += s.distinct_outcomes; transitions += s.choice_points; if (!s.exhaustive) exhaustive = 0;
	{ e1_spec_t su = { .harness = "c06.sched", .param = "", .nparam = 0, .bound = thorough ? 2 : 1, .label = "c06.sched two readers vs receiver (points after unlocks)", .unlock_points = 1 };
	  e1_explore(&su); long exu = 0; for (int k = 0; k < 8; k++) exu += su.schedules_by_cost[k]; execs += exu; states += su.distinct_outcomes; transitions += su.choice_points; if (!su.exhaustive) exhaustive = 0;
	  rep_note("c06.sched with a scheduling point after every unlock: bound=%d, %ld schedules, %ld distinct outcomes", su.bound, exu, su.distinct_outcomes); }
own_only:;
	int defv = variant && (!strcmp(variant, "autop") || !strcmp(variant, "autoz"));      /* not repeated in the definedness builds */
	long own = 0;
	if (tsan) {     /* happens-before detection does not need the racing interleaving: every type once under the default schedule */
		ex_spec_t oa = { .harness = "c06.own", .ncases = 4, .gen = ownall_gen, .label = "c06.own (ThreadSanitizer build)" };
		ex_map(&oa); execs += oa.done; states += oa.distinct_outcomes; transitions += rep_get("own_types"); if (!oa.exhaustive) exhaustive = 0;
		rep_note("c06.own under ThreadSanitizer: %ld uplink types, default schedule", rep_get("own_types"));
		rep_count("executions", execs); rep_count("states", states); rep_count("transitions", transitions); rep_flag("exhaustive", exhaustive); return 0; }
	for (int t = 0x80; t <= 0xFF && !defv; t++) { uint8_t tp[1] = {(uint8_t) t}; char label[64]; snprintf(label, sizeof label, "c06.own type %02x", t);
		if (own_skip(t)) continue;
		e1_spec_t os = { .harness = "c06.own", .param = tp, .nparam = 1, .bound = thorough ? 2 : 1, .label = strdup(label) };
		e1_explore(&os); for (int k = 0; k < 8; k++) own += os.schedules_by_cost[k]; states += os.distinct_outcomes; transitions += os.choice_points; if (!os.exhaustive) exhaustive = 0; }
	execs += own;
	rep_note("c06.own (buffer ownership, receiver handling one message of each uplink type || draining reader, normal mode, ASan): %ld schedules over 124 types, bound %d", own, thorough ? 2 : 1);
	rep_note("route cases=%ld (256 types + content sweeps, 2 modes); queue histories=%ld (fill 0..131 and depth<=%d around the bound, 2 queues); c06.sched bound=%d schedules=[%ld,%ld,%ld,%ld] outcomes=%ld",
	         route_count(), q.done, q_depth, s.bound, s.schedules_by_cost[0], s.schedules_by_cost[1], s.schedules_by_cost[2], s.schedules_by_cost[3], s.distinct_outcomes);
	rep_count("executions", execs); rep_count("states", states); rep_count("transitions", transitions); rep_flag("exhaustive", exhaustive);
	return 0;
}
