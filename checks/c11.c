/* C11 — no call blocks forever: locks balanced on every path, nested in one global order.
 *  phase 1 (c11.cat) : exhaustive API catalogue — every public function x argument class (valid, unknown id, wrong kind,
 *                      disconnected board, undefined aspect / out-of-range value, NULL), every uplink type processed on the
 *                      receiver thread for configured and unknown equipment, reset and stop; executed one call at a time.
 *                      After every call the calling / receiver thread must hold no lock (ledger of the interposed pthread lock
 *                      calls); every nested acquisition is recorded as an edge (held lock, mode) -> (acquired lock, mode).
 *  phase 2 (c11.pair): every cycle of the union graph is a deadlock CANDIDATE; the calls that contributed its edges are run
 *                      concurrently under the schedule explorer (preemption bound = cycle length); only an execution that
 *                      really deadlocks (wait-for cycle under glibc's reader-preferring rwlocks) is a violation. */
#include "../fw/explore.h"
#include "../fw/hx.h"
#include "../fw/simbus.h"
#include "../fw/cfgmodel.h"
#include "include/bidib.h"
#include <stdio.h>
#include <stdlib.h>
#include <string.h>

/* ---- low-level catalogue (shared with C18) */
typedef struct {
	const char *name; int nargs; uint8_t bounds[12][4]; int nbounds[12]; int payload_max; int takes_node;
	void (*call)(t_bidib_node_address node, const uint8_t *a, int plen, const uint8_t *payload);
	int (*ref)(const uint8_t *a, int plen, const uint8_t *payload, uint8_t *type, uint8_t *data);
} c18_fn_t;
#include "c18_table.inc"
#define N_LL ((int) (sizeof c18_fns / sizeof c18_fns[0]))

/* ---- high-level catalogue */
static const char *IDS[] = {"master", "oc1", "lc1", "booster2", "pointd", "point1", "signald", "signal1", "led1", "seg1", "seg4", "rev1", "train1", "train2", "nosuch", NULL};
#define N_IDS 16
static const char *ASPECTS[] = {"normal", "reverse", "go", "red", "on", "undefined", NULL};
#define N_ASP 7
#define FREE_ID_LIST(q) bidib_free_id_list_query(q)
typedef struct { const char *name; int nvariants; void (*fn)(int v); } hl_entry_t;
#define E_ID1(fnname, freeexpr) static void e_##fnname(int v) { const char *id = IDS[v]; __auto_type q = fnname(id); (void) q; freeexpr; }
#define E_ID0(fnname, freeexpr) static void e_##fnname(int v) { (void) v; __auto_type q = fnname(); (void) q; freeexpr; }
E_ID0(bidib_get_state, bidib_free_track_state(q))
E_ID1(bidib_get_point_state, if (q.known) bidib_free_unified_accessory_state_query(q))
E_ID1(bidib_get_signal_state, if (q.known) bidib_free_unified_accessory_state_query(q))
E_ID1(bidib_get_peripheral_state, if (q.available) bidib_free_peripheral_state_query(q))   /* freeing the result of an unknown id is C17's subject */
E_ID1(bidib_get_segment_state, if (q.known) bidib_free_segment_state_query(q))
E_ID1(bidib_get_reverser_state, if (q.available) bidib_free_reverser_state_query(q))
E_ID1(bidib_get_uniqueid, (void) 0)
E_ID1(bidib_get_nodeaddr, (void) 0)
E_ID0(bidib_get_boards, FREE_ID_LIST(q))
E_ID0(bidib_get_boards_connected, FREE_ID_LIST(q))
E_ID1(bidib_get_board_connected, (void) 0)
E_ID1(bidib_get_board_features, bidib_free_board_features_query(q))
E_ID1(bidib_get_board_points, FREE_ID_LIST(q))
E_ID1(bidib_get_board_signals, FREE_ID_LIST(q))
E_ID1(bidib_get_board_peripherals, FREE_ID_LIST(q))
E_ID1(bidib_get_board_segments, FREE_ID_LIST(q))
E_ID1(bidib_get_board_reversers, FREE_ID_LIST(q))
E_ID0(bidib_get_connected_points, FREE_ID_LIST(q))
E_ID0(bidib_get_connected_signals, FREE_ID_LIST(q))
E_ID0(bidib_get_connected_peripherals, FREE_ID_LIST(q))
E_ID0(bidib_get_connected_segments, FREE_ID_LIST(q))
E_ID0(bidib_get_connected_reversers, FREE_ID_LIST(q))
E_ID0(bidib_get_connected_boosters, FREE_ID_LIST(q))
E_ID0(bidib_get_boosters, FREE_ID_LIST(q))
E_ID0(bidib_get_track_outputs, FREE_ID_LIST(q))
E_ID0(bidib_get_connected_track_outputs, FREE_ID_LIST(q))
E_ID1(bidib_get_booster_state, (void) 0)
E_ID1(bidib_get_track_output_state, (void) 0)
E_ID0(bidib_get_trains, FREE_ID_LIST(q))
E_ID0(bidib_get_trains_on_track, FREE_ID_LIST(q))
E_ID1(bidib_get_train_peripherals, FREE_ID_LIST(q))
E_ID1(bidib_get_train_dcc_addr, (void) 0)
E_ID1(bidib_get_train_state, if (q.known) bidib_free_train_state_query(q))
E_ID1(bidib_get_train_position, bidib_free_train_position_query(q))
E_ID1(bidib_get_train_speed_step, (void) 0)
E_ID1(bidib_get_train_speed_kmh, (void) 0)
E_ID1(bidib_get_train_on_track, (void) 0)
E_ID1(bidib_get_point_aspects, FREE_ID_LIST(q))
E_ID1(bidib_get_signal_aspects, FREE_ID_LIST(q))
E_ID1(bidib_get_peripheral_aspects, FREE_ID_LIST(q))
static void e_get_by_value(int v) {
	t_bidib_unique_id_mod u = {0x45, 0, 0x0D, 0x8D, 0, 0xC1, (uint8_t) (v ? 0x00 : 0xF1)}; t_bidib_node_address a = {(uint8_t) (v ? 9 : 1), 0, 0}; t_bidib_dcc_address d = {0x23, (uint8_t) (v ? 0x7F : 0x01), 0};
	bidib_get_uniqueid_by_nodeaddr(a); bidib_get_nodeaddr_by_uniqueid(u); t_bidib_id_query q = bidib_get_board_id(u); bidib_free_id_query(q); q = bidib_get_train_id(d); bidib_free_id_query(q);
}
static void e_train_periph_state(int v) { bidib_get_train_peripheral_state(IDS[v % N_IDS], v < N_IDS ? "head_light" : v < 2 * N_IDS ? "nosuch" : NULL); }
/* setters: v encodes (id index, second argument class) */
static void e_switch_point(int v) { bidib_switch_point(IDS[v % N_IDS], ASPECTS[v / N_IDS]); }
static void e_set_signal(int v) { bidib_set_signal(IDS[v % N_IDS], ASPECTS[v / N_IDS]); }
static void e_set_peripheral(int v) { bidib_set_peripheral(IDS[v % N_IDS], ASPECTS[v / N_IDS]); }
static const int SPEEDS[5] = {0, 50, -126, 127, -1000};
static void e_set_train_speed(int v) { bidib_set_train_speed(IDS[v % N_IDS], SPEEDS[(v / N_IDS) % 5], IDS[(v / N_IDS / 5) % N_IDS]); }
static void e_set_cal_speed(int v) { bidib_set_calibrated_train_speed(IDS[v % N_IDS], (v / N_IDS) % 3 == 0 ? 0 : (v / N_IDS) % 3 == 1 ? 9 : 10, IDS[(v / N_IDS / 3) % N_IDS]); }
static void e_estop(int v) { bidib_emergency_stop_train(IDS[v % N_IDS], IDS[(v / N_IDS) % N_IDS]); }
static void e_train_periph(int v) { static const char *P[4] = {"head_light", "horn", "nosuch", NULL}; bidib_set_train_peripheral(IDS[v % N_IDS], P[(v / N_IDS) % 4], (uint8_t) ((v / N_IDS / 4) % 3), IDS[(v / N_IDS / 12) % N_IDS]); }
static void e_booster(int v) { bidib_set_booster_power_state(IDS[v % N_IDS], v / N_IDS); }
static void e_track_output(int v) { static const int S[4] = {0, 3, 5, 0xFF}; bidib_set_track_output_state(IDS[v % N_IDS], (t_bidib_cs_state) S[v / N_IDS]); }
static void e_track_output_all(int v) { bidib_set_track_output_state_all(v ? BIDIB_CS_GO : BIDIB_CS_SOFTSTOP); }
static void e_request_reverser(int v) { bidib_request_reverser_state(IDS[v % N_IDS], IDS[v / N_IDS]); }
static void e_ping(int v) { bidib_ping(IDS[v], 7); }
static void e_identify(int v) { bidib_identify(IDS[v % N_IDS], (uint8_t) (v / N_IDS)); }
static void e_pversion(int v) { bidib_get_protocol_version(IDS[v]); }
static void e_swversion(int v) { bidib_get_software_version(IDS[v]); }
static void e_flush(int v) { (void) v; bidib_flush(); }
static void e_read_message(int v) { (void) v; free(bidib_read_message()); }
static void e_read_error(int v) { (void) v; free(bidib_read_error_message()); }
static void e_sys_reset(int v) { (void) v; bidib_send_sys_reset(0); }
#define H(fn, n) { #fn, n, e_##fn }
static const hl_entry_t HL[] = {
	H(bidib_get_state, 1), H(bidib_get_point_state, N_IDS), H(bidib_get_signal_state, N_IDS), H(bidib_get_peripheral_state, N_IDS), H(bidib_get_segment_state, N_IDS), H(bidib_get_reverser_state, N_IDS),
	H(bidib_get_uniqueid, N_IDS), H(bidib_get_nodeaddr, N_IDS), H(bidib_get_boards, 1), H(bidib_get_boards_connected, 1), H(bidib_get_board_connected, N_IDS), H(bidib_get_board_features, N_IDS),
	H(bidib_get_board_points, N_IDS), H(bidib_get_board_signals, N_IDS), H(bidib_get_board_peripherals, N_IDS), H(bidib_get_board_segments, N_IDS), H(bidib_get_board_reversers, N_IDS),
	H(bidib_get_connected_points, 1), H(bidib_get_connected_signals, 1), H(bidib_get_connected_peripherals, 1), H(bidib_get_connected_segments, 1), H(bidib_get_connected_reversers, 1),
	H(bidib_get_connected_boosters, 1), H(bidib_get_boosters, 1), H(bidib_get_track_outputs, 1), H(bidib_get_connected_track_outputs, 1), H(bidib_get_booster_state, N_IDS), H(bidib_get_track_output_state, N_IDS),
	H(bidib_get_trains, 1), H(bidib_get_trains_on_track, 1), H(bidib_get_train_peripherals, N_IDS), H(bidib_get_train_dcc_addr, N_IDS), H(bidib_get_train_state, N_IDS), H(bidib_get_train_position, N_IDS),
	H(bidib_get_train_speed_step, N_IDS), H(bidib_get_train_speed_kmh, N_IDS), H(bidib_get_train_on_track, N_IDS), H(bidib_get_point_aspects, N_IDS), H(bidib_get_signal_aspects, N_IDS), H(bidib_get_peripheral_aspects, N_IDS),
	{ "getters-by-value(uniqueid/nodeaddr/dcc)", 2, e_get_by_value }, { "bidib_get_train_peripheral_state", 3 * N_IDS, e_train_periph_state },
	{ "bidib_switch_point", N_IDS * N_ASP, e_switch_point }, { "bidib_set_signal", N_IDS * N_ASP, e_set_signal }, { "bidib_set_peripheral", N_IDS * N_ASP, e_set_peripheral },
	{ "bidib_set_train_speed", N_IDS * 5 * N_IDS, e_set_train_speed }, { "bidib_set_calibrated_train_speed", N_IDS * 3 * N_IDS, e_set_cal_speed }, { "bidib_emergency_stop_train", N_IDS * N_IDS, e_estop },
	{ "bidib_set_train_peripheral", N_IDS * 12 * N_IDS, e_train_periph }, { "bidib_set_booster_power_state", N_IDS * 2, e_booster }, { "bidib_set_track_output_state", N_IDS * 4, e_track_output },
	{ "bidib_set_track_output_state_all", 2, e_track_output_all }, { "bidib_request_reverser_state", N_IDS * N_IDS, e_request_reverser },
	{ "bidib_ping", N_IDS, e_ping }, { "bidib_identify", N_IDS * 3, e_identify }, { "bidib_get_protocol_version", N_IDS, e_pversion }, { "bidib_get_software_version", N_IDS, e_swversion },
	{ "bidib_flush", 1, e_flush }, { "bidib_read_message", 1, e_read_message }, { "bidib_read_error_message", 1, e_read_error }, { "bidib_send_sys_reset", 1, e_sys_reset },
};
#define N_HL ((int) (sizeof HL / sizeof HL[0]))
/* catalogue entry index space: [0, N_HL) high-level, [N_HL, N_HL+N_LL) low-level, [N_HL+N_LL, +128*3) uplink type x sender class */
#define N_ENTRIES (N_HL + N_LL + 128 * 3)
static char entry_names[N_ENTRIES][72];
static const char *entry_name(int e) {
	if (!entry_names[e][0]) {
		if (e < N_HL) snprintf(entry_names[e], 72, "%s", HL[e].name); else if (e < N_HL + N_LL) snprintf(entry_names[e], 72, "%s", c18_fns[e - N_HL].name);
		else { int k = e - N_HL - N_LL; static const char *sn[3] = {"master", "oc1", "unknown-node"}; snprintf(entry_names[e], 72, "receiver:type-%02x-from-%s", 0x80 + k % 128, sn[k / 128]); }
	}
	return entry_names[e];
}
static cm_model_t M;
static void uplink_payload(uint8_t type, uint8_t *d, int *dl) {
	memset(d, 0, 16); *dl = 9;
	switch (type) {
	case MSG_BM_MULTIPLE: d[0] = 0; d[1] = 8; d[2] = 0x03; *dl = 3; break;
	case MSG_BM_ADDRESS: d[0] = 0; d[1] = 0x23; d[2] = 0x01; *dl = 3; break;
	case MSG_VENDOR: d[0] = 5; memcpy(d + 1, "30051", 5); d[6] = 1; d[7] = '3'; *dl = 8; break;
	case MSG_BOOST_DIAGNOSTIC: d[0] = 0; d[1] = 10; d[2] = 1; d[3] = 120; *dl = 4; break;
	case MSG_NODE_NEW: case MSG_NODE_LOST: d[0] = 2; d[1] = 5; memcpy(d + 2, (uint8_t[]) {0x05, 0, 0x0D, 0x6B, 0, 9, 9}, 7); break;
	case MSG_ACCESSORY_STATE: case MSG_ACCESSORY_NOTIFY: d[0] = 2; d[1] = 1; d[2] = 2; d[3] = 0; d[4] = 0; *dl = 5; break;
	case MSG_LC_STAT: case MSG_LC_WAIT: d[0] = 0x23; d[1] = 0x01; d[2] = 1; *dl = 3; break;
	case MSG_CS_DRIVE_ACK: case MSG_CS_ACCESSORY_ACK: d[0] = 0x23; d[1] = 0x01; d[2] = 1; *dl = 3; break;
	case MSG_CS_DRIVE_MANUAL: d[0] = 0x23; d[1] = 0x01; d[2] = 3; d[3] = 1; d[4] = 0x85; break;
	case MSG_STALL: d[0] = 0; *dl = 1; break;
	default: break;
	}
}
static void run_entry(int e, int v) {
	if (e < N_HL) HL[e].fn(v);
	else if (e < N_HL + N_LL) {
		const c18_fn_t *f = &c18_fns[e - N_HL]; uint8_t a[12]; uint8_t payload[8] = {0x41, 0x42, 0x43, 0x44, 0x45, 0x46, 0x47, 0xFF};
		for (int k = 0; k < f->nargs; k++) a[k] = f->nbounds[k] ? f->bounds[k][v % f->nbounds[k]] : 0;
		t_bidib_node_address n = {(uint8_t) (v % 3 == 2 ? 9 : v % 3), 0, 0};
		f->call(n, a, f->payload_max >= 0 ? (f->payload_max < 8 ? f->payload_max : 8) : 0, payload);
	} else {
		int k = e - N_HL - N_LL; uint8_t type = (uint8_t) (0x80 + k % 128); int cls = k / 128; uint8_t d[16]; int dl; uplink_payload(type, d, &dl);
		if (cls == 2) { static const uint8_t ua[4] = {9, 0, 0, 0}; sb_send_from(ua, 0, type, d, dl); } else sb_send(cls, type, d, dl);
		vs_point(); hx_quiesce();
	}
}
static int entry_variants(int e) { if (e < N_HL) return HL[e].nvariants; if (e < N_HL + N_LL) return 4; return 1; }

static void emit_graph(void) {
	int n = vs_nlocks();
	for (int a = 0; a < n; a++) for (int b = 0; b < n; b++) if (vs_edge(a, b)) res_printf("G %s %s %d %s\n", vs_lock_name(a), vs_lock_name(b), vs_edge(a, b), vs_edge_label(a, b)[0] ? vs_edge_label(a, b) : "start-up");
}
static void start_std(int lc1_absent) {
	cm_std(&M); if (lc1_absent) M.b[2].present = 0; cm_install(&M);
	if (hx_start_normal(0)) res_infra("normal start failed");
	hx_quiesce();
	vs_edges_reset();   /* the README excludes concurrent use during start: the initialisation ceremony (all locks taken once in declaration order) is not a nesting that calls perform */
}
static void check_balance(const char *name, int v) {
	for (int t = 0; t < 2; t++) if (vs_held_count(t)) { char held[200]; vs_held_desc(t, held, sizeof held); char cls[300];
		snprintf(cls, sizeof cls, "lock-held-at-return call=%s locks=%s", name, held); res_violation(cls, "variant %d: %s thread still holds %s", v, t ? "receiver" : "calling", held); }
	hx_emit_ledger_violations("C11");
}
static void cat_child(const void *job, size_t n) {
	vs_dev_t devs[VS_MAXDEV]; int nd; size_t pl; const uint8_t *p = job_parse(job, n, devs, &nd, &pl);
	int from, to, absent; memcpy(&from, p, 4); memcpy(&to, p + 4, 4); absent = p[8];
	hx_child_begin(NULL, 0, 0, NULL, 0, 1000000ull * 100000ull);
	start_std(absent);
	long calls = 0;
	for (int e = from; e < to && e < N_ENTRIES; e++) {
		const char *name = entry_name(e);
		for (int v = 0; v < entry_variants(e); v++) {
			vs_sleep_us(2500000); hx_quiesce();
			vs_set_label(name); vs_set_thread_label(1, name);
			res_progress(e);
			run_entry(e, v); calls++;
			bidib_flush(); hx_quiesce();
			uint8_t *m; while ((m = bidib_read_message())) free(m); while ((m = bidib_read_error_message())) free(m);
			check_balance(name, v);
			if (res_nviol() > 5) goto out;
		}
	}
	vs_set_label("bidib_stop"); bidib_stop(); check_balance("bidib_stop", 0);
out:
	emit_graph();
	res_printf("O %x %x\nC api_calls %ld\n", from, absent, calls);
	res_finish();
}
/* ---- parent: union graph */
#define MAXLK 24
static char lkname[MAXLK][48]; static int nlk; static int G[MAXLK][MAXLK]; static char Glabel[MAXLK][MAXLK][72];
static int lkidx(const char *n) { for (int i = 0; i < nlk; i++) if (!strcmp(lkname[i], n)) return i; if (nlk < MAXLK) { snprintf(lkname[nlk], 48, "%s", n); return nlk++; } return MAXLK - 1; }
static void cat_res(long idx, const run_res_t *r) {
	(void) idx; const char *l;
	for (int i = 0; (l = res_line(r, 'G', i)); i++) { char a[48], b[48], label[72]; int bits; label[0] = 0;
		if (sscanf(l, "%47s %47s %d %71[^\n]", a, b, &bits, label) >= 3) { int x = lkidx(a), y = lkidx(b); if (!G[x][y]) snprintf(Glabel[x][y], 72, "%s", label); G[x][y] |= bits; } }
}
static size_t cat_gen(long idx, uint8_t *payload, char *human, size_t hn) {
	int per = 6, absent = (int) (idx % 2); int from = (int) (idx / 2) * per, to = from + per;
	memcpy(payload, &from, 4); memcpy(payload + 4, &to, 4); payload[8] = (uint8_t) absent;
	snprintf(human, hn, "catalogue entries %d..%d (%s ...)%s", from, to - 1, from < N_ENTRIES ? entry_name(from) : "", absent ? " with board lc1 disconnected" : "");
	return 9;
}
/* cycle search (simple DFS, graphs have < 20 nodes) */
static int cyc[8], cyclen; static int found_cycles[32][8], found_len[32], nfound;
static void dfs(int start, int v, int depth) {
	if (depth > 4) return;
	for (int w = 0; w < nlk; w++) if (G[v][w]) {
		if (w == start && depth >= 1) { if (nfound < 32) { memcpy(found_cycles[nfound], cyc, sizeof(int) * (size_t) (depth + 1)); found_len[nfound++] = depth + 1; } continue; }
		if (w <= start) continue; int seen = 0; for (int i = 0; i <= depth; i++) if (cyc[i] == w) seen = 1; if (seen) continue;
		cyc[depth + 1] = w; dfs(start, w, depth + 1);
	}
}
/* ---- phase 2: run the calls behind a cycle concurrently */
static int pair_e[3], pair_n;
static void *pair_thread(void *arg) { int k = (int) (intptr_t) arg; vs_set_label(entry_name(pair_e[k])); run_entry(pair_e[k], 0); return NULL; }
static void pair_child(const void *job, size_t n) {
	vs_dev_t devs[VS_MAXDEV]; int nd; size_t pl; const uint8_t *p = job_parse(job, n, devs, &nd, &pl);
	pair_n = p[0]; for (int i = 0; i < pair_n; i++) { int e; memcpy(&e, p + 1 + 4 * i, 4); pair_e[i] = e; }
	hx_child_begin(devs, nd, 1, NULL, 0, 0);
	start_std(0); vs_sleep_us(2500000); hx_quiesce();
	int tids[3]; int nt = 0;
	for (int i = 0; i < pair_n; i++) if (pair_e[i] >= N_HL + N_LL) { /* receiver entries: queue the message, the receiver thread is the actor */
			int k = pair_e[i] - N_HL - N_LL; uint8_t d[16]; int dl; uplink_payload((uint8_t) (0x80 + k % 128), d, &dl); uint8_t m[40], f[90]; int ml = rc_build_msg(m, SB.n[k / 128 == 1 ? 1 : 0].addr, 0, (uint8_t) (0x80 + k % 128), d, dl); env_push_quiet(f, rc_frame(f, m, (size_t) ml, 1)); }
	vs_window(1);
	for (int i = 0; i < pair_n; i++) if (pair_e[i] < N_HL + N_LL) tids[nt++] = vs_spawn(pair_thread, (void *) (intptr_t) i);
	for (int i = 0; i < nt; i++) vs_join_tid(tids[i]);
	vs_window(0);
	hx_quiesce(); hx_emit_ledger_violations("C11");
	res_printf("O 1 1\n"); hx_emit_trace(); res_finish();
}
static int entry_by_name(const char *name) { for (int e = 0; e < N_ENTRIES; e++) if (!strcmp(entry_name(e), name)) return e; return -1; }

void c11_register(void) { harness_register("c11.cat", cat_child); harness_register("c11.pair", pair_child); }
int c11_run(const char *tier) {
	int thorough = !strcmp(tier, "thorough");
	nlk = 0; memset(G, 0, sizeof G);
	long nchunks = (N_ENTRIES + 5) / 6;
	ex_spec_t e = { .harness = "c11.cat", .ncases = nchunks * 2, .gen = cat_gen, .on_result = cat_res, .label = "c11.cat" };
	ex_map(&e);
	int nedges = 0; for (int a = 0; a < nlk; a++) for (int b = 0; b < nlk; b++) if (G[a][b]) { nedges++; rep_note("lock order edge %s -> %s (modes %d) first seen in %s", lkname[a], lkname[b], G[a][b], Glabel[a][b]); }
	nfound = 0; for (int s0 = 0; s0 < nlk; s0++) { cyc[0] = s0; dfs(s0, s0, 0); }
	long pair_execs = 0, confirmed_runs = 0;
	for (int c = 0; c < nfound; c++) {
		char desc[400]; size_t o = 0; uint8_t param[16]; int pn = 0; param[0] = 0;
		for (int i = 0; i < found_len[c]; i++) { int a = found_cycles[c][i], b = found_cycles[c][(i + 1) % found_len[c]]; o += (size_t) snprintf(desc + o, sizeof desc - o, "%s -[%s]-> ", lkname[a], Glabel[a][b]);
			int en = entry_by_name(Glabel[a][b]); if (en >= 0 && pn < 3) { memcpy(param + 1 + 4 * pn, &en, 4); pn++; } }
		param[0] = (uint8_t) pn;
		rep_note("lock-order cycle candidate %d: %s(back to start); %d of its edges map to catalogue calls", c, desc, pn);
		if (pn >= 2) { e1_spec_t s = { .harness = "c11.pair", .param = param, .nparam = 1 + 4 * (size_t) pn, .bound = thorough ? found_len[c] + 1 : found_len[c], .label = desc };
			e1_explore(&s); for (int k = 0; k < 8; k++) pair_execs += s.schedules_by_cost[k]; confirmed_runs++; }
	}
	rep_count("executions", e.done + pair_execs); rep_count("states", nedges > 0 ? nedges : 1); rep_count("transitions", rep_get("api_calls")); rep_count("distinct_nontrivial", rep_get("api_calls"));
	rep_flag("exhaustive", e.exhaustive);
	rep_note("catalogue: %d entries (%d high-level/util, %d low-level, 384 receiver cases) x 2 connectivity variants = %ld calls; lock-order graph: %d locks, %d edges, %d cycle candidates, %ld explored for confirmation (%ld schedules)",
	         N_ENTRIES, N_HL, N_LL, rep_get("api_calls"), nlk, nedges, nfound, confirmed_runs, pair_execs);
	return 0;
}
