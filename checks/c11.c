/* C11 — no call blocks forever: locks balanced on every path, nested in one global order.
 *  phase 1 (c11.cat) : exhaustive API catalogue — every public function x argument class (valid, unknown id, wrong kind,
 *                      disconnected board, undefined aspect / out-of-range value, NULL), every uplink type processed on the
 *                      receiver thread for configured and unknown equipment, reset and stop; executed one call at a time.
 *                      After every call the calling / receiver thread must hold no lock (ledger of the interposed pthread lock
 *                      calls); every nested acquisition is recorded as an edge (held lock, mode) -> (acquired lock, mode).
 *  phase 2 (c11.pair): every cycle of the union graph is a deadlock CANDIDATE; the calls that contributed its edges are run
 *                      concurrently under the schedule explorer (preemption bound = cycle length); only an execution that
 *                      really deadlocks (wait-for cycle under glibc's reader-preferring rwlocks) is a violation. */
#include "../fw/explore.h"
#include "../fw/hx.h"
#include "../fw/simbus.h"
#include "../fw/cfgmodel.h"
#include "include/bidib.h"
#include <stdio.h>
#include <stdlib.h>
#include <string.h>

#include "api_cat.inc"
static void emit_graph(void) {
	int n = vs_nlocks();
	for (int a = 0; a < n; a++) for (int b = 0; b < n; b++) if (vs_edge(a, b)) res_printf("G %s %s %d %s\n", vs_lock_name(a), vs_lock_name(b), vs_edge(a, b), vs_edge_label(a, b)[0] ? vs_edge_label(a, b) : "start-up");
}
/* populated state: trains on the track, occupied segments, reported accessories / boosters — several calls take further
 * locks only then (e.g. the segment scan of bidib_get_train_position for a train that is on the track) */
static void populate(void) {
	static const struct { int board; uint8_t type; uint8_t d[10]; int dl; } POP[] = {
		{0, MSG_BM_OCC, {0}, 1}, {0, MSG_BM_ADDRESS, {0, 0x23, 0x01}, 3}, {0, MSG_BM_OCC, {1}, 1}, {0, MSG_BM_ADDRESS, {1, 0x02, 0x03}, 3}, {1, MSG_BM_OCC, {0}, 1},
		{0, MSG_BM_CONFIDENCE, {0, 0, 0}, 3}, {0, MSG_BM_CURRENT, {0, 20}, 2}, {0, MSG_BM_SPEED, {0x23, 0x01, 40, 0}, 4}, {0, MSG_BM_DYN_STATE, {0, 0x23, 0x01, 1, 50}, 5},
		{1, MSG_ACCESSORY_STATE, {2, 0, 2, 0, 0}, 5}, {0, MSG_CS_STATE, {3}, 1}, {0, MSG_CS_DRIVE_ACK, {0x23, 0x01, 1}, 3}, {0, MSG_BOOST_STAT, {0x80}, 1}, {0, MSG_BOOST_DIAGNOSTIC, {0, 10, 1, 120, 2, 30}, 6},
	};
	for (size_t i = 0; i < sizeof POP / sizeof POP[0]; i++) { if (!M.b[POP[i].board].present) continue; sb_send(M.b[POP[i].board].sbnode, POP[i].type, POP[i].d, POP[i].dl); }
	vs_point(); hx_quiesce();
	bidib_set_train_speed("train1", 20, "master"); bidib_switch_point("pointd", "reverse"); bidib_flush(); hx_quiesce();
	uint8_t *m; while ((m = bidib_read_message())) free(m); while ((m = bidib_read_error_message())) free(m);
}
/* congested state: the interface's budget is exhausted by unanswered requests and oc1 is stalled, so submissions take the
 * hold-back path and answers / stall notices take the release path (other lock nestings than the idle case) */
static int congest_hook(int node, const rc_msg_t *m) { (void) node; return m->type == MSG_SYS_PING; }
static void congest(void) {
	SB.on_msg = congest_hook;
	t_bidib_node_address a0 = {0, 0, 0}; for (int i = 0; i < 10; i++) bidib_send_sys_ping(a0, (uint8_t) i, 0);
	uint8_t on = 1; sb_send(1, MSG_STALL, &on, 1); vs_point(); hx_quiesce();
	bidib_flush(); hx_quiesce();
}
/* backlog state: the interface has announced a large packet capacity and more than 64 bytes wait unflushed in the send buffer
 * when the call under test starts (paths that flush or re-size the buffer while it is in use) */
static int g_backlog;
static void make_backlog(void) {
	uint8_t cap = 200; sb_send(0, MSG_PKT_CAPACITY, &cap, 1); vs_point(); hx_quiesce();
	t_bidib_node_address q = {5, 0, 0}; for (int i = 0; i < 12; i++) bidib_send_sys_clock(q, (uint8_t) i, 0x80, 0x41, 0xC1, 0);
}
static void start_std(int variant) {
	int lc1_absent = variant & 1, populated = (variant >> 1) & 1, congested = (variant >> 2) & 1; g_backlog = (variant >> 3) & 1;
	cm_std(&M); if (lc1_absent) M.b[2].present = 0;
	{ cm_board_t *b = &M.b[1]; b->nrev = 1; snprintf(b->rev[0].id, 24, "rev2"); snprintf(b->rev[0].cv, 12, "30052"); }      /* a reverser on a board that can leave the bus */
	cm_install(&M);
	if (hx_start_normal(0)) res_infra("normal start failed");
	hx_quiesce();
	if (populated) populate();
	if (congested) congest();
	if (variant & 16) { extern unsigned int bidib_get_and_incr_action_id(void); while (bidib_get_and_incr_action_id() != 9996); }      /* the action-id counter is about to wrap (9999 -> 1): a path taken once in 9999 calls */
	vs_edges_reset();   /* the README excludes concurrent use during start: the initialisation ceremony (all locks taken once in declaration order) is not a nesting that calls perform */
}
static void check_balance(const char *name, int v) {
	for (int t = 0; t < 2; t++) if (vs_held_count(t)) { char held[200]; vs_held_desc(t, held, sizeof held); char cls[300];
		snprintf(cls, sizeof cls, "lock-held-at-return call=%s locks=%s", name, held); res_violation(cls, "variant %d: %s thread still holds %s", v, t ? "receiver" : "calling", held); }
	hx_emit_ledger_violations("C11");
}
static void cat_child(const void *job, size_t n) {
	vs_dev_t devs[VS_MAXDEV]; int nd; size_t pl; const uint8_t *p = job_parse(job, n, devs, &nd, &pl);
	int from, to, absent; memcpy(&from, p, 4); memcpy(&to, p + 4, 4); absent = p[8];
	hx_child_begin(NULL, 0, 0, NULL, 0, 1000000ull * 100000ull);
	start_std(absent);
	long calls = 0;
	for (int e = from; e < to && e < N_ENTRIES; e++) {
		const char *name = entry_name(e);
		for (int v = 0; v < entry_variants(e); v++) {
			vs_set_label("state-set-up"); vs_set_thread_label(1, "state-set-up");      /* what the set-up nests is not attributed to the call under test */
			vs_sleep_us(2500000); hx_quiesce();
			if (g_backlog) make_backlog();
			vs_set_label(name); vs_set_thread_label(1, name);
			res_progress(e);
			run_entry(e, v); calls++;
			bidib_flush(); hx_quiesce();
			uint8_t *m; while ((m = bidib_read_message())) free(m); while ((m = bidib_read_error_message())) free(m);
			check_balance(name, v);
			if (res_nviol() > 5) goto out;
		}
		emit_graph(); vs_edges_reset();      /* edges are attributed to every entry that exhibits them */
	}
	vs_set_label("bidib_stop"); bidib_stop(); check_balance("bidib_stop", 0);
out:
	emit_graph();
	res_printf("O %x %x\nC api_calls %ld\n", from, absent, calls);
	res_finish();
}
/* ---- c11.wait: the two calls that WAIT for the bus (start-up, system reset) while the receiver handles spontaneous traffic
 * bidib_start_pointer and bidib_send_sys_reset poll the internal queue for node-table rows, feature confirmations, ... which only
 * the receiver thread can deliver.  A lock kept across such a wait blocks the call forever as soon as the receiver needs that lock
 * for a message that happens to arrive in between.  Cases: every uplink type 0x80..0xFF from master / oc1, injected directly before
 * the answer to the k-th downlink message of the dialogue, for every k.  The call must return (the scheduler reports a wait-for
 * cycle, or the virtual-time horizon with the blocked threads), nothing may be held afterwards, bidib_stop must return. */
static int inj_at, inj_seen, inj_done, inj_type, inj_from;
static int inj_hook(int node, const rc_msg_t *m) { (void) node; (void) m;
	if (inj_done || inj_seen++ != inj_at) return 0;
	inj_done = 1; uint8_t d[16]; int dl; uplink_payload((uint8_t) inj_type, d, &dl); sb_send(inj_from, (uint8_t) inj_type, d, dl); return 0; }
static void wait_child(const void *job, size_t n) {
	vs_dev_t devs[VS_MAXDEV]; int nd; size_t pl; const uint8_t *p = job_parse(job, n, devs, &nd, &pl);
	int c = p[0], phase = p[1], k = p[2], probe = p[3];
	hx_child_begin(NULL, 0, 0, NULL, 0, 150ull * 1000000ull);
	inj_type = 0x80 + c % 128; inj_from = c / 128; inj_at = k; inj_seen = 0; inj_done = phase || probe;   /* phase 1: armed after the start */
	char name[96]; snprintf(name, sizeof name, "%s with type-%02x-from-%s before answer #%d", phase ? "bidib_send_sys_reset" : "bidib_start_pointer", inj_type, inj_from ? "oc1" : "master", k);
	hx_set_context(name);
	cm_std(&M); cm_install(&M); SB.on_msg = inj_hook;
	vs_set_label(name);
	int rc = hx_start_normal(0); hx_quiesce();
	int len_start = SB.nlog, fired = inj_done && !phase && !probe;
	if (rc && (phase || probe || !fired)) res_infra("normal start failed");     /* a message that makes the start fail cleanly is C20's subject, not a blocked call */
	if (!rc && (phase || probe)) { inj_seen = 0; inj_done = probe; bidib_send_sys_reset(0); hx_quiesce(); fired = inj_done && !probe; }
	if (probe) res_printf("L %d %d\n", len_start, SB.nlog - len_start);
	check_balance(name, 0);
	if (!rc) { bidib_stop(); check_balance("bidib_stop", 0); }
	res_printf("O %x %x\nC wait_cases 1\nC wait_injected %d\n", c, k + 256 * phase, fired);
	res_finish();
}
static int wait_len[2]; static long wait_n[2];
static size_t wait_gen(long idx, uint8_t *payload, char *human, size_t hn) {
	if (idx == 0 && !wait_len[0]) { payload[0] = 0; payload[1] = 0; payload[2] = 0; payload[3] = 1; snprintf(human, hn, "probe: length of the start-up and reset dialogues"); return 4; }
	int phase = idx >= wait_n[0]; if (phase) idx -= wait_n[0];
	int k = (int) (idx / 256), c = (int) (idx % 256);
	payload[0] = (uint8_t) c; payload[1] = (uint8_t) phase; payload[2] = (uint8_t) k; payload[3] = 0;
	snprintf(human, hn, "%s, uplink type %02x from %s before the answer to downlink message #%d", phase ? "system reset" : "start-up", 0x80 + c % 128, c / 128 ? "oc1" : "master", k); return 4;
}
static void wait_probe_res(long idx, const run_res_t *r) { (void) idx; const char *l = res_line(r, 'L', 0); if (l) sscanf(l, "%d %d", &wait_len[0], &wait_len[1]); }
/* ---- parent: union graph */
#define MAXLK 24
static char lkname[MAXLK][48]; static int nlk; static int G[MAXLK][MAXLK]; static char Glabel[MAXLK][MAXLK][72];
#define MAXLAB 10
static char Glabels[MAXLK][MAXLK][MAXLAB][72]; static int nGl[MAXLK][MAXLK];   /* the calls that exhibit an edge (reset/stop/start-up are not concurrent participants) */
static int lkidx(const char *n) { for (int i = 0; i < nlk; i++) if (!strcmp(lkname[i], n)) return i; if (nlk < MAXLK) { snprintf(lkname[nlk], 48, "%s", n); return nlk++; } return MAXLK - 1; }
static void cat_res(long idx, const run_res_t *r) {
	(void) idx; const char *l;
	for (int i = 0; (l = res_line(r, 'G', i)); i++) { char a[48], b[48], label[72]; int bits; label[0] = 0;
		if (sscanf(l, "%47s %47s %d %71[^\n]", a, b, &bits, label) >= 3) { int x = lkidx(a), y = lkidx(b); if (!G[x][y]) snprintf(Glabel[x][y], 72, "%s", label); G[x][y] |= bits;
			if (strcmp(label, "bidib_stop") && strcmp(label, "bidib_send_sys_reset") && strcmp(label, "start-up") && strcmp(label, "state-set-up")) { int k; for (k = 0; k < nGl[x][y]; k++) if (!strcmp(Glabels[x][y][k], label)) break;
				if (k == nGl[x][y] && k < MAXLAB) snprintf(Glabels[x][y][nGl[x][y]++], 72, "%s", label); } } }
}
static size_t cat_gen(long idx, uint8_t *payload, char *human, size_t hn) {
	int per = 6, absent = (int) (idx % 8); int from = (int) (idx / 8) * per, to = from + per; if (absent >= 4) absent = absent == 4 ? 4 : absent == 5 ? 6 : absent == 6 ? 8 : 16;   /* variants: 0..3 = connectivity x populated; 4 = congested; 6 = populated + congested */
	memcpy(payload, &from, 4); memcpy(payload + 4, &to, 4); payload[8] = (uint8_t) absent;
	snprintf(human, hn, "catalogue entries %d..%d (%s ...)%s%s%s%s%s", from, to - 1, from < N_ENTRIES ? entry_name(from) : "", absent & 1 ? " with board lc1 disconnected" : "", absent & 2 ? " in the populated state (trains on track)" : "", absent & 4 ? " congested (interface budget exhausted, oc1 stalled)" : "", absent & 16 ? " with the action-id counter about to wrap" : "", absent & 8 ? " with a backlog in the send buffer (capacity 200 announced, 96 bytes unflushed)" : "");
	return 9;
}
/* cycle search (simple DFS, graphs have < 20 nodes) */
static int cyc[8], cyclen; static int found_cycles[32][8], found_len[32], nfound;
static void dfs(int start, int v, int depth) {
	if (depth > 4) return;
	for (int w = 0; w < nlk; w++) if (G[v][w]) {
		if (w == start && depth >= 1) { if (nfound < 32) { memcpy(found_cycles[nfound], cyc, sizeof(int) * (size_t) (depth + 1)); found_len[nfound++] = depth + 1; } continue; }
		if (w <= start) continue; int seen = 0; for (int i = 0; i <= depth; i++) if (cyc[i] == w) seen = 1; if (seen) continue;
		cyc[depth + 1] = w; dfs(start, w, depth + 1);
	}
}
/* ---- phase 2: run the calls behind a cycle concurrently */
static int pair_e[3], pair_n;
static void *pair_thread(void *arg) { int k = (int) (intptr_t) arg; vs_set_label(entry_name(pair_e[k])); int vs[24]; int nv = pair_variants(pair_e[k], vs); for (int i = 0; i < nv; i++) run_entry(pair_e[k], vs[i]); return NULL; }
static void pair_child(const void *job, size_t n) {
	vs_dev_t devs[VS_MAXDEV]; int nd; size_t pl; const uint8_t *p = job_parse(job, n, devs, &nd, &pl);
	pair_n = p[0]; for (int i = 0; i < pair_n; i++) { int e; memcpy(&e, p + 1 + 4 * i, 4); pair_e[i] = e; }
	int state_variant = p[1 + 4 * pair_n];
	hx_child_begin(devs, nd, 1, NULL, 0, 0);
	start_std(state_variant); vs_sleep_us(2500000); hx_quiesce();
	int tids[3]; int nt = 0;
	for (int i = 0; i < pair_n; i++) if (pair_e[i] >= N_HL + N_LL) { /* receiver entries: queue the message, the receiver thread is the actor */
			int k = pair_e[i] - N_HL - N_LL; uint8_t d[16]; int dl; uint8_t ty = (uint8_t) (0x80 + k % 128); if (k >= 128 * 3) ty = special_payload(k - 128 * 3, d, &dl); else uplink_payload(ty, d, &dl);
			uint8_t m[40], f[90]; int ml = rc_build_msg(m, SB.n[k / 128 == 1 ? 1 : 0].addr, 0, ty, d, dl); env_push_quiet(f, rc_frame(f, m, (size_t) ml, 1)); }
	vs_window(1);
	for (int i = 0; i < pair_n; i++) if (pair_e[i] < N_HL + N_LL) tids[nt++] = vs_spawn(pair_thread, (void *) (intptr_t) i);
	for (int i = 0; i < nt; i++) vs_join_tid(tids[i]);
	vs_window(0);
	hx_quiesce(); hx_emit_ledger_violations("C11");
	res_printf("O 1 1\n"); hx_emit_trace(); res_finish();
}
static int entry_by_name(const char *name) { for (int e = 0; e < N_ENTRIES; e++) if (!strcmp(entry_name(e), name)) return e; return -1; }

void c11_register(void) { harness_register("c11.cat", cat_child); harness_register("c11.pair", pair_child); harness_register("c11.wait", wait_child); }
int c11_run(const char *tier) {
	int thorough = !strcmp(tier, "thorough");
	nlk = 0; memset(G, 0, sizeof G);
	long nchunks = (N_ENTRIES + 5) / 6;
	ex_spec_t e = { .harness = "c11.cat", .ncases = nchunks * 8, .gen = cat_gen, .on_result = cat_res, .label = "c11.cat" };
	ex_map(&e);
	/* the waiting calls against spontaneous traffic: probe the dialogue lengths, then every (type, sender, position) */
	wait_len[0] = wait_len[1] = 0;
	ex_spec_t wp = { .harness = "c11.wait", .ncases = 1, .gen = wait_gen, .on_result = wait_probe_res, .label = "c11.wait probe" };
	ex_map(&wp);
	long wait_done = 0; int wait_ex = wp.exhaustive;
	if (wait_len[0] > 0) {
		wait_n[0] = 256L * wait_len[0]; wait_n[1] = 256L * wait_len[1];
		ex_spec_t w = { .harness = "c11.wait", .ncases = wait_n[0] + wait_n[1], .gen = wait_gen, .label = "c11.wait" };
		ex_map(&w); wait_done = w.done; if (!w.exhaustive) wait_ex = 0;
	} else { rep_infra("c11.wait: the probe did not report the dialogue lengths"); wait_ex = 0; }
	rep_note("c11.wait: start-up dialogue %d downlink messages, reset dialogue %d; %ld cases (128 uplink types x 2 senders x every position x {start-up, reset}), message injected in %ld", wait_len[0], wait_len[1], wait_done, rep_get("wait_injected"));
	e.done += wait_done + 1; if (!wait_ex) e.exhaustive = 0;
	int nedges = 0; for (int a = 0; a < nlk; a++) for (int b = 0; b < nlk; b++) if (G[a][b]) { nedges++; rep_note("lock order edge %s -> %s (modes %d) first seen in %s", lkname[a], lkname[b], G[a][b], Glabel[a][b]); }
	nfound = 0; for (int s0 = 0; s0 < nlk; s0++) { cyc[0] = s0; dfs(s0, s0, 0); }
	long pair_execs = 0, confirmed_runs = 0;
	if (rep_nviol() > 0 && nfound > 0) { rep_note("%d cycle candidates not explored: the catalogue already reports locks held at return / ledger violations, and every later acquisition of a leaked lock produces spurious nesting edges", nfound); nfound = 0; }
	for (int c = 0; c < nfound; c++) {
		int L = found_len[c]; char desc[600]; size_t o = 0;
		for (int i = 0; i < L; i++) { int a = found_cycles[c][i], b = found_cycles[c][(i + 1) % L]; o += (size_t) snprintf(desc + o, sizeof desc - o, "%s -[%d call(s), first %s]-> ", lkname[a], nGl[a][b], Glabel[a][b]); }
		rep_note("lock-order cycle candidate %d: %s(back to start)", c, desc);
		for (int i = 0; i < L; i++) { int a = found_cycles[c][i], b = found_cycles[c][(i + 1) % L]; char all[900]; size_t ao = 0; all[0] = 0; for (int k = 0; k < nGl[a][b] && ao + 80 < sizeof all; k++) ao += (size_t) snprintf(all + ao, sizeof all - ao, "%s; ", Glabels[a][b][k]); rep_note("  edge %s -> %s exhibited by: %s", lkname[a], lkname[b], all); }
		if (L > 3) continue;
		/* every combination of one exhibiting call per edge (at most 36 per cycle), in both states, explored under E1 */
		int idx[3] = {0, 0, 0}, combos = 0, confirmed = 0;
		for (;;) {
			uint8_t param[20]; int pn = 0; char lab[400]; size_t lo = 0; int ok = 1;
			for (int i = 0; i < L; i++) { int a = found_cycles[c][i], b = found_cycles[c][(i + 1) % L]; if (idx[i] >= nGl[a][b]) { ok = 0; break; }
				int en = entry_by_name(Glabels[a][b][idx[i]]); if (en < 0) { ok = 0; break; } memcpy(param + 1 + 4 * pn, &en, 4); pn++; lo += (size_t) snprintf(lab + lo, sizeof lab - lo, "%s%s", i ? " || " : "", Glabels[a][b][idx[i]]); }
			/* two receiver entries cannot run concurrently (one receiver thread), the same call twice is fine */
			int nrecv = 0; for (int i = 0; ok && i < pn; i++) { int en; memcpy(&en, param + 1 + 4 * i, 4); if (en >= N_HL + N_LL) nrecv++; }
			if (ok && nrecv <= 1 && combos < 36) {
				param[0] = (uint8_t) pn; combos++;
				for (int sv = 0; sv <= 8 && !confirmed; sv += 2) {
					if (rep_elapsed() > rep_deadline_s) break;
					param[1 + 4 * pn] = (uint8_t) sv; int before = rep_nviol();
					char label[500]; snprintf(label, sizeof label, "c11.pair cycle %d: %s (state variant %d)", c, lab, sv);
					e1_spec_t s = { .harness = "c11.pair", .param = param, .nparam = 2 + 4 * (size_t) pn, .bound = thorough ? L + 1 : L, .label = strdup(label) };
					e1_explore(&s); for (int k = 0; k < 8; k++) pair_execs += s.schedules_by_cost[k]; confirmed_runs++;
					if (rep_nviol() > before) confirmed = 1;
				}
			}
			int i = 0; for (; i < L; i++) { int a = found_cycles[c][i], b = found_cycles[c][(i + 1) % L]; if (++idx[i] < nGl[a][b]) break; idx[i] = 0; }
			if (i == L || confirmed || combos >= 36) break;
		}
	}
	/* a read lock taken again by its holder (self-edge shared -> shared): harmless with glibc's default reader preference, a
	 * deadlock as soon as the lock prefers writers and a writer arrives in between.  Every call that exhibits it is explored
	 * against the receiver's and the API's writers of the two rwlocks; only a confirmed deadlock is a violation. */
	for (int x = 0; x < nlk; x++) if (G[x][x] & 8) {
		char all[600]; size_t ao = 0; all[0] = 0; for (int k = 0; k < nGl[x][x] && ao + 80 < sizeof all; k++) ao += (size_t) snprintf(all + ao, sizeof all - ao, "%s; ", Glabels[x][x][k]);
		rep_note("read lock %s is taken again by its holder in: %s", lkname[x], all);
		static const char *WRITERS[] = {"receiver:type-8d-from-master", "receiver:type-8c-from-master", "receiver:type-e5-from-master", "bidib_set_train_speed", "bidib_set_train_peripheral"};
		for (int k = 0; k < nGl[x][x]; k++) for (unsigned w = 0; w < sizeof WRITERS / sizeof WRITERS[0]; w++) {
			int e1 = entry_by_name(Glabels[x][x][k]), e2 = entry_by_name(WRITERS[w]); if (e1 < 0 || e2 < 0 || (e1 >= N_HL + N_LL && e2 >= N_HL + N_LL)) continue;
			if (rep_elapsed() > rep_deadline_s) break;
			uint8_t param[20]; param[0] = 2; memcpy(param + 1, &e1, 4); memcpy(param + 5, &e2, 4); param[9] = 0;
			char label[300]; snprintf(label, sizeof label, "c11.pair recursive read lock %s: %s || %s", lkname[x], Glabels[x][x][k], WRITERS[w]);
			e1_spec_t s = { .harness = "c11.pair", .param = param, .nparam = 10, .bound = thorough ? 2 : 1, .label = strdup(label) };
			e1_explore(&s); for (int q = 0; q < 8; q++) pair_execs += s.schedules_by_cost[q]; confirmed_runs++;
		}
	}
	rep_count("executions", e.done + pair_execs); rep_count("states", nedges > 0 ? nedges : 1); rep_count("transitions", rep_get("api_calls")); rep_count("distinct_nontrivial", rep_get("api_calls"));
	rep_flag("exhaustive", e.exhaustive);
	rep_note("catalogue: %d entries (%d high-level/util, %d low-level, 384 receiver cases) x 8 variants (action-id counter about to wrap; 2 connectivity x {after start-up, populated: trains on track / segments occupied}, congested: interface budget exhausted and oc1 stalled, populated + congested, backlog: large capacity announced and 96 bytes unflushed in the send buffer) = %ld calls; lock-order graph: %d locks, %d edges, %d cycle candidates, %ld explored for confirmation (%ld schedules)",
	         N_ENTRIES, N_HL, N_LL, rep_get("api_calls"), nlk, nedges, nfound, confirmed_runs, pair_execs);
	return 0;
}
