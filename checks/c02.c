/* C02 — uplink decoding: good packets delivered in order exactly once, bad-CRC packets dropped, later packets undisturbed.
 *  c02.fault : base streams (pairs / triples of 8 packets, shared or doubled delimiters) x every single fault at every
 *              position (x every second fault on four base streams in the thorough tier); the reference decoder runs
 *              on the same corrupted stream; low-level debug mode surfaces every message through bidib_read_message
 *  c02.chunk : every position (pair of positions) at which the read callback reports "no byte"
 *  c02.loop  : every single message the C01 catalogue produces is fed back into the receiver */
#include "../fw/explore.h"
#include "../fw/hx.h"
#include "c01_cases.h"
#include "../fw/simbus.h"
#include "../fw/cfg.h"
#include "include/bidib.h"
#include "src/transmission/bidib_transmission_intern.h"
#include <stdio.h>
#include <stdlib.h>
#include <string.h>

/* ---------------------------------------------------------------- base packets */
#define NBASE 8
static uint8_t base_payload[NBASE][80]; static int base_plen[NBASE]; static int base_ready;
static int mk(uint8_t *out, int o, const uint8_t a[4], uint8_t seq, uint8_t type, const uint8_t *d, int dl) { return o + rc_build_msg(out + o, a, seq, type, d, dl); }
static void build_base(void) {
	if (base_ready) return; base_ready = 1;
	static const uint8_t a0[4] = {0, 0, 0, 0}, a1[4] = {5, 0, 0, 0}, a2[4] = {1, 2, 0, 0}, a3[4] = {1, 2, 3, 0};
	uint8_t d[8];
	d[0] = 0xFE; d[1] = 0xAF; base_plen[0] = mk(base_payload[0], 0, a0, 1, MSG_SYS_MAGIC, d, 2);
	d[0] = 3; base_plen[1] = mk(base_payload[1], 0, a1, 0, MSG_BM_OCC, d, 1);
	d[0] = 0xFE; d[1] = 0xFD; d[2] = 0x00; base_plen[2] = mk(base_payload[2], 0, a2, 255, MSG_SYS_PONG, d, 3);
	base_plen[3] = mk(base_payload[3], 0, a3, 7, MSG_FEATURE_COUNT, d, 0);
	d[0] = 1; d[1] = 2; { int o = mk(base_payload[4], 0, a0, 2, MSG_SYS_PONG, d, 1); base_plen[4] = mk(base_payload[4], o, a1, 9, MSG_BM_FREE, d + 1, 1); }
	{ int o = mk(base_payload[5], 0, a1, 1, MSG_BM_OCC, d, 1); o = mk(base_payload[5], o, a1, 2, MSG_BM_FREE, d, 1); base_plen[5] = mk(base_payload[5], o, a2, 0, MSG_LC_STAT, d, 2); }
	/* CRC == FE and CRC == FD: search the last data byte */
	for (int want = 0; want < 2; want++) {
		for (int v = 0; v < 256; v++) {
			d[0] = 0x42; d[1] = (uint8_t) v; int l = mk(base_payload[6 + want], 0, a1, 3, MSG_BM_CV, d, 2);
			if (rc_crc8(base_payload[6 + want], (size_t) l) == (want ? 0xFD : 0xFE)) { base_plen[6 + want] = l; break; }
		}
	}
}
/* stream: FE p1 [FE] FE p2 ... FE ; doubled=1 gives every packet its own start and end delimiter */
static int build_stream(const int *idx, int n, int doubled, uint8_t *out) {
	build_base(); int o = 0; out[o++] = RC_MAGIC;
	for (int i = 0; i < n; i++) {
		if (i && doubled) out[o++] = RC_MAGIC;
		o += (int) rc_frame(out + o, base_payload[idx[i]], (size_t) base_plen[idx[i]], 0);
	}
	return o;
}
static const uint8_t INS[6] = {0x00, 0x01, 0x7F, 0xFD, 0xFE, 0xFF};
#define NFAULT 16   /* 0..7 bit flips, 8 drop, 9..14 insert, 15 truncate packet here */
static int apply_fault(const uint8_t *in, int n, int pos, int f, uint8_t *out) {
	int o = 0;
	if (f < 8) { memcpy(out, in, (size_t) n); out[pos] ^= (uint8_t) (1u << f); return n; }
	if (f == 8) { memcpy(out, in, (size_t) pos); memcpy(out + pos, in + pos + 1, (size_t) (n - pos - 1)); return n - 1; }
	if (f < 15) { memcpy(out, in, (size_t) pos); out[pos] = INS[f - 9]; memcpy(out + pos + 1, in + pos, (size_t) (n - pos)); return n + 1; }
	/* truncate: drop bytes from pos up to (not including) the next delimiter */
	memcpy(out, in, (size_t) pos); o = pos; int k = pos; while (k < n && in[k] != RC_MAGIC) k++;
	if (k == pos) k = pos + 1;   /* at a delimiter: drop the delimiter itself */
	memcpy(out + o, in + k, (size_t) (n - k)); return o + n - k;
}
static const char *fault_name(int f) {
	static char b[32];
	if (f < 8) snprintf(b, sizeof b, "flip-bit%d", f); else if (f == 8) snprintf(b, sizeof b, "drop"); else if (f < 15) snprintf(b, sizeof b, "insert-%02x", INS[f - 9]); else snprintf(b, sizeof b, "truncate");
	return b;
}
static const uint8_t PROBE_ADDR[4] = {9, 0, 0, 0};
static int probe_frame(uint8_t *out) { uint8_t m[16], d = 0x77; int l = rc_build_msg(m, PROBE_ADDR, 0, MSG_SYS_PONG, &d, 1); out[0] = RC_MAGIC; return 1 + (int) rc_frame(out + 1, m, (size_t) l, 1); }

static void drain_errq(const char *what) {
	uint8_t *m; while ((m = bidib_read_error_message())) { res_violation("unexpected-error-queue-entry", "%s: %s", what, hx_hex(m, (size_t) m[0] + 1)); free(m); }
}
/* feed `s` (optionally with no-byte markers before positions nb[]) and compare deliveries with the reference */
static int run_stream(const uint8_t *s, int n, const int *nb, int nnb, const char *what) {
	static rc_pkt_t pk[24];
	int np = rc_decode_rx(s, (size_t) n, pk, 24, 1);
	int any_dc = 0; for (int i = 0; i < np; i++) if (pk[i].dontcare || (pk[i].crc_ok && !pk[i].wellformed)) any_dc = 1;
	int ok = 1;
	if (!any_dc) {
		int k = 0;
		for (int i = 0; i < n; i++) { while (k < nnb && nb[k] == i) { env_push_nobyte(); k++; } env_push_quiet(s + i, 1); }
		vs_point(); hx_quiesce();
		for (int i = 0; i < np && ok; i++) {
			if (!pk[i].crc_ok) continue;
			for (int j = 0; j < pk[i].nmsgs; j++) {
				rc_msg_t *m = &pk[i].msgs[j]; if (m->type == MSG_STALL) continue;   /* stall notices are consumed, not queued */
				uint8_t *got = bidib_read_message();
				if (!got) { res_violation("message-not-delivered: a message of a CRC-valid packet was dropped", "%s: stream=%s expected %s", what, hx_hex(s, (size_t) n), hx_hex(m->raw, (size_t) m->rawlen)); ok = 0; break; }
				if (got[0] + 1 != m->rawlen || memcmp(got, m->raw, (size_t) m->rawlen)) {
					res_violation("message-differs: delivered message is not what the peer encoded", "%s: stream=%s delivered %s expected %s", what, hx_hex(s, (size_t) n), hx_hex(got, (size_t) got[0] + 1), hx_hex(m->raw, (size_t) m->rawlen)); ok = 0; }
				free(got);
				if (!ok) break;
			}
		}
		uint8_t *extra = ok ? bidib_read_message() : NULL;
		if (extra) { res_violation("extra-delivery: a message was delivered that no valid packet contains (bad-CRC packet not discarded, or duplicate)", "%s: stream=%s extra %s", what, hx_hex(s, (size_t) n), hx_hex(extra, (size_t) extra[0] + 1)); free(extra); ok = 0; }
	} else {
		/* a packet the properties leave open: feed packet by packet and skip exactly those packets */
		size_t from = 0;
		for (int i = 0; i < np && ok; i++) {
			env_push_quiet(s + from, pk[i].end + 1 - from); from = pk[i].end + 1; vs_point(); hx_quiesce();
			int skip = pk[i].dontcare || (pk[i].crc_ok && !pk[i].wellformed);
			if (skip) { uint8_t *m; while ((m = bidib_read_message())) free(m); while ((m = bidib_read_error_message())) free(m); res_printf("C dontcare_packets 1\n"); continue; }
			if (pk[i].crc_ok) for (int j = 0; j < pk[i].nmsgs; j++) {
				rc_msg_t *m = &pk[i].msgs[j]; if (m->type == MSG_STALL) continue;
				uint8_t *got = bidib_read_message();
				if (!got || got[0] + 1 != m->rawlen || memcmp(got, m->raw, (size_t) m->rawlen)) {
					res_violation("message-differs-after-open-packet", "%s: stream=%s expected %s", what, hx_hex(s, (size_t) n), hx_hex(m->raw, (size_t) m->rawlen)); ok = 0; }
				free(got); if (!ok) break;
			}
			uint8_t *extra = ok ? bidib_read_message() : NULL;
			if (extra) { res_violation("extra-delivery: a message was delivered that no valid packet contains (bad-CRC packet not discarded, or duplicate)", "%s: stream=%s extra %s", what, hx_hex(s, (size_t) n), hx_hex(extra, (size_t) extra[0] + 1)); free(extra); ok = 0; }
		}
		if ((size_t) n > from) { env_push_quiet(s + from, (size_t) n - from); vs_point(); hx_quiesce(); }
	}
	drain_errq(what);
	if (!ok) { uint8_t *m; while ((m = bidib_read_message())) free(m); }
	return ok;
}

/* ---------------------------------------------------------------- c02.fault */
typedef struct { uint8_t npk; uint8_t idx[3]; uint8_t doubled; uint8_t double_fault; int32_t from, count; } fjob_t;
static int stream_of(const fjob_t *j, uint8_t *out) { int idx[3] = {j->idx[0], j->idx[1], j->idx[2]}; return build_stream(idx, j->npk, j->doubled, out); }
static void fault_child(const void *job, size_t n) {
	vs_dev_t devs[VS_MAXDEV]; int nd; size_t pl; const uint8_t *p = job_parse(job, n, devs, &nd, &pl);
	fjob_t j; memcpy(&j, p, sizeof j);
	hx_child_begin(NULL, 0, 0, NULL, 0, 0);
	if (hx_start_debug(0)) res_infra("start failed");
	hx_quiesce();
	{ uint8_t fe = RC_MAGIC; hx_feed(&fe, 1); }   /* the receiver synchronises on a first delimiter */
	uint8_t base[200], f1[220], f2[260], probe[32]; int bn = stream_of(&j, base); int pn = probe_frame(probe);
	hx_hash_t h; hx_hash_init(&h); long cases = 0;
	long total1 = (long) bn * NFAULT;
	for (long c = j.from; c < j.from + j.count; c++) {
		int n1, n2; char what[160];
		if (!j.double_fault) {
			if (c > total1) break;
			if (c == total1) { memcpy(f2, base, (size_t) bn); n2 = bn; snprintf(what, sizeof what, "no fault"); }
			else { n2 = apply_fault(base, bn, (int) (c / NFAULT), (int) (c % NFAULT), f2); snprintf(what, sizeof what, "fault %s at %ld", fault_name((int) (c % NFAULT)), c / NFAULT); }
		} else {
			long a = c / total1, b = c % total1;
			if (a >= total1) break;
			n1 = apply_fault(base, bn, (int) (a / NFAULT), (int) (a % NFAULT), f1);
			int pos2 = (int) (b / NFAULT); if (pos2 >= n1) continue;
			n2 = apply_fault(f1, n1, pos2, (int) (b % NFAULT), f2);
			size_t o = (size_t) snprintf(what, sizeof what, "faults %s at %ld, ", fault_name((int) (a % NFAULT)), a / NFAULT);
			snprintf(what + o, sizeof what - o, "%s at %d", fault_name((int) (b % NFAULT)), pos2);
		}
		memcpy(f2 + n2, probe, (size_t) pn); n2 += pn;   /* a delimiter and a known-good packet: later packets must be undisturbed */
		cases++;
		if (!run_stream(f2, n2, NULL, 0, what)) { res_printf("I %ld\n", c); break; }
		hx_hash_add(&h, f2, (size_t) n2);
	}
	res_printf("O %llx %llx\nC fault_cases %ld\n", (unsigned long long) h.a, (unsigned long long) h.b, cases);
	res_finish();
}
static int g_thorough;
#define DF_CHUNK 4000
static long nstreams(void) { return 64L * 2 + 512L * 2; }
static void stream_decode(long s, fjob_t *j) {
	memset(j, 0, sizeof *j);
	if (s < 128) { j->npk = 2; j->doubled = (uint8_t) (s & 1); s >>= 1; j->idx[0] = (uint8_t) (s % 8); j->idx[1] = (uint8_t) (s / 8); }
	else { s -= 128; j->npk = 3; j->doubled = (uint8_t) (s & 1); s >>= 1; j->idx[0] = (uint8_t) (s % 8); j->idx[1] = (uint8_t) ((s / 8) % 8); j->idx[2] = (uint8_t) (s / 64); }
}
static const int DF_QUICK[4] = {2 * (0 + 8 * 2), 2 * (4 + 8 * 6) + 1, 2 * (5 + 8 * 7), 2 * (2 + 8 * 3) + 1};   /* pair-stream indices */
static long df_jobs_per_stream[128]; static int n_df;
static long df_stream_index(int s) { return g_thorough ? s : DF_QUICK[s]; }
static size_t fault_gen(long idx, uint8_t *payload, char *human, size_t hn) {
	fjob_t j;
	if (idx < nstreams()) { stream_decode(idx, &j); j.from = 0; j.count = 1 << 20; }
	else {
		long k = idx - nstreams(); int s = 0; while (k >= df_jobs_per_stream[s]) { k -= df_jobs_per_stream[s]; s++; }
		stream_decode(df_stream_index(s), &j);
		j.double_fault = 1; j.from = (int32_t) (k * DF_CHUNK); j.count = DF_CHUNK;
	}
	memcpy(payload, &j, sizeof j);
	snprintf(human, hn, "stream packets=[%d,%d%s%.0d] %s delimiters, %s faults, cases from %d", j.idx[0], j.idx[1], j.npk == 3 ? "," : "", j.npk == 3 ? j.idx[2] : 0,
	         j.doubled ? "doubled" : "shared", j.double_fault ? "double" : "all single", j.from);
	return sizeof j;
}

/* ---------------------------------------------------------------- c02.chunk */
static void chunk_child(const void *job, size_t n) {
	vs_dev_t devs[VS_MAXDEV]; int nd; size_t pl; const uint8_t *p = job_parse(job, n, devs, &nd, &pl);
	fjob_t j; memcpy(&j, p, sizeof j);
	hx_child_begin(NULL, 0, 0, NULL, 0, 0);
	if (hx_start_debug(0)) res_infra("start failed");
	hx_quiesce();
	{ uint8_t fe = RC_MAGIC; hx_feed(&fe, 1); }
	uint8_t base[260], probe[32]; int bn = stream_of(&j, base); int pn = probe_frame(probe);
	memcpy(base + bn, probe, (size_t) pn); bn += pn;
	long cases = 0; hx_hash_t h; hx_hash_init(&h);
	for (int a = 0; a <= bn; a++) {
		int nb[2] = {a, 0}; char what[64]; snprintf(what, sizeof what, "no-byte before position %d", a);
		if (!j.double_fault) { cases++; if (!run_stream(base, bn, nb, 1, what)) break; }
		else for (int b = a; b <= bn; b++) { nb[1] = b; snprintf(what, sizeof what, "no-byte before positions %d and %d", a, b); cases++; if (!run_stream(base, bn, nb, 2, what)) { a = bn + 1; break; } }
		hx_hash_add(&h, &a, sizeof a);
	}
	res_printf("O %llx %llx\nC chunk_cases %ld\n", (unsigned long long) h.a, (unsigned long long) h.b, cases);
	res_finish();
}
static size_t chunk_gen(long idx, uint8_t *payload, char *human, size_t hn) {
	fjob_t j; stream_decode(idx % 128, &j); j.double_fault = (uint8_t) (idx >= 128);
	memcpy(payload, &j, sizeof j);
	snprintf(human, hn, "stream packets=[%d,%d] %s delimiters, every %s", j.idx[0], j.idx[1], j.doubled ? "doubled" : "shared", j.double_fault ? "pair of split positions" : "split position");
	return sizeof j;
}

/* ---------------------------------------------------------------- c02.loop */
static void loop_child(const void *job, size_t n) {
	vs_dev_t devs[VS_MAXDEV]; int nd; size_t pl; const uint8_t *p = job_parse(job, n, devs, &nd, &pl);
	uint32_t start, count; memcpy(&start, p, 4); memcpy(&count, p + 4, 4);
	hx_child_begin(NULL, 0, 0, NULL, 0, 1000000ull * 1000000ull);
	if (hx_start_debug(0)) res_infra("start failed");
	hx_quiesce();
	size_t off = 0; long cases = 0; hx_hash_t h; hx_hash_init(&h);
	/* resynchronise the receiver on a first delimiter */
	for (uint32_t i = 0; i < count && (long) (start + i) < bytes_total(); i++) {
		case_t c; int isolate = gen_case((long) start + i, &c);
		if (isolate) vs_sleep_us(2500000);
		uint8_t stack[4]; memcpy(stack, c.addr, 4);
		if (c.dlen) bidib_buffer_message_with_data(stack, c.type, (uint8_t) c.dlen, c.data, 0); else bidib_buffer_message_without_data(stack, c.type, 0);
		bidib_flush();
		size_t len = env_out_len() - off; const uint8_t *w = env_out() + off; off = env_out_len();
		if (len == 0) res_infra("case %u produced no output", start + i);
		/* what did the sender put on the wire?  strip framing with the reference codec to know the message */
		/* the receiver has to deliver the message that was SUBMITTED (address, type, data; the sequence number is the
		 * sender's), whatever the sender made of it on the wire */
		env_push_quiet(w, len); vs_point(); hx_quiesce();
		uint8_t *got = bidib_read_message(); cases++;
		uint8_t expm[200]; int depth = 0; while (depth < 3 && c.addr[depth]) depth++;
		int el = rc_build_msg(expm, c.addr, got && got[0] >= 3 + depth ? got[2 + depth] : 0, c.type, c.data, c.dlen);
		if (!got || got[0] + 1 != el || memcmp(got, expm, (size_t) el)) {
			char hc[300]; human_case(&c, hc, sizeof hc);
			res_violation("loopback-differs: the receiver does not decode what the library's own sender emitted", "%s: wire=%s delivered=%s", hc, hx_hex(w, len), got ? hx_hex(got, (size_t) got[0] + 1) : "(nothing)");
			free(got); res_printf("I %u\n", start + i); break;
		}
		free(got);
		if ((got = bidib_read_message())) { res_violation("loopback-extra-delivery", "case %u", start + i); free(got); break; }
		hx_hash_add(&h, w, len);
	}
	res_printf("O %llx %llx\nC loopback_cases %ld\n", (unsigned long long) h.a, (unsigned long long) h.b, cases);
	res_finish();
}
#define LOOP_BATCH 2048
static size_t loop_gen(long idx, uint8_t *payload, char *human, size_t hn) {
	uint32_t start = (uint32_t) (idx * LOOP_BATCH), count = LOOP_BATCH; memcpy(payload, &start, 4); memcpy(payload + 4, &count, 4);
	snprintf(human, hn, "C01 catalogue cases %u..%u looped back", start, start + count - 1); return 8;
}


/* ---------------------------------------------------------------- c02.long: packets of every payload size up to the maximum
 * A node may fill a packet up to the packet capacity, which MSG_PKT_CAPACITY expresses in one byte: every payload size
 * 4..255 (+ CRC) is a packet the receiver has to split and deliver.  For every size: the payload is tiled with messages
 * (<= 64 bytes each, address depth 0..3 by turns), in four variants: plain data, data full of 0xFE/0xFD (the escapes do not
 * count towards the unescaped size), first message short, last message short; each followed by a small packet sharing the
 * delimiter.  Sizes 256..300 are fed as well: what happens to them is not prescribed, but the packet BEHIND them has to be
 * delivered. */
static int build_long(int size, int variant, uint8_t *payload) {
	static const uint8_t ADDRS[4][4] = {{0, 0, 0, 0}, {5, 0, 0, 0}, {1, 2, 0, 0}, {1, 2, 3, 0}};
	int o = 0, k = 0;
	while (o < size) {
		int depth = k % 4, hdr = 4 + depth, rem = size - o;
		if (rem < hdr) { depth = 0; hdr = 4; }
		if (rem < 4) return -1;
		int want = (variant == 2 && k == 0) ? hdr : 64;
		int len = rem < want ? rem : want;
		if (rem - len > 0 && rem - len < 7) len = rem - 7 >= hdr ? rem - 7 : len;     /* leave room for a last message (deepest header is 7 bytes) */
		if (variant == 3 && rem > 4 + 64 && rem - len < 4 + 8) len = rem - 4;        /* last message short */
		if (len < hdr) return -1;
		uint8_t d[64]; int dl = len - hdr;
		for (int i = 0; i < dl; i++) d[i] = variant == 1 ? (uint8_t) ((i & 1) ? 0xFD : 0xFE) : (uint8_t) (0x10 + (i * 7 + k) % 0xE0);
		o += rc_build_msg(payload + o, ADDRS[depth], (uint8_t) (k + 1), (uint8_t) (0x81 + k % 5), d, dl); k++;
	}
	return o == size ? o : -1;
}
typedef struct { int32_t from, count; } ljob_t;
static void long_child(const void *job, size_t n) {
	vs_dev_t devs[VS_MAXDEV]; int nd; size_t pl; const uint8_t *p = job_parse(job, n, devs, &nd, &pl);
	ljob_t j; memcpy(&j, p, sizeof j);
	hx_child_begin(NULL, 0, 0, NULL, 0, 0);
	if (hx_start_debug(0)) res_infra("start failed");
	hx_quiesce();
	uint8_t m0[16], f0[40]; int l0 = rc_build_msg(m0, PROBE_ADDR, 0, MSG_SYS_PONG, (const uint8_t *) "\x01", 1); env_push_quiet(f0, rc_frame(f0, m0, (size_t) l0, 1)); vs_point(); hx_quiesce();
	uint8_t *g = bidib_read_message(); free(g);
	long cases = 0; hx_hash_t h; hx_hash_init(&h);
	for (int c = j.from; c < j.from + j.count; c++) {
		int size = 4 + c / 4, variant = c % 4; static uint8_t payload[400], stream[1400]; char what[100];
		if (build_long(size, variant, payload) < 0) continue;
		snprintf(what, sizeof what, "packet with %d payload bytes (variant %d)", size, variant);
		size_t sl = rc_frame(stream, payload, (size_t) size, 0);                  /* the previous packet's delimiter is shared */
		sl += (size_t) probe_frame(stream + sl);
		cases++;
		if (size <= 255) { if (!run_stream(stream, (int) sl, NULL, 0, what)) break; }
		else {
			/* oversized: only the packet behind it is judged */
			env_push_quiet(stream, sl); vs_point(); hx_quiesce();
			uint8_t *m, *last = NULL; while ((m = bidib_read_message())) { free(last); last = m; }
			uint8_t pm[16], dd = 0x77; int pml = rc_build_msg(pm, PROBE_ADDR, 0, MSG_SYS_PONG, &dd, 1);
			if (!last || last[0] + 1 != pml || memcmp(last, pm, (size_t) pml)) { res_violation("message-not-delivered-after-oversized-packet: an oversized packet disturbed the decoding of the next packet", "%s", what); free(last); break; }
			free(last); drain_errq(what);
		}
		hx_hash_add(&h, &c, sizeof c);
	}
	res_printf("O %llx %llx\nC long_cases %ld\n", (unsigned long long) h.a, (unsigned long long) h.b, cases);
	res_finish();
}
#define LONG_CASES ((300 - 4 + 1) * 4)
#define LONG_BATCH 40
static size_t long_gen(long idx, uint8_t *payload, char *human, size_t hn) {
	ljob_t j = { (int32_t) (idx * LONG_BATCH), LONG_BATCH }; if (j.from + j.count > LONG_CASES) j.count = LONG_CASES - j.from;
	memcpy(payload, &j, sizeof j); snprintf(human, hn, "payload sizes %d..%d x 4 variants", 4 + j.from / 4, 4 + (j.from + j.count - 1) / 4); return sizeof j;
}
/* ---------------------------------------------------------------- c02.addr: the sender address a message is PROCESSED with
 * Debug mode only shows the message bytes.  In the normal dispatcher the library answers a node-table notice with
 * MSG_NODE_CHANGED_ACK addressed to the sender it attributed the notice to — that makes the processed address observable on the
 * wire.  Packets of 2 and 3 messages: each earlier message a PONG, the last one MSG_NODE_NEW (unknown unique id), every
 * combination of 7 address shapes (depth 0..3, two byte patterns per depth) per position: exactly one acknowledgement, to the
 * address the LAST message carries, with its version. */
static const uint8_t ASHAPE[7][4] = {{0, 0, 0, 0}, {1, 0, 0, 0}, {7, 0, 0, 0}, {1, 2, 0, 0}, {9, 8, 0, 0}, {1, 2, 3, 0}, {6, 5, 4, 0}};
static void addr_child(const void *job, size_t n) {
	vs_dev_t devs[VS_MAXDEV]; int nd; size_t pl; const uint8_t *p = job_parse(job, n, devs, &nd, &pl);
	int first = p[0];
	hx_child_begin(NULL, 0, 0, NULL, 0, 0);
	if (hx_start_debug(0)) res_infra("start failed");
	hx_quiesce(); bidib_set_lowlevel_debug_mode(false);
	long cases = 0; uint8_t ver = 0;
	for (int second = 0; second < 7; second++) for (int third = -1; third < 7; third++) {
		int seqa[3] = {first, second, third}; int nmsg = third < 0 ? 2 : 3; const uint8_t *last = ASHAPE[seqa[nmsg - 1]];
		uint8_t payload[120]; int po = 0; ver++;
		for (int i = 0; i < nmsg; i++) {
			if (i < nmsg - 1) { uint8_t d = (uint8_t) (0x40 + i); po += rc_build_msg(payload + po, ASHAPE[seqa[i]], 0, MSG_SYS_PONG, &d, 1); }
			else { uint8_t d[9] = {ver, 0x2A, 0x05, 0x00, 0x0D, 0x99, 0x00, 0x77, 0x66}; po += rc_build_msg(payload + po, last, 0, MSG_NODE_NEW, d, 9); }
		}
		uint8_t f[300]; size_t fl = rc_frame(f, payload, (size_t) po, 1); size_t mark = env_out_len();
		env_push_quiet(f, fl); vs_point(); hx_quiesce(); bidib_flush(); hx_quiesce();
		uint8_t *um; while ((um = bidib_read_message())) free(um); while ((um = bidib_read_error_message())) free(um);
		static rc_pkt_t pk[8]; char err[160]; size_t len = env_out_len() - mark; int np = len ? rc_decode_strict(env_out() + mark, len, pk, 8, err, sizeof err) : 0;
		int acks = 0, right = 0; char got[200]; size_t go = 0; got[0] = 0;
		for (int i = 0; i < np; i++) for (int k = 0; k < pk[i].nmsgs; k++) { rc_msg_t *m = &pk[i].msgs[k]; if (m->type != MSG_NODE_CHANGED_ACK) continue; acks++;
			if (!memcmp(m->addr, last, 4) && m->dlen == 1 && m->data[0] == ver) right++;
			go += (size_t) snprintf(got + go, sizeof got - go, "%02x.%02x.%02x.%02x v%d; ", m->addr[0], m->addr[1], m->addr[2], m->addr[3], m->dlen ? m->data[0] : -1); }
		char what[200]; size_t wo = (size_t) snprintf(what, sizeof what, "one packet, senders");
		for (int i = 0; i < nmsg; i++) wo += (size_t) snprintf(what + wo, sizeof what - wo, " %02x.%02x.%02x(%s)", ASHAPE[seqa[i]][0], ASHAPE[seqa[i]][1], ASHAPE[seqa[i]][2], i < nmsg - 1 ? "pong" : "node-new");
		if (np < 0) res_violation("wire-malformed", "%s: %s", what, err);
		else if (acks != 1 || right != 1) res_violation("processed-with-wrong-sender: the answer to a message did not go to the address the message carries", "%s: acknowledgements on the wire: %s(expected one to %02x.%02x.%02x v%d)", what, got, last[0], last[1], last[2], ver);
		cases++; vs_sleep_us(2500000); hx_quiesce();
		if (res_nviol() > 3) break;
	}
	res_printf("O %x %x\nC addr_cases %ld\n", first, 0, cases);
	res_finish();
}
static size_t addr_gen(long idx, uint8_t *payload, char *human, size_t hn) { payload[0] = (uint8_t) idx; snprintf(human, hn, "multi-message packets whose first sender is %02x.%02x.%02x", ASHAPE[idx][0], ASHAPE[idx][1], ASHAPE[idx][2]); return 1; }
/* c02.sender: the same question where the wire cannot answer it (an address is ENCODED only up to its first zero byte, so stale
 * bytes behind the terminator never show in an acknowledgement): normal mode with the standard configuration, an occupancy report
 * from master / oc1 that shares its packet with 1 or 2 earlier messages from deeper nodes must mark the board's segment occupied. */
static void sender_child(const void *job, size_t n) {
	vs_dev_t devs[VS_MAXDEV]; int nd; size_t pl; const uint8_t *p = job_parse(job, n, devs, &nd, &pl); (void) p;
	hx_child_begin(NULL, 0, 0, NULL, 0, 0);
	cfg_install_std();
	if (hx_start_normal(0)) res_infra("normal start failed");
	hx_quiesce(); vs_sleep_us(2500000); hx_quiesce();
	static const char *SEG[2] = {"seg1", "seg4"}; long cases = 0;
	for (int board = 0; board < 2; board++) for (int a1 = 3; a1 < 7; a1++) for (int a0 = -1; a0 < 7; a0 += 3) {
		uint8_t payload[120]; int po = 0; uint8_t d = 0x41, num = 0;
		if (a0 >= 0) po += rc_build_msg(payload + po, ASHAPE[a0], 0, MSG_SYS_PONG, &d, 1);
		po += rc_build_msg(payload + po, ASHAPE[a1], 0, MSG_SYS_PONG, &d, 1);
		uint8_t seq = SB.n[board].seq; SB.n[board].seq = seq == 255 ? 1 : (uint8_t) (seq + 1);
		po += rc_build_msg(payload + po, SB.n[board].addr, seq, MSG_BM_OCC, &num, 1);
		uint8_t f[300]; size_t fl = rc_frame(f, payload, (size_t) po, 1); env_push_quiet(f, fl); vs_point(); hx_quiesce();
		uint8_t *um; while ((um = bidib_read_message())) free(um); while ((um = bidib_read_error_message())) free(um);
		t_bidib_segment_state_query q = bidib_get_segment_state(SEG[board]); int occ = q.known && q.data.occupied; bidib_free_segment_state_query(q);
		if (!occ) res_violation("processed-with-wrong-sender: a report that shares its packet with messages from deeper nodes was not attributed to its sender", "occupancy report from %s behind a message from %02x.%02x.%02x: %s not occupied", board ? "oc1" : "master", ASHAPE[a1][0], ASHAPE[a1][1], ASHAPE[a1][2], SEG[board]);
		/* free it again, in a packet of its own */
		sb_send(board, MSG_BM_FREE, &num, 1); vs_point(); hx_quiesce(); while ((um = bidib_read_message())) free(um);
		cases++; if (res_nviol() > 3) break;
	}
	res_printf("O 1 1\nC addr_cases %ld\n", cases);
	res_finish();
}
static size_t sender_gen(long idx, uint8_t *payload, char *human, size_t hn) { payload[0] = (uint8_t) idx; snprintf(human, hn, "occupancy reports sharing a packet with messages from deeper nodes"); return 1; }
/* c02.loopcap: the round trip at the packet-capacity boundary.  Every announced capacity 60..255 (real MSG_PKT_CAPACITY through the
 * normal dispatcher), three messages batched without a flush whose sizes add up to capacity-2 .. capacity+2, one flush, the bytes
 * fed back: the receiver delivers exactly the three submitted messages, in order (a sender that fills a packet one byte too far
 * produces, at capacity 255, a packet its own receiver cannot take). */
static void loopcap_child(const void *job, size_t n) {
	vs_dev_t devs[VS_MAXDEV]; int nd; size_t pl; const uint8_t *p = job_parse(job, n, devs, &nd, &pl);
	int cap0 = p[0], ncap = p[1];
	hx_child_begin(NULL, 0, 0, NULL, 0, 1000000ull * 1000000ull);
	if (hx_start_debug(0)) res_infra("start failed");
	hx_quiesce();
	long cases = 0; static const uint8_t IF0[4] = {0, 0, 0, 0};
	for (int cap = cap0; cap < cap0 + ncap && cap <= 255 && !res_nviol(); cap++) for (int delta = -2; delta <= 2; delta++) {
		bidib_set_lowlevel_debug_mode(false); { uint8_t c = (uint8_t) cap; hx_feed_msg(IF0, 0, MSG_PKT_CAPACITY, &c, 1); hx_quiesce(); } bidib_set_lowlevel_debug_mode(true);
		int total = cap + delta, s1 = total / 3, s2 = total / 3, s3 = total - s1 - s2; int sz[3] = {s1, s2, s3}; if (s3 > 128 || s1 < 6) continue;
		vs_sleep_us(2500000); bidib_flush(); size_t off = env_out_len();
		uint8_t sent[3][140]; int sl[3];
		for (int k = 0; k < 3; k++) { uint8_t stack[4] = {0, 0, 0, 0}; uint8_t data[130]; int dl = sz[k] - 4; for (int i = 0; i < dl; i++) data[i] = (uint8_t) (0x30 + (i + k) % 40);
			bidib_buffer_message_with_data(stack, MSG_SYS_CLOCK, (uint8_t) dl, data, 0); sl[k] = rc_build_msg(sent[k], IF0, 0, MSG_SYS_CLOCK, data, dl); }
		bidib_flush();
		size_t len = env_out_len() - off; const uint8_t *w = env_out() + off;
		env_push_quiet(w, len); vs_point(); hx_quiesce();
		char what[120]; snprintf(what, sizeof what, "capacity %d, three messages of %d+%d+%d = %d bytes batched", cap, s1, s2, s3, total);
		for (int k = 0; k < 3; k++) { uint8_t *got = bidib_read_message();
			if (!got || got[0] + 1 != sl[k] || got[0] != sent[k][0] || memcmp(got + 3, sent[k] + 3, (size_t) sl[k] - 3)) { res_violation("loopback-differs: the receiver does not decode what the library's own sender emitted", "%s: message %d delivered=%s", what, k + 1, got ? hx_hex(got, got[0] + 1 > 24 ? 24 : (size_t) got[0] + 1) : "(nothing)"); free(got); break; }
			free(got); }
		uint8_t *extra; while ((extra = bidib_read_message())) free(extra);
		cases++;
	}
	res_printf("O %x %x\nC loopback_cases %ld\n", cap0, ncap, cases);
	res_finish();
}
static size_t loopcap_gen(long idx, uint8_t *payload, char *human, size_t hn) { payload[0] = (uint8_t) (60 + idx * 14); payload[1] = 14; snprintf(human, hn, "round trip at the capacity boundary, capacities %ld..%ld", 60 + idx * 14, 60 + idx * 14 + 13); return 2; }
void c02_register(void) { harness_register("c02.loopcap", loopcap_child); harness_register("c02.sender", sender_child); harness_register("c02.addr", addr_child); harness_register("c02.long", long_child); harness_register("c02.fault", fault_child); harness_register("c02.chunk", chunk_child); harness_register("c02.loop", loop_child); }
int c02_run(const char *tier) {
	g_thorough = !strcmp(tier, "thorough");
	long execs = 0, states = 0; int exhaustive = 1;
	long njobs = nstreams();
	n_df = g_thorough ? 128 : 4;
	for (int s = 0; s < n_df; s++) {
		fjob_t j; stream_decode(df_stream_index(s), &j);
		uint8_t tmp[200]; long t1 = (long) stream_of(&j, tmp) * NFAULT;
		df_jobs_per_stream[s] = (t1 * t1 + DF_CHUNK - 1) / DF_CHUNK; njobs += df_jobs_per_stream[s];
	}
	ex_spec_t f = { .harness = "c02.fault", .ncases = njobs, .gen = fault_gen, .label = "c02.fault" };
	ex_map(&f); execs += f.done; states += f.distinct_outcomes; if (!f.exhaustive) exhaustive = 0;
	ex_spec_t c = { .harness = "c02.chunk", .ncases = 256, .gen = chunk_gen, .label = "c02.chunk" };
	ex_map(&c); execs += c.done; states += c.distinct_outcomes; if (!c.exhaustive) exhaustive = 0;
	ex_spec_t l = { .harness = "c02.loop", .ncases = (bytes_total() + LOOP_BATCH - 1) / LOOP_BATCH, .gen = loop_gen, .label = "c02.loop" };
	ex_map(&l); execs += l.done; states += l.distinct_outcomes; if (!l.exhaustive) exhaustive = 0;
	ex_spec_t lg = { .harness = "c02.long", .ncases = (LONG_CASES + LONG_BATCH - 1) / LONG_BATCH, .gen = long_gen, .label = "c02.long" };
	ex_map(&lg); execs += lg.done; states += lg.distinct_outcomes; if (!lg.exhaustive) exhaustive = 0;
	ex_spec_t ad = { .harness = "c02.addr", .ncases = 7, .gen = addr_gen, .label = "c02.addr" };
	ex_map(&ad); execs += ad.done; states += ad.distinct_outcomes; if (!ad.exhaustive) exhaustive = 0;
	ex_spec_t lc = { .harness = "c02.loopcap", .ncases = 14, .gen = loopcap_gen, .label = "c02.loopcap" };
	ex_map(&lc); execs += lc.done; if (!lc.exhaustive) exhaustive = 0;
	ex_spec_t sd = { .harness = "c02.sender", .ncases = 1, .gen = sender_gen, .label = "c02.sender" };
	ex_map(&sd); execs += sd.done; if (!sd.exhaustive) exhaustive = 0;
	rep_note("c02.addr: %ld multi-message packets (7 address shapes per position, 2 and 3 messages): the acknowledgement of the last message goes to the address it carries", rep_get("addr_cases"));
	rep_note("long packets: %ld cases (payload sizes 4..300 x 4 tilings; sizes <= 255 must be delivered message by message, behind larger ones the next packet must be)", rep_get("long_cases"));
	long cases = rep_get("fault_cases") + rep_get("chunk_cases") + rep_get("loopback_cases") + rep_get("long_cases") + rep_get("addr_cases");
	rep_count("executions", execs); rep_count("states", states); rep_count("transitions", cases); rep_flag("exhaustive", exhaustive);
	rep_count("distinct_nontrivial", cases);
	rep_note("streams=%ld, corrupted-stream cases=%ld, chunking cases=%ld, loop-back cases=%ld, packets the property leaves open (skipped individually)=%ld",
	         nstreams(), rep_get("fault_cases"), rep_get("chunk_cases"), rep_get("loopback_cases"), rep_get("dontcare_packets"));
	return 0;
}
