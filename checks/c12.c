/* C12 — no received byte stream causes out-of-bounds access, a crash or a stuck receiver.
 * Exhaustive grammar of CRC-valid adversarial packets and framing abuse, executed on the ASan-instrumented library;
 * after every input a known-good packet must still be processed (liveness probe).
 * Modes: 0 = low-level debug mode, 1 = normal-mode dispatcher without configuration (equipment absent),
 *        2 = normal mode with configuration (equipment present) — added with the simulated bus. */
#include "../fw/explore.h"
#include "../fw/hx.h"
#include "../fw/simbus.h"
#include "../fw/cfg.h"
#include "include/bidib.h"
#include <stdio.h>
#include <stdlib.h>
#include <string.h>

enum { F_SHAPE, F_SWEEP, F_MULTI, F_FRAME, F_CONF, F_STORM, F_N };
static const char *FNAME[F_N] = {"message-shapes", "field-sweeps", "multi-message", "framing-abuse", "configured-equipment", "reply-storm"};
#define CONF_PER 3421L      /* cases per (type, sender) of the configured-equipment family */
static const int DLEN[18] = {0, 1, 2, 3, 4, 5, 6, 7, 8, 9, 10, 11, 12, 20, 40, 60, 100, 124};
static const uint8_t FILL[3] = {0x00, 0xFF, 0x05};
static const uint8_t SYM[7] = {0xFE, 0xFD, 0x00, 0x01, 0x03, 0x80, 0xFF};
static int g_thorough;

static long fam_count(int fam) {
	switch (fam) {
	case F_SHAPE: return 256L * 18 * 6 * 5 * (g_thorough ? 3 : 2);
	case F_SWEEP: return (g_thorough ? 256L : 128L) * 256 * 8;
	case F_MULTI: return 5L * 5 * 5 + 5 * 5;
	case F_FRAME: return 601L * 2 + 7 + 49 + 343 + 2401;
	case F_CONF: return CONF_PER * 128 * 3;
	case F_STORM: return 4L * 6 * 40;
	}
	return 0;
}
/* builds the raw stream for a case (already framed, starts and ends with a delimiter unless framing abuse) */
static int build_msg_shape(uint8_t *m, uint8_t type, int dlen, int addrform, int lenform, uint8_t fill) {
	int k = 1;
	switch (addrform) {
	case 0: m[k++] = 0; break;
	case 1: m[k++] = 1; m[k++] = 0; break;
	case 2: m[k++] = 1; m[k++] = 2; m[k++] = 0; break;
	case 3: m[k++] = 1; m[k++] = 2; m[k++] = 3; m[k++] = 0; break;
	case 4: m[k++] = 1; m[k++] = 2; m[k++] = 3; m[k++] = 4; m[k++] = 0; break;   /* over-deep address stack */
	case 5: m[k++] = 1; m[k++] = 2; break;                                          /* no terminator at all (if the rest is non-zero) */
	}
	m[k++] = addrform == 5 ? 7 : 0;      /* sequence number (0 = unchecked) */
	m[k++] = type;
	for (int i = 0; i < dlen; i++) m[k++] = (addrform == 5 && fill == 0) ? 0x55 : fill;
	int len = k - 1;
	switch (lenform) { case 0: break; case 1: len -= 1; break; case 2: len += 1; break; case 3: len = 0; break; case 4: len = 255; break; }
	m[0] = (uint8_t) len;
	return k;
}
static int gen_stream(int fam, long idx, uint8_t *out, char *human, size_t hn) {
	uint8_t m[400]; int ml;
	if (fam == F_SHAPE) {
		uint8_t type = (uint8_t) (idx % 256); idx /= 256; int dlen = DLEN[idx % 18]; idx /= 18; int af = (int) (idx % 6); idx /= 6; int lf = (int) (idx % 5); idx /= 5;
		uint8_t fill = FILL[idx];
		ml = build_msg_shape(m, type, dlen, af, lf, fill);
		snprintf(human, hn, "type=%02x dlen=%d addrform=%d lenform=%d fill=%02x", type, dlen, af, lf, fill);
		return (int) rc_frame(out, m, (size_t) ml, 1);
	}
	if (fam == F_SWEEP) {
		int v = (int) (idx % 256); idx /= 256; int var = (int) (idx % 8); idx /= 8; uint8_t type = (uint8_t) (g_thorough ? idx : 0x80 + idx);
		static const int POS[8] = {0, 0, 1, 1, 2, 3, 0, 1}; static const int DL[8] = {1, 9, 2, 9, 9, 9, 124, 124};
		uint8_t data[130]; memset(data, 0, sizeof data); data[POS[var]] = (uint8_t) v;
		static const uint8_t a[4] = {1, 0, 0, 0};
		ml = rc_build_msg(m, a, 0, type, data, DL[var]);
		snprintf(human, hn, "type=%02x data[%d]=%02x dlen=%d", type, POS[var], v, DL[var]);
		return (int) rc_frame(out, m, (size_t) ml, 1);
	}
	if (fam == F_MULTI) {
		int n = idx < 125 ? 3 : 2; if (idx >= 125) idx -= 125;
		int ml2 = 0;
		size_t ho = (size_t) snprintf(human, hn, "%d messages kinds=", n);
		for (int i = 0; i < n; i++) {
			int kind = (int) (idx % 5); idx /= 5; uint8_t one[40]; int l;
			switch (kind) {
			case 0: l = build_msg_shape(one, MSG_SYS_PONG, 1, 1, 0, 0x11); break;
			case 1: l = build_msg_shape(one, MSG_BM_OCC, 1, 1, 2, 0x01); break;       /* claims one byte more */
			case 2: l = build_msg_shape(one, MSG_BM_FREE, 1, 1, 3, 0x01); break;      /* length 0 */
			case 3: l = build_msg_shape(one, MSG_LC_STAT, 3, 5, 0, 0x01); break;      /* no terminator */
			default: l = build_msg_shape(one, MSG_BM_MULTIPLE, 3, 2, 1, 0x08); break; /* one short */
			}
			memcpy(m + ml2, one, (size_t) l); ml2 += l;
			ho += (size_t) snprintf(human + ho, hn - ho, "%d", kind);
		}
		return (int) rc_frame(out, m, (size_t) ml2, 1);
	}
	if (fam == F_STORM) {
		/* received bytes that make the LIBRARY write: the interface announces a packet capacity (64 / 155 / 200 / 255), then n = 1..40
		 * accessory notifications arrive from a node whose address consists of framing characters — each is answered with a
		 * MSG_ACCESSORY_GET that repeats the address and is batched without a flush, so the downlink packet grows with escape pairs
		 * at every alignment towards the staging buffer's end */
		static const uint8_t CAPS[4] = {64, 155, 200, 255}; static const uint8_t AD[6][4] = {{0xFE, 0, 0, 0}, {0xFD, 0, 0, 0}, {0xFE, 0xFD, 0, 0}, {0xFE, 0xFE, 0xFE, 0}, {0x01, 0xFE, 0, 0}, {0x01, 0x02, 0xFD, 0}};
		int nn = 1 + (int) (idx % 40); idx /= 40; int ai = (int) (idx % 6); idx /= 6; uint8_t cap = CAPS[idx % 4];
		static const uint8_t a0[4] = {0, 0, 0, 0}; int o = 0;
		ml = rc_build_msg(m, a0, 0, MSG_PKT_CAPACITY, &cap, 1); o += (int) rc_frame(out + o, m, (size_t) ml, 1);
		for (int i = 0; i < nn && o < 1200; i++) { uint8_t d[5] = {(uint8_t) (i & 3), 1, 2, 0, 0}; ml = rc_build_msg(m, AD[ai], 0, MSG_ACCESSORY_NOTIFY, d, 5); o += (int) rc_frame(out + o, m, (size_t) ml, 1); }
		snprintf(human, hn, "capacity %d announced, then %d accessory notifications from node %02x.%02x.%02x", cap, nn, AD[ai][0], AD[ai][1], AD[ai][2]);
		return o;
	}
	if (fam == F_CONF) {
		/* well-formed messages FROM CONFIGURED NODES (mode 2: normal mode with the standard configuration), every uplink type:
		 * (a) every data string of length 0..4 over an alphabet of values that name configured things (segment / accessory /
		 *     port numbers, the bytes of the configured DCC addresses, orientation / flag bits, 0xFF),
		 * (b) list-shaped payloads: a leading number followed by 1..3 two-byte entries from a set that contains the configured
		 *     decoder addresses with both orientations, so that lists name the same decoder twice, known next to unknown, ... */
		static const uint8_t A7[7] = {0x00, 0x01, 0x02, 0x03, 0x23, 0x81, 0xFF}; static const uint8_t B0[4] = {0, 1, 2, 0x10};
		static const uint8_t P5[5][2] = {{0x23, 0x01}, {0x23, 0x81}, {0x02, 0x03}, {0x00, 0x00}, {0xFF, 0xFF}};
		static const uint8_t NODE[3][4] = {{0, 0, 0, 0}, {1, 0, 0, 0}, {2, 0, 0, 0}};
		long c = idx % CONF_PER; idx /= CONF_PER; int node = (int) (idx % 3); uint8_t type = (uint8_t) (0x80 + idx / 3);
		uint8_t data[16]; int dl = 0;
		if (c < 2801) { long base = 1; int len = 0; long r = c; while (r >= base) { r -= base; base *= 7; len++; } dl = len; for (int i = 0; i < len; i++) { data[i] = A7[r % 7]; r /= 7; } }
		else { long r = c - 2801; data[0] = B0[r % 4]; r /= 4; int k = 1; long base = 5; while (r >= base) { r -= base; base *= 5; k++; } dl = 1 + 2 * k; for (int i = 0; i < k; i++) { data[1 + 2 * i] = P5[r % 5][0]; data[2 + 2 * i] = P5[r % 5][1]; r /= 5; } }
		ml = rc_build_msg(m, NODE[node], 0, type, data, dl);
		snprintf(human, hn, "type=%02x from node %d data=%s", type, node, hx_hex(data, (size_t) dl));
		return (int) rc_frame(out, m, (size_t) ml, 1);
	}
	/* framing abuse */
	if (idx < 1202) {
		int k = (int) (idx / 2); uint8_t b = (idx & 1) ? 0x00 : 0x11; int o = 0; out[o++] = RC_MAGIC;
		for (int i = 0; i < k; i++) out[o++] = b;
		out[o++] = RC_MAGIC;
		snprintf(human, hn, "%d bytes %02x without delimiter", k, b);
		return o;
	}
	idx -= 1202;
	int len = 1; long base = 7; while (idx >= base) { idx -= base; base *= 7; len++; }
	int o = 0; out[o++] = RC_MAGIC;
	for (int i = 0; i < len; i++) { out[o++] = SYM[idx % 7]; idx /= 7; }
	out[o++] = RC_MAGIC;
	snprintf(human, hn, "raw string %s", hx_hex(out + 1, (size_t) len));
	return o;
}

typedef struct { uint8_t mode, fam; int32_t start, count; } cjob_t;
static const uint8_t PROBE_ADDR[4] = {9, 0, 0, 0};
static void drain(void) { uint8_t *m; while ((m = bidib_read_message())) free(m); while ((m = bidib_read_error_message())) free(m); }

/* the tour: one well-formed message of every state-updating uplink type from every configured node, closed by a PONG.  Run when a
 * library thread still holds a lock while the receiver is idle (a lock the adversarial input made the receiver keep stops the next
 * message that needs it, not the PONG probe), and once at the end of every batch */
static int tour(const char *what, const uint8_t *pm, int pml) {
	static const struct { uint8_t type; uint8_t dl; uint8_t d[10]; } T[] = {
		{MSG_CS_STATE, 1, {0x03}}, {MSG_CS_DRIVE_ACK, 3, {0x23, 0x01, 1}}, {MSG_CS_ACCESSORY_ACK, 3, {0x22, 0x11, 1}},
		{MSG_CS_DRIVE_MANUAL, 9, {0x23, 0x01, 3, 3, 10, 0x10, 0, 0, 0}}, {MSG_CS_DRIVE_MANUAL, 9, {0x77, 0x07, 3, 3, 10, 0, 0, 0, 0}},
		{MSG_CS_ACCESSORY_MANUAL, 3, {0x22, 0x11, 1}}, {MSG_LC_STAT, 3, {0, 0, 1}}, {MSG_LC_WAIT, 4, {0, 0, 1, 2}},
		{MSG_BM_OCC, 1, {0}}, {MSG_BM_FREE, 1, {0}}, {MSG_BM_MULTIPLE, 3, {0, 8, 0x01}}, {MSG_BM_CONFIDENCE, 3, {0, 0, 0}},
		{MSG_BM_ADDRESS, 3, {0, 0x23, 0x01}}, {MSG_BM_ADDRESS, 1, {0}}, {MSG_BM_CURRENT, 2, {0, 0x20}}, {MSG_BM_SPEED, 4, {0x23, 0x01, 10, 0}},
		{MSG_BM_DYN_STATE, 5, {0, 0x23, 0x01, 1, 50}}, {MSG_BM_DYN_STATE, 5, {0, 0x23, 0x01, 2, 20}}, {MSG_BM_POSITION, 6, {0x23, 0x01, 0, 1, 0, 0}},
		{MSG_BOOST_DIAGNOSTIC, 6, {0, 10, 1, 100, 2, 30}}, {MSG_BOOST_STAT, 1, {0x80}}, {MSG_ACCESSORY_STATE, 5, {0, 0, 2, 0, 0}},
		{MSG_CS_DRIVE_EVENT, 3, {0x23, 0x01, 1}}, {MSG_NODE_NEW, 9, {9, 0x6e, 0x01, 0x02, 0x03, 0x04, 0x05, 0x06, 0x07}},
	};
	static const uint8_t NODE[3][4] = {{0, 0, 0, 0}, {1, 0, 0, 0}, {2, 0, 0, 0}};
	static uint8_t s[4000]; size_t sl = 0; s[sl++] = RC_MAGIC;
	for (int nd = 0; nd < 3; nd++) for (unsigned k = 0; k < sizeof T / sizeof T[0]; k++) {
		if (T[k].type == MSG_NODE_NEW && nd) continue;
		uint8_t m[40]; int ml = rc_build_msg(m, NODE[nd], 0, T[k].type, T[k].d, T[k].dl); sl += rc_frame(s + sl, m, (size_t) ml, 1);
	}
	{ uint8_t pf[40]; size_t l = rc_frame(pf, pm, (size_t) pml, 1); memcpy(s + sl, pf, l); sl += l; }
	drain();
	env_push_quiet(s, sl); vs_point(); hx_quiesce();
	hx_emit_san_events(what);
	uint8_t *m, *got = NULL; while ((m = bidib_read_message())) { if (m[0] + 1 == pml && !memcmp(m, pm, (size_t) pml)) { free(got); got = m; } else free(m); }
	int ok = got != NULL; free(got); drain();
	return ok;
}

static void c12_child(const void *job, size_t n) {
	vs_dev_t devs[VS_MAXDEV]; int nd; size_t pl; const uint8_t *p = job_parse(job, n, devs, &nd, &pl);
	cjob_t j; memcpy(&j, p, sizeof j); g_thorough = p[sizeof j];
	hx_child_begin(NULL, 0, 0, NULL, 0, 0);
	if (j.mode == 2) { cfg_install_std(); if (hx_start_normal(0)) res_infra("normal start failed"); hx_quiesce(); vs_sleep_us(2500000); hx_quiesce(); drain(); hx_emit_san_events("start-up"); }
	else if (hx_start_debug(0)) res_infra("start failed");
	hx_quiesce();
	if (j.mode == 1) bidib_set_lowlevel_debug_mode(false);
	{ uint8_t fe = RC_MAGIC; hx_feed(&fe, 1); }
	uint8_t pm[16], pf[40], d = 0x77; int pml = rc_build_msg(pm, PROBE_ADDR, 0, MSG_SYS_PONG, &d, 1); pf[0] = RC_MAGIC; int pfl = 1 + (int) rc_frame(pf + 1, pm, (size_t) pml, 1);
	long cases = 0; hx_hash_t h; hx_hash_init(&h);
	static uint8_t s[1400]; char human[200]; static char thr[1200];
	for (long c = j.start; c < (long) j.start + j.count && c < fam_count(j.fam); c++) {
		res_progress(c);
		int sl = gen_stream(j.fam, c, s, human, sizeof human);
		char what[300]; snprintf(what, sizeof what, "mode=%s %s: %s", j.mode == 2 ? "normal(standard configuration)" : j.mode ? "normal-dispatch(no config)" : "debug", FNAME[j.fam], human);
		hx_set_context(what);
		env_push_quiet(s, (size_t) sl); vs_point(); hx_quiesce();
		int corrupt = 0;
		hx_emit_san_events(what); corrupt |= hx_san_last_was_write;
		drain();
		/* liveness probe */
		env_push_quiet(pf, (size_t) pfl); vs_point(); hx_quiesce();
		hx_emit_san_events(what); corrupt |= hx_san_last_was_write;
		uint8_t *got = bidib_read_message();
		if (!got || got[0] + 1 != pml || memcmp(got, pm, (size_t) pml)) {
			res_violation("receiver-stuck: a well-formed packet after the adversarial input was not processed", "%s; probe delivered: %s", what, got ? hx_hex(got, (size_t) got[0] + 1) : "(nothing)");
			corrupt = 1;
		}
		free(got); drain();
		if (j.mode == 2 && !corrupt) {
			char held[200] = ""; for (int t = 1; t < VS_MAXT && !held[0]; t++) if (vs_held_count(t)) vs_held_desc(t, held, sizeof held);
			if (held[0] && !tour(what, pm, pml)) {
				char cls[400]; snprintf(cls, sizeof cls, "receiver-stuck: the receiver kept %s and blocks at a later well-formed message that needs it", held);
				res_violation(cls, "%s; threads: %s", what, (vs_describe_threads(thr, sizeof thr), thr)); corrupt = 1;
			}
		}
		cases++;
		/* an out-of-bounds WRITE may have corrupted memory: the parent resumes behind this case in a fresh child.
		 * out-of-bounds reads are recorded (once per class and child) and the batch continues */
		if (corrupt) { res_printf("I %ld\n", c); break; }
	}
	if (j.mode == 2 && !res_nviol() && !tour("end of batch", pm, pml))
		res_violation("receiver-stuck: the tour of well-formed state messages at the end of the batch was not processed", "batch %s cases %d..%d; threads: %s", FNAME[j.fam], j.start, j.start + j.count - 1, (vs_describe_threads(thr, sizeof thr), thr));
	hx_emit_ledger_violations("C12");
	hx_hash_add(&h, &cases, sizeof cases);
	res_printf("O %llx %llx\nC adversarial_inputs %ld\n", (unsigned long long) (h.a ^ (uint64_t) j.start), (unsigned long long) (h.b + j.fam), cases);
	res_finish();
}

/* dynamic job list (failing batches are resumed behind the failing case) */
static cjob_t *jobs; static long njobs, capjobs;
static void add_job(int mode, int fam, long start, long count) {
	if (count <= 0) return;
	if (njobs == capjobs) { capjobs = capjobs ? capjobs * 2 : 1024; jobs = realloc(jobs, sizeof(cjob_t) * (size_t) capjobs); }
	jobs[njobs].mode = (uint8_t) mode; jobs[njobs].fam = (uint8_t) fam; jobs[njobs].start = (int32_t) start; jobs[njobs].count = (int32_t) count; njobs++;
}
static long round_base;
static size_t c12_gen(long idx, uint8_t *payload, char *human, size_t hn) {
	cjob_t *j = &jobs[round_base + idx]; memcpy(payload, j, sizeof *j); payload[sizeof *j] = (uint8_t) g_thorough;
	if (j->count == 1) { uint8_t tmp[1400]; char hc[200]; gen_stream(j->fam, j->start, tmp, hc, sizeof hc); snprintf(human, hn, "single case mode=%d %s case %d: %s", j->mode, FNAME[j->fam], j->start, hc); }
	else snprintf(human, hn, "mode=%d %s cases %d..%d", j->mode, FNAME[j->fam], j->start, j->start + j->count - 1);
	return sizeof *j + 1;
}
static long resume_from[4096][2]; static int nresume;
static void c12_on_result(long idx, const run_res_t *r) {
	cjob_t *j = &jobs[round_base + idx];
	long fail = -1; const char *l = res_line(r, 'I', 0);
	if (l) fail = atol(l);
	else if (r->status != 0) fail = res_last_progress(r);     /* crash / timeout: the last case that was started */
	if (fail >= 0 && nresume < 4096) { resume_from[nresume][0] = round_base + idx; resume_from[nresume][1] = fail; nresume++; }
	(void) j;
}
#define C12_BATCH 1500
void c12_register(void) { harness_register("c12.rx", c12_child); }
int c12_run(const char *tier) {
	g_thorough = !strcmp(tier, "thorough");
	njobs = 0;
	for (int mode = 0; mode < 2; mode++) for (int fam = 0; fam < F_CONF; fam++)
		for (long s = 0; s < fam_count(fam); s += C12_BATCH) add_job(mode, fam, s, C12_BATCH);
	/* mode 2 (equipment present): field sweeps, and the configured-equipment family with one child per (type, sender) so that
	 * a message that changes connectivity (node lost, table change) only affects its own batch */
	for (long s = 0; s < fam_count(F_SWEEP); s += C12_BATCH) add_job(2, F_SWEEP, s, C12_BATCH);
	for (long s = 0; s < fam_count(F_CONF); s += CONF_PER) add_job(2, F_CONF, s, CONF_PER);
	for (long s = 0; s < fam_count(F_STORM); s += 240) { add_job(2, F_STORM, s, 240); add_job(1, F_STORM, s, 240); }
	long execs = 0, states = 0; int exhaustive = 1; long singles = 0;
	round_base = 0;
	for (int round = 0; round < 200 && round_base < njobs; round++) {
		nresume = 0;
		long nround = njobs - round_base;
		ex_spec_t e = { .harness = "c12.rx", .ncases = nround, .gen = c12_gen, .on_result = c12_on_result, .label = "c12.rx" };
		ex_map(&e); execs += e.done; states += e.distinct_outcomes; if (!e.exhaustive) { exhaustive = 0; break; }
		long old_base = round_base; round_base = njobs;
		for (int k = 0; k < nresume; k++) {
			cjob_t j = jobs[resume_from[k][0]]; long fail = resume_from[k][1];
			/* resume behind the failing case; additionally re-run the failing case alone once so that its replay file is minimal */
			if (j.count > 1) { add_job(j.mode, j.fam, fail, 1); singles++; }
			add_job(j.mode, j.fam, fail + 1, (long) j.start + j.count - (fail + 1));
		}
		(void) old_base;
		if (rep_nviol() > 150) { rep_note("more than 150 finding classes: stopping the resume loop"); exhaustive = 0; break; }
	}
	long inputs = rep_get("adversarial_inputs");
	rep_count("executions", execs); rep_count("states", states ? states : 1); rep_count("transitions", inputs); rep_count("distinct_nontrivial", inputs);
	rep_flag("exhaustive", exhaustive);
	rep_note("adversarial inputs executed=%ld (each followed by a liveness probe), children=%ld, single-case re-runs=%ld", inputs, execs, singles);
	return 0;
}
