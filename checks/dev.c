/* dev — development smoke harness: normal-mode start against the simulated bus, prints the decoded transcript */
#include "../fw/explore.h"
#include "../fw/hx.h"
#include "../fw/simbus.h"
#include "../fw/cfg.h"
#include "include/bidib.h"
#include <stdio.h>
#include <stdlib.h>
static void dev_child(const void *job, size_t n) {
	(void) job; (void) n;
	hx_child_begin(NULL, 0, 0, NULL, 0, 0);
	cfg_install_std();
	if (getenv("VERIF_CFG_DIR")) {
		static char txt[3][1 << 16]; const char *fn[3] = {"bidib_board_config.yml", "bidib_track_config.yml", "bidib_train_config.yml"}; const char *t[3] = {0, 0, 0};
		for (int i = 0; i < 3; i++) { char path[400]; snprintf(path, sizeof path, "%s/%s", getenv("VERIF_CFG_DIR"), fn[i]); FILE *f = fopen(path, "r"); if (f) { size_t n = fread(txt[i], 1, sizeof txt[i] - 1, f); txt[i][n] = 0; fclose(f); t[i] = txt[i]; } }
		env_set_cfg(t[0], t[1], t[2]);
	}
	if (getenv("VERIF_LOG")) env_log_to_stderr = 1;
	int rc = hx_start_normal(0);
	hx_quiesce();
	res_printf("X start rc=%d t=%llu us log=%d malformed=%ld\n", rc, (unsigned long long) vs_now_us(), SB.nlog, SB.malformed);
	for (int i = 0; i < SB.nlog; i++) res_printf("X %7llu us tid%d to %02x.%02x.%02x seq %3d type %02x data %s\n", (unsigned long long) SB.log[i].t_us, SB.log[i].tid,
		SB.log[i].addr[0], SB.log[i].addr[1], SB.log[i].addr[2], SB.log[i].seq, SB.log[i].type, hx_hex(SB.log[i].data, (size_t) SB.log[i].dlen));
	t_bidib_id_list_query q = bidib_get_boards_connected();
	for (size_t i = 0; i < q.length; i++) res_printf("X connected %s\n", q.ids[i]);
	bidib_free_id_list_query(q);
	int before = SB.nlog;
	bidib_stop();
	for (int i = before; i < SB.nlog; i++) res_printf("X STOP %7llu us to %02x.%02x.%02x type %02x data %s\n", (unsigned long long) SB.log[i].t_us,
		SB.log[i].addr[0], SB.log[i].addr[1], SB.log[i].addr[2], SB.log[i].type, hx_hex(SB.log[i].data, (size_t) SB.log[i].dlen));
	res_printf("X events: %s\n", vs_events());
	res_finish();
}
void dev_register(void) { harness_register("dev.start", dev_child); }
int dev_run(const char *tier) {
	(void) tier; run_fn fn = harness_find("dev.start"); uint8_t job[4]; size_t jn = job_build(job, NULL, 0, "", 0);
	run_submit(fn, job, jn, NULL); run_res_t r; run_wait(&r);
	printf("status=%d sig=%d\n%s\n", r.status, r.sig, r.text);
	rep_count("executions", 1); rep_count("states", 1); rep_count("transitions", 1);
	return 0;
}
