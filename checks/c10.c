/* C10 — the documented thread-safe API is race-free and atomic under concurrent use.
 * E1 harnesses (same code in two builds):
 *   tsan  build : every explored schedule runs under ThreadSanitizer (happens-before from the real lock calls; the scheduler's
 *                 hand-off is invisible to it; glib containers are annotated, fw/tsan_glib.c).  A race report in the steady-state
 *                 window (start returned, stop not yet called) is a violation.
 *   plain build : atomicity — every getter result obtained concurrently with k updates equals the value after i updates for
 *                 some 0 <= i <= k (the k+1 values come from a sequential reference run of the same harness).
 *   H1 two senders (low-level + high-level) || receiver (answers, feedback) || auto-flush (early wakes)
 *   H2 receiver applying occupancy/address/drive updates || single getters || snapshot
 *   H3 two queue readers || receiver
 *   H4 DCC setters (optimistic state) || getters || receiver (acks) */
#include "../fw/explore.h"
#include "../fw/hx.h"
#include "../fw/simbus.h"
#include "../fw/cfgmodel.h"
#include "../fw/sanhooks.h"
#include "include/bidib.h"
#include <stdio.h>
#include <stdlib.h>
#include <string.h>

static cm_model_t M;
void *bidib_auto_flush(void *);
static int harness_id; static int reference_mode;
/* getter observations of the concurrent threads (serialised) */
static char obs[16][400]; static int nobs; static const char *obs_name[16];
static void observe(const char *name, const char *fmt, ...) __attribute__((format(printf, 2, 3)));
#include <stdarg.h>
static void observe(const char *name, const char *fmt, ...) { if (nobs >= 16) return; va_list ap; va_start(ap, fmt); vsnprintf(obs[nobs], sizeof obs[0], fmt, ap); va_end(ap); obs_name[nobs++] = name; }

static void obs_train(const char *train) {
	t_bidib_train_state_query q = bidib_get_train_state(train); char per[100]; size_t o = 0; per[0] = 0;
	for (size_t k = 0; q.known && k < q.data.peripheral_cnt && o + 20 < sizeof per; k++) o += (size_t) snprintf(per + o, sizeof per - o, "%s=%u,", q.data.peripherals[k].id, q.data.peripherals[k].state);
	observe("train_state", "known=%d on=%d ori=%d step=%d fwd=%d ack=%d per=%s", q.known, q.known ? q.data.on_track : 0, q.known && q.data.on_track ? (int) q.data.orientation : -1, q.known ? q.data.set_speed_step : 0, q.known ? q.data.set_is_forwards : 0, q.known ? (int) q.data.ack : 0, per);
	if (q.known) bidib_free_train_state_query(q);
}
static void obs_position(const char *train) {
	t_bidib_train_position_query q = bidib_get_train_position(train); char segs[200]; size_t o = 0; segs[0] = 0;
	for (size_t k = 0; k < q.length && o + 30 < sizeof segs; k++) o += (size_t) snprintf(segs + o, sizeof segs - o, "%s,", q.segments[k]);
	observe("train_position", "n=%zu [%s] left=%d", q.length, segs, q.length ? q.orientation_is_left : 0);
	bidib_free_train_position_query(q);
}
static void obs_segment(const char *seg) {
	t_bidib_segment_state_query q = bidib_get_segment_state(seg); char a[120]; size_t o = 0; a[0] = 0;
	for (size_t k = 0; q.known && k < q.data.dcc_address_cnt && o + 16 < sizeof a; k++) o += (size_t) snprintf(a + o, sizeof a - o, "%02x%02x/%u,", q.data.dcc_addresses[k].addrh, q.data.dcc_addresses[k].addrl, q.data.dcc_addresses[k].type);
	observe("segment_state", "known=%d occ=%d addrs=[%s]", q.known, q.known ? q.data.occupied : 0, a);
	if (q.known) bidib_free_segment_state_query(q);
}
static void obs_snapshot(void) {
	/* one observation per entity of the snapshot: the property promises that no ENTITY is torn; the snapshot takes the
	 * entity kinds one after the other, so different kinds may stem from different instants */
	t_bidib_track_state s = bidib_get_state();
	for (size_t i = 0; i < s.segments_count; i++) if (!strcmp(s.segments[i].id, "seg1") || !strcmp(s.segments[i].id, "seg2")) { char b[200]; size_t o = 0;
		o += (size_t) snprintf(b + o, sizeof b - o, "%s:%d[", s.segments[i].id, s.segments[i].data.occupied);
		for (size_t k = 0; k < s.segments[i].data.dcc_address_cnt && o + 12 < sizeof b; k++) o += (size_t) snprintf(b + o, sizeof b - o, "%02x%02x,", s.segments[i].data.dcc_addresses[k].addrh, s.segments[i].data.dcc_addresses[k].addrl);
		snprintf(b + o, sizeof b - o, "]"); observe("snapshot.segment", "%s", b); }
	for (size_t i = 0; i < s.trains_count; i++) if (!strcmp(s.trains[i].id, "train1")) observe("snapshot.train", "train1 on=%d ori=%d step=%d fwd=%d", s.trains[i].data.on_track, s.trains[i].data.on_track ? (int) s.trains[i].data.orientation : -1, s.trains[i].data.set_speed_step, s.trains[i].data.set_is_forwards);
	bidib_free_track_state(s);
}
static void obs_point(const char *id) {
	t_bidib_unified_accessory_state_query q = bidib_get_point_state(id);
	if (q.known && q.type == BIDIB_ACCESSORY_DCC) observe("point_state", "dcc id=%s val=%u coil=%d ack=%d", q.dcc_accessory_state.state_id ? q.dcc_accessory_state.state_id : "-", q.dcc_accessory_state.state_value, q.dcc_accessory_state.coil_on, (int) q.dcc_accessory_state.ack);
	else if (q.known) observe("point_state", "board id=%s val=%u exec=%d", q.board_accessory_state.state_id ? q.board_accessory_state.state_id : "-", q.board_accessory_state.state_value, (int) q.board_accessory_state.execution_state);
	else observe("point_state", "unknown");
	if (q.known) bidib_free_unified_accessory_state_query(q);
}
/* the update messages of each harness, applied by the receiver */
typedef struct { int board; uint8_t type; uint8_t d[10]; int dl; } upd_t;
static const upd_t UPD[5][4] = {
	[1] = { {0, MSG_BM_OCC, {0}, 1}, {0, MSG_BM_ADDRESS, {0, 0x23, 0x01}, 3}, {1, MSG_BM_OCC, {0}, 1} },
	[2] = { {0, MSG_BM_OCC, {0}, 1}, {0, MSG_BM_ADDRESS, {0, 0x23, 0x81}, 3}, {0, MSG_BM_ADDRESS, {1, 0x23, 0x81}, 3}, {0, MSG_CS_DRIVE_MANUAL, {0x23, 0x01, 3, 0x03, 0x8A, 0x10, 0, 0, 0}, 9} },
	[3] = { {0, MSG_SYS_PONG, {1}, 1}, {0, MSG_SYS_PONG, {2}, 1}, {0, MSG_NODE_NA, {3}, 1} },
	[4] = { {0, MSG_CS_ACCESSORY_ACK, {0x22, 0x11, 1}, 3}, {0, MSG_CS_ACCESSORY_MANUAL, {0x22, 0x11, 0x21}, 3} },
};
static const int NUPD[5] = {0, 3, 4, 3, 2};
static void queue_update(int h, int i) { const upd_t *u = &UPD[h][i]; uint8_t m[40], f[90]; int ml = rc_build_msg(m, SB.n[M.b[u->board].sbnode].addr, 0, u->type, u->d, u->dl); env_push_quiet(f, rc_frame(f, m, (size_t) ml, 1)); }

static void *h_t1(void *p) { (void) p;
	switch (harness_id) {
	case 1: { t_bidib_node_address a = {1, 0, 0}; bidib_send_sys_ping(a, 7, 0); t_bidib_cs_drive_mod d = {{0x02, 0x03, 0}, 2, 1, 0x85, 0, 0, 0, 0}; t_bidib_node_address r = {0, 0, 0}; bidib_send_cs_drive(r, d, 0); break; }
	case 2: obs_train("train1"); obs_segment("seg1"); obs_position("train1"); break;
	case 3: free(bidib_read_message()); free(bidib_read_error_message()); break;
	case 4: bidib_switch_point("pointd", "reverse"); bidib_set_signal("signald", "go"); break;
	} return NULL; }
static void *h_t2(void *p) { (void) p;
	switch (harness_id) {
	case 1: bidib_set_train_speed("train1", 20, "master"); bidib_switch_point("point1", "reverse"); break;
	case 2: obs_snapshot(); obs_train("train1"); break;
	case 3: free(bidib_read_message()); free(bidib_read_message()); break;
	case 4: obs_point("pointd"); obs_point("pointd"); obs_point("point1"); break;
	} return NULL; }

#if defined(VARIANT_TSAN)
extern volatile _Bool bidib_running, bidib_discard_rx, bidib_seq_num_enabled, bidib_lowlevel_debug_mode;
static void emit_races(const char *what) {
	for (int i = 0; i < san_nevents(); i++) { const san_event_t *e = san_event(i);
		uintptr_t a = e->addr; if (a == (uintptr_t) &bidib_running || a == (uintptr_t) &bidib_discard_rx || a == (uintptr_t) &bidib_seq_num_enabled || a == (uintptr_t) &bidib_lowlevel_debug_mode) { res_printf("C tsan_reports_on_mode_flags_ignored 1\n"); continue; }
		const char *fn[2] = {"?", "?"}; int k = 0; char stack[500]; size_t so = 0; stack[0] = 0;
		for (int p = 0; p < e->npcs; p++) { if (!e->pcs[p]) { k++; so += (size_t) snprintf(stack + so, sizeof stack - so, "| "); continue; } const char *s = hx_sym(e->pcs[p] - 1); if (so + 50 < sizeof stack) so += (size_t) snprintf(stack + so, sizeof stack - so, "%s ", s);
			if (k < 2 && !strcmp(fn[k], "?") && (!strncmp(s, "bidib_", 6) || !strncmp(s, "__wrap_g_", 9))) fn[k] = s; }
		const char *f0 = fn[0], *f1 = fn[1]; if (strcmp(f0, f1) > 0) { const char *t = f0; f0 = f1; f1 = t; }
		char cls[220]; snprintf(cls, sizeof cls, "tsan %s between %s and %s", e->kind, f0, f1);
		res_violation(cls, "%s: %s of %d bytes; stacks: %s", what, e->is_write ? "write" : "read", e->size, stack);
	}
}
#endif
static void c10_child(const void *job, size_t n) {
	vs_dev_t devs[VS_MAXDEV]; int nd; size_t pl; const uint8_t *p = job_parse(job, n, devs, &nd, &pl);
	harness_id = p[0]; reference_mode = p[1]; const char *expected = (const char *) (p + 2); size_t explen = pl - 2;
	int af = harness_id == 1;
	hx_child_begin(devs, nd, 1, af ? bidib_auto_flush : NULL, af ? 1 : 0, 0);
	san_tsan_ignore(1);
	cm_std(&M); cm_install(&M);
	if (hx_start_normal(af ? 5 : 0)) res_infra("normal start failed");
	hx_quiesce(); vs_sleep_us(2500000); hx_quiesce();
	uint8_t *m; while ((m = bidib_read_message())) free(m); while ((m = bidib_read_error_message())) free(m);
	san_reset(); san_tsan_ignore(0);
	nobs = 0;
	if (reference_mode) {
		/* sequential reference: the getter values after every prefix of an order-preserving interleaving of the receiver's
		 * updates (U) and the commands of thread 1 (C); reference_mode-1 selects the interleaving */
		static const char *ORD4[6] = {"UUCC", "UCUC", "UCCU", "CUUC", "CUCU", "CCUU"};
		const char *order = harness_id == 4 ? ORD4[(reference_mode - 1) % 6] : "UUUU"; int nu = 0, nc = 0;
		for (int step = 0; ; step++) {
			int before = nobs;
			if (harness_id == 2) { obs_train("train1"); obs_segment("seg1"); obs_position("train1"); obs_snapshot(); } else if (harness_id == 4) { obs_point("pointd"); obs_point("point1"); }
			for (int k = before; k < nobs; k++) res_printf("R %s\t%s\n", obs_name[k], obs[k]);
			nobs = before;
			if (harness_id == 4 ? step >= 4 : nu >= NUPD[harness_id]) break;
			if (order[step] == 'U') { queue_update(harness_id, nu++); vs_point(); hx_quiesce(); }
			else { if (nc++ == 0) bidib_switch_point("pointd", "reverse"); else bidib_set_signal("signald", "go"); }
		}
		res_printf("O 0 0\n"); res_finish();
	}
	for (int i = 0; i < NUPD[harness_id]; i++) queue_update(harness_id, i);
	vs_window(1);
	int t1 = vs_spawn(h_t1, NULL), t2 = vs_spawn(h_t2, NULL);
	vs_join_tid(t1); vs_join_tid(t2); hx_quiesce();
	vs_window(0);
	if (harness_id == 1) { vs_sleep_us(20000); hx_quiesce(); }
	hx_hash_t h; hx_hash_init(&h);
	for (int k = 0; k < nobs; k++) { hx_hash_str(&h, obs[k]);
		/* atomicity: the observation must be one of the sequential values */
		if (explen > 0) { char key[520]; int kl = snprintf(key, sizeof key, "%s\t%s\n", obs_name[k], obs[k]); if (!memmem(expected, explen, key, (size_t) kl)) {
			char cls[160]; snprintf(cls, sizeof cls, "torn-read getter=%s: a getter returned a state that never existed", obs_name[k]); res_violation(cls, "observed: %s", obs[k]); } } }
#if defined(VARIANT_TSAN)
	static const char *HN[5] = {"", "H1 senders||receiver||auto-flush", "H2 receiver||getters||snapshot", "H3 readers||receiver", "H4 DCC setters||getters||receiver"};
	emit_races(HN[harness_id]);
#endif
	san_tsan_ignore(1);
	hx_emit_ledger_violations("C10");
	res_printf("O %llx %llx\n", (unsigned long long) h.a, (unsigned long long) h.b);
	hx_emit_trace(); res_finish();
}
static char refbuf[5][8192]; static size_t reflen[5];
void c10_register(void) { harness_register("c10.h", c10_child); }
int c10_run(const char *tier) {
	int thorough = !strcmp(tier, "thorough");
	const char *variant = getenv("VERIF_VARIANT"); int tsan = variant && !strcmp(variant, "tsan");
	long execs = 0, states = 0, transitions = 0; int exhaustive = 1;
	static const char *HN[5] = {"", "H1 senders||receiver||auto-flush", "H2 receiver||getters||snapshot", "H3 readers||receiver", "H4 DCC setters||getters||receiver"};
	for (int hn = 1; hn <= 4; hn++) {
		reflen[hn] = 0;
		if (!tsan && (hn == 1 || hn == 3)) continue;     /* no atomicity oracle for these: they are there for the race detector (exactly-one-reader is C06's) */
		if (!tsan) for (int ord = 1; ord <= (hn == 4 ? 6 : 1); ord++) {   /* sequential reference values */
			uint8_t rp[2] = {(uint8_t) hn, (uint8_t) ord}; uint8_t job[64]; size_t jn = job_build(job, NULL, 0, rp, 2);
			run_submit(harness_find("c10.h"), job, jn, NULL); run_res_t r; run_wait(&r); rep_collect(&r, "c10.h", job, jn, "sequential reference run");
			const char *l; for (int i = 0; (l = res_line(&r, 'R', i)); i++) { char line[520]; int ll = snprintf(line, sizeof line, "%s\n", l);
				if (!memmem(refbuf[hn], reflen[hn], line, (size_t) ll) && reflen[hn] + (size_t) ll < sizeof refbuf[hn]) { memcpy(refbuf[hn] + reflen[hn], line, (size_t) ll); reflen[hn] += (size_t) ll; } }
			execs++;
		}
		uint8_t param[8300]; param[0] = (uint8_t) hn; param[1] = 0; memcpy(param + 2, refbuf[hn], reflen[hn]);
		int bound = tsan ? (thorough ? 2 : 1) : (thorough ? 3 : 2);
		if (getenv("VERIF_BOUND")) bound = atoi(getenv("VERIF_BOUND"));
		e1_spec_t s = { .harness = "c10.h", .param = param, .nparam = 2 + reflen[hn], .bound = bound, .label = HN[hn] };
		e1_explore(&s);
		long ex = 0; for (int k = 0; k < 8; k++) ex += s.schedules_by_cost[k];
		execs += ex; states += s.distinct_outcomes; transitions += s.choice_points; if (!s.exhaustive) exhaustive = 0;
		rep_note("%s: bound=%d completed=%d schedules by cost=[%ld,%ld,%ld,%ld] distinct outcomes=%ld contended executions=%ld reference values=%zu bytes", HN[hn], s.bound, s.completed_bound,
		         s.schedules_by_cost[0], s.schedules_by_cost[1], s.schedules_by_cost[2], s.schedules_by_cost[3], s.distinct_outcomes, s.contended_execs, reflen[hn]);
	}
	rep_count("executions", execs); rep_count("states", states); rep_count("transitions", transitions); rep_flag("exhaustive", exhaustive);
	return 0;
}
