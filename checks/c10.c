/* C10 — the documented thread-safe API is race-free and atomic under concurrent use.
 * E1 harnesses (same code in two builds):
 *   tsan  build : every explored schedule runs under ThreadSanitizer (happens-before from the real lock calls; the scheduler's
 *                 hand-off is invisible to it; glib containers are annotated, fw/tsan_glib.c).  A race report in the steady-state
 *                 window (start returned, stop not yet called) is a violation.
 *   plain build : atomicity — every getter result obtained concurrently with k updates equals the value after i updates for
 *                 some 0 <= i <= k (the k+1 values come from a sequential reference run of the same harness).
 *   H1 two senders (low-level + high-level) || receiver (answers, feedback) || auto-flush (early wakes)
 *   H2 receiver applying occupancy/address/drive updates || single getters || snapshot
 *   H3 two queue readers || receiver
 *   H4 DCC setters (optimistic state) || getters || receiver (acks) */
#include "../fw/explore.h"
#include "../fw/hx.h"
#include "../fw/simbus.h"
#include "../fw/cfgmodel.h"
#include "../fw/sanhooks.h"
#include "include/bidib.h"
#include <stdio.h>
#include <stdlib.h>
#include <string.h>

#include "api_cat.inc"    /* defines M, run_entry(), entry_name(), entry_variants(), N_HL, N_LL */
void *bidib_auto_flush(void *);
static int harness_id; static int reference_mode;
/* getter observations of the concurrent threads (serialised) */
static char obs[16][400]; static int nobs; static const char *obs_name[16];
static void observe(const char *name, const char *fmt, ...) __attribute__((format(printf, 2, 3)));
#include <stdarg.h>
static void observe(const char *name, const char *fmt, ...) { if (nobs >= 16) return; va_list ap; va_start(ap, fmt); vsnprintf(obs[nobs], sizeof obs[0], fmt, ap); va_end(ap); obs_name[nobs++] = name; }

static void obs_train(const char *train) {
	t_bidib_train_state_query q = bidib_get_train_state(train); char per[100]; size_t o = 0; per[0] = 0;
	for (size_t k = 0; q.known && k < q.data.peripheral_cnt && o + 20 < sizeof per; k++) o += (size_t) snprintf(per + o, sizeof per - o, "%s=%u,", q.data.peripherals[k].id, q.data.peripherals[k].state);
	observe("train_state", "known=%d on=%d ori=%d step=%d fwd=%d ack=%d per=%s", q.known, q.known ? q.data.on_track : 0, q.known && q.data.on_track ? (int) q.data.orientation : -1, q.known ? q.data.set_speed_step : 0, q.known ? q.data.set_is_forwards : 0, q.known ? (int) q.data.ack : 0, per);
	if (q.known) bidib_free_train_state_query(q);
}
static void obs_position(const char *train) {
	t_bidib_train_position_query q = bidib_get_train_position(train); char segs[200]; size_t o = 0; segs[0] = 0;
	for (size_t k = 0; k < q.length && o + 30 < sizeof segs; k++) o += (size_t) snprintf(segs + o, sizeof segs - o, "%s,", q.segments[k]);
	observe("train_position", "n=%zu [%s] left=%d", q.length, segs, q.length ? q.orientation_is_left : 0);
	bidib_free_train_position_query(q);
}
static void obs_segment(const char *seg) {
	t_bidib_segment_state_query q = bidib_get_segment_state(seg); char a[120]; size_t o = 0; a[0] = 0;
	for (size_t k = 0; q.known && k < q.data.dcc_address_cnt && o + 16 < sizeof a; k++) o += (size_t) snprintf(a + o, sizeof a - o, "%02x%02x/%u,", q.data.dcc_addresses[k].addrh, q.data.dcc_addresses[k].addrl, q.data.dcc_addresses[k].type);
	observe("segment_state", "known=%d occ=%d addrs=[%s]", q.known, q.known ? q.data.occupied : 0, a);
	if (q.known) bidib_free_segment_state_query(q);
}
static void obs_snapshot(void) {
	/* one observation per entity of the snapshot: the property promises that no ENTITY is torn; the snapshot takes the
	 * entity kinds one after the other, so different kinds may stem from different instants */
	t_bidib_track_state s = bidib_get_state();
	for (size_t i = 0; i < s.segments_count; i++) if (!strcmp(s.segments[i].id, "seg1") || !strcmp(s.segments[i].id, "seg2")) { char b[200]; size_t o = 0;
		o += (size_t) snprintf(b + o, sizeof b - o, "%s:%d[", s.segments[i].id, s.segments[i].data.occupied);
		for (size_t k = 0; k < s.segments[i].data.dcc_address_cnt && o + 12 < sizeof b; k++) o += (size_t) snprintf(b + o, sizeof b - o, "%02x%02x,", s.segments[i].data.dcc_addresses[k].addrh, s.segments[i].data.dcc_addresses[k].addrl);
		snprintf(b + o, sizeof b - o, "]"); observe("snapshot.segment", "%s", b); }
	for (size_t i = 0; i < s.trains_count; i++) if (!strcmp(s.trains[i].id, "train1")) observe("snapshot.train", "train1 on=%d ori=%d step=%d fwd=%d", s.trains[i].data.on_track, s.trains[i].data.on_track ? (int) s.trains[i].data.orientation : -1, s.trains[i].data.set_speed_step, s.trains[i].data.set_is_forwards);
	bidib_free_track_state(s);
}
static void obs_point(const char *id) {
	t_bidib_unified_accessory_state_query q = bidib_get_point_state(id);
	if (q.known && q.type == BIDIB_ACCESSORY_DCC) observe("point_state", "dcc id=%s val=%u coil=%d ack=%d", q.dcc_accessory_state.state_id ? q.dcc_accessory_state.state_id : "-", q.dcc_accessory_state.state_value, q.dcc_accessory_state.coil_on, (int) q.dcc_accessory_state.ack);
	else if (q.known) observe("point_state", "board id=%s val=%u exec=%d", q.board_accessory_state.state_id ? q.board_accessory_state.state_id : "-", q.board_accessory_state.state_value, (int) q.board_accessory_state.execution_state);
	else observe("point_state", "unknown");
	if (q.known) bidib_free_unified_accessory_state_query(q);
}
static void obs_accessories_snapshot(void) {
	t_bidib_track_state s = bidib_get_state();
	for (size_t i = 0; i < s.points_board_count; i++) if (!strcmp(s.points_board[i].id, "point1")) observe("snapshot.point", "point1 id=%s val=%u exec=%d", s.points_board[i].data.state_id ? s.points_board[i].data.state_id : "-", s.points_board[i].data.state_value, (int) s.points_board[i].data.execution_state);
	for (size_t i = 0; i < s.signals_board_count; i++) if (!strcmp(s.signals_board[i].id, "signal1")) observe("snapshot.signal", "signal1 id=%s val=%u", s.signals_board[i].data.state_id ? s.signals_board[i].data.state_id : "-", s.signals_board[i].data.state_value);
	for (size_t i = 0; i < s.peripherals_count; i++) if (!strcmp(s.peripherals[i].id, "led1")) observe("snapshot.peripheral", "led1 id=%s val=%u", s.peripherals[i].data.state_id ? s.peripherals[i].data.state_id : "-", s.peripherals[i].data.state_value);
	bidib_free_track_state(s);
}
/* the update messages of each harness, applied by the receiver */
typedef struct { int board; uint8_t type; uint8_t d[10]; int dl; } upd_t;
static const upd_t UPD[6][4] = {
	[1] = { {0, MSG_BM_OCC, {0}, 1}, {0, MSG_BM_ADDRESS, {0, 0x23, 0x01}, 3}, {1, MSG_BM_OCC, {0}, 1} },
	[2] = { {0, MSG_BM_OCC, {0}, 1}, {0, MSG_BM_ADDRESS, {0, 0x23, 0x81}, 3}, {0, MSG_BM_ADDRESS, {1, 0x23, 0x81}, 3}, {0, MSG_CS_DRIVE_MANUAL, {0x23, 0x01, 3, 0x03, 0x8A, 0x10, 0, 0, 0}, 9} },
	[3] = { {0, MSG_SYS_PONG, {1}, 1}, {0, MSG_SYS_PONG, {2}, 1}, {0, MSG_NODE_NA, {3}, 1} },
	[4] = { {0, MSG_CS_ACCESSORY_ACK, {0x22, 0x11, 1}, 3}, {0, MSG_CS_ACCESSORY_MANUAL, {0x22, 0x11, 0x21}, 3} },
	/* H7: board accessories and peripherals (their state ids are strings the receiver frees and replaces) */
	[5] = { {1, MSG_ACCESSORY_STATE, {2, 0, 2, 0, 0}, 5}, {1, MSG_ACCESSORY_STATE, {2, 1, 2, 0, 0}, 5}, {2, MSG_LC_STAT, {0x23, 0x01, 1}, 3}, {2, MSG_ACCESSORY_STATE, {0x10, 2, 2, 0, 0}, 5} },
};
static const int NUPD[6] = {0, 3, 4, 3, 2, 4};
static void queue_update(int h, int i) { const upd_t *u = &UPD[h][i]; uint8_t m[40], f[90]; int ml = rc_build_msg(m, SB.n[M.b[u->board].sbnode].addr, 0, u->type, u->d, u->dl); env_push_quiet(f, rc_frame(f, m, (size_t) ml, 1)); }

static void *h_t1(void *p) { (void) p;
	switch (harness_id) {
	case 1: { t_bidib_node_address a = {1, 0, 0}; bidib_send_sys_ping(a, 7, 0); t_bidib_cs_drive_mod d = {{0x02, 0x03, 0}, 2, 1, 0x85, 0, 0, 0, 0}; t_bidib_node_address r = {0, 0, 0}; bidib_send_cs_drive(r, d, 0); break; }
	case 2: obs_train("train1"); obs_segment("seg1"); obs_position("train1"); break;
	case 3: free(bidib_read_message()); free(bidib_read_error_message()); break;
	case 4: bidib_switch_point("pointd", "reverse"); bidib_set_signal("signald", "go"); break;
	case 5: obs_point("point1"); obs_accessories_snapshot(); obs_point("point1"); break;
	} return NULL; }
static void *h_t2(void *p) { (void) p;
	switch (harness_id) {
	case 1: bidib_set_train_speed("train1", 20, "master"); bidib_switch_point("point1", "reverse"); break;
	case 2: obs_snapshot(); obs_train("train1"); break;
	case 3: free(bidib_read_message()); free(bidib_read_message()); break;
	case 4: obs_point("pointd"); obs_point("pointd"); obs_point("point1"); break;
	case 5: obs_accessories_snapshot(); obs_accessories_snapshot(); break;
	} return NULL; }

#if defined(VARIANT_TSAN)
#define emit_races hx_emit_tsan_races
#endif
static void c10_child(const void *job, size_t n) {
	vs_dev_t devs[VS_MAXDEV]; int nd; size_t pl; const uint8_t *p = job_parse(job, n, devs, &nd, &pl);
	harness_id = p[0]; reference_mode = p[1]; const char *expected = (const char *) (p + 2); size_t explen = pl - 2;
	int af = harness_id == 1;
	hx_child_begin(devs, nd, 1, af ? bidib_auto_flush : NULL, af ? 1 : 0, 0);
	san_tsan_ignore(1);
	cm_std(&M); cm_install(&M);
	if (hx_start_normal(af ? 5 : 0)) res_infra("normal start failed");
	hx_quiesce(); vs_sleep_us(2500000); hx_quiesce();
	uint8_t *m; while ((m = bidib_read_message())) free(m); while ((m = bidib_read_error_message())) free(m);
	san_reset(); san_tsan_ignore(0);
	nobs = 0;
	if (reference_mode) {
		/* sequential reference: the getter values after every prefix of an order-preserving interleaving of the receiver's
		 * updates (U) and the commands of thread 1 (C); reference_mode-1 selects the interleaving */
		static const char *ORD4[6] = {"UUCC", "UCUC", "UCCU", "CUUC", "CUCU", "CCUU"};
		const char *order = harness_id == 4 ? ORD4[(reference_mode - 1) % 6] : "UUUU"; int nu = 0, nc = 0;
		for (int step = 0; ; step++) {
			int before = nobs;
			if (harness_id == 2) { obs_train("train1"); obs_segment("seg1"); obs_position("train1"); obs_snapshot(); } else if (harness_id == 4) { obs_point("pointd"); obs_point("point1"); }
			else if (harness_id == 5) { obs_point("point1"); obs_accessories_snapshot(); }
			for (int k = before; k < nobs; k++) res_printf("R %s\t%s\n", obs_name[k], obs[k]);
			nobs = before;
			if (harness_id == 4 ? step >= 4 : nu >= NUPD[harness_id]) break;
			if (order[step] == 'U') { queue_update(harness_id, nu++); vs_point(); hx_quiesce(); }
			else { if (nc++ == 0) bidib_switch_point("pointd", "reverse"); else bidib_set_signal("signald", "go"); }
		}
		res_printf("O 0 0\n"); res_finish();
	}
	for (int i = 0; i < NUPD[harness_id]; i++) queue_update(harness_id, i);
	vs_unlock_points = harness_id == 5;     /* H7: what a getter still reads after it dropped the lock is exposed to the receiver */
	vs_window(1);
	int t1 = vs_spawn(h_t1, NULL), t2 = vs_spawn(h_t2, NULL);
	vs_join_tid(t1); vs_join_tid(t2); hx_quiesce();
	vs_window(0);
	vs_unlock_points = 0;
	if (harness_id == 1) { vs_sleep_us(20000); hx_quiesce(); }
	hx_hash_t h; hx_hash_init(&h);
	for (int k = 0; k < nobs; k++) { hx_hash_str(&h, obs[k]);
		/* atomicity: the observation must be one of the sequential values */
		if (explen > 0) { char key[520]; int kl = snprintf(key, sizeof key, "%s\t%s\n", obs_name[k], obs[k]); if (!memmem(expected, explen, key, (size_t) kl)) {
			char cls[160]; snprintf(cls, sizeof cls, "torn-read getter=%s: a getter returned a state that never existed", obs_name[k]); res_violation(cls, "observed: %s", obs[k]); } } }
#if defined(VARIANT_TSAN)
	static const char *HN[6] = {"", "H1 senders||receiver||auto-flush", "H2 receiver||getters||snapshot", "H3 readers||receiver", "H4 DCC setters||getters||receiver", "H7 receiver(board accessories, peripherals)||snapshot||getter"};
	emit_races(HN[harness_id]);
#endif
	san_tsan_ignore(1);
	hx_emit_ledger_violations("C10");
	res_printf("O %llx %llx\n", (unsigned long long) h.a, (unsigned long long) h.b);
	hx_emit_trace(); res_finish();
}

/* ---------------------------------------------------------------- H5: the whole API, pair-wise
 * Every ordered pair (a, b) of the N_HL+N_LL catalogue calls (all getters, setters, util functions, queue readers, flush and
 * the 72 low-level send functions; bidib_send_sys_reset excluded: the README forbids it concurrently) runs on two
 * application threads — each thread performs the call with every argument class (<=16 per entry: valid ids of every kind,
 * wrong kind, unknown, NULL) — while the receiver thread applies a batch of 20 feedback messages that touches every kind of
 * tracked state.  rx_mode 0: the batch is queued before the threads start (receiver first under the default schedule),
 * 1: thread b queues it when it is done (receiver last).  TSan build: any race report is a violation.  Plain build: ledger
 * (locks held at exit, unlock of a lock not held), crashes and deadlocks. */
static const struct { int board; uint8_t type; uint8_t d[10]; int dl; } RXB[] = {
	{0, MSG_BM_OCC, {0}, 1}, {0, MSG_BM_ADDRESS, {0, 0x23, 0x01}, 3}, {0, MSG_BM_MULTIPLE, {0, 8, 0x03}, 3}, {0, MSG_BM_CONFIDENCE, {1, 0, 0}, 3},
	{0, MSG_BM_CURRENT, {0, 20}, 2}, {0, MSG_BM_SPEED, {0x23, 0x01, 40, 0}, 4}, {0, MSG_BM_DYN_STATE, {0, 0x23, 0x01, 1, 50}, 5}, {1, MSG_BM_OCC, {0}, 1},
	{1, MSG_ACCESSORY_STATE, {2, 0, 2, 0, 0}, 5}, {2, MSG_LC_STAT, {0x23, 0x01, 1}, 3}, {2, MSG_ACCESSORY_STATE, {0x10, 2, 2, 0, 0}, 5},
	{0, MSG_CS_STATE, {3}, 1}, {0, MSG_CS_DRIVE_ACK, {0x23, 0x01, 1}, 3}, {0, MSG_CS_ACCESSORY_ACK, {0x22, 0x11, 1}, 3}, {0, MSG_CS_DRIVE_MANUAL, {0x23, 0x01, 3, 0x03, 0x8A, 0x10, 0, 0, 0}, 9},
	{0, MSG_CS_ACCESSORY_MANUAL, {0x22, 0x11, 0x21}, 3}, {0, MSG_BOOST_STAT, {0x80}, 1}, {0, MSG_BOOST_DIAGNOSTIC, {0, 10, 1, 120, 2, 30}, 6},
	{0, MSG_BM_FREE, {0}, 1}, {3, MSG_BOOST_STAT, {0x02}, 1},
};
#define N_RXB ((int) (sizeof RXB / sizeof RXB[0]))
static void queue_rx_batch(void) { for (int i = 0; i < N_RXB; i++) { uint8_t m[40], f[90]; int ml = rc_build_msg(m, SB.n[M.b[RXB[i].board].sbnode].addr, 0, RXB[i].type, RXB[i].d, RXB[i].dl); env_push_quiet(f, rc_frame(f, m, (size_t) ml, 1)); } }
static int pair_a, pair_b, pair_rx_mode;
/* schedule exploration of a pair: one or two VALID argument classes per call keep the threads short */
static int pair_single;
static int e1_variants(int e, int *out) {
	int all[24]; int n = pair_variants(e, all); const char *nm = entry_name(e);
	if (entry_variants(e) > 16) { int k = 0; for (int i = 0; i < n && k < 2 && all[i] != 14 && all[i] != 15; i++) out[k++] = all[i]; return k ? k : 1; }
	if (n <= 2) { for (int i = 0; i < n; i++) out[i] = all[i]; return n; }
	int id = strstr(nm, "train") ? 12 : strstr(nm, "point") ? 4 : strstr(nm, "signal") ? 6 : strstr(nm, "peripheral") ? 8 : strstr(nm, "segment") ? 9 : strstr(nm, "reverser") ? 11 : 0;
	out[0] = id; if (id == 4) { out[1] = 5; return 2; } return 1;
}
static void *pair_t(void *arg) { int which = (int) (intptr_t) arg; int e = which ? pair_b : pair_a; int vs[24]; int nv = pair_single ? e1_variants(e, vs) : pair_variants(e, vs);
	for (int i = 0; i < nv; i++) run_entry(e, vs[i]);
	if (which && pair_rx_mode >= 1) queue_rx_batch();
	return NULL; }
static void c10_pair_child(const void *job, size_t n) {
	vs_dev_t devs[VS_MAXDEV]; int nd; size_t pl; const uint8_t *p = job_parse(job, n, devs, &nd, &pl);
	int from, count; memcpy(&from, p, 4); memcpy(&count, p + 4, 4); pair_rx_mode = p[8]; int single = p[9]; pair_single = single;   /* E1 mode */
	int NE = N_HL + N_LL;
	hx_child_begin(devs, nd, single ? 1 : 0, NULL, 0, 0);
	san_tsan_ignore(1);
	cm_std(&M); cm_install(&M);
	if (hx_start_normal(0)) res_infra("normal start failed");
	hx_quiesce(); vs_sleep_us(2500000); hx_quiesce();
	uint8_t *m; while ((m = bidib_read_message())) free(m); while ((m = bidib_read_error_message())) free(m);
	hx_hash_t h; hx_hash_init(&h); long npairs = 0;
	for (int k = from; k < from + count && k < NE * NE; k++) {
		pair_a = k / NE; pair_b = k % NE;
		char what[200]; snprintf(what, sizeof what, "H5 %s || %s || receiver(batch %s)", entry_name(pair_a), entry_name(pair_b), pair_rx_mode == 3 ? "first, action-id counter about to wrap" : pair_rx_mode == 2 ? "before and after" : pair_rx_mode ? "last" : "first");
		hx_set_context(what); res_progress(k);
		vs_sleep_us(2500000); hx_quiesce();
		san_reset(); san_tsan_ignore(0);
		if (pair_rx_mode == 3) { extern unsigned int bidib_get_and_incr_action_id(void); while (bidib_get_and_incr_action_id() != (single ? 9998u : 9990u)); }     /* both calls draw their action ids across the counter's wrap-around (9999 -> 1) */
		if (pair_rx_mode == 2) { queue_rx_batch(); vs_point(); hx_quiesce(); }      /* populate first, so that the update AFTER the calls replaces state the calls have read */
		if (pair_rx_mode == 0 || pair_rx_mode == 3) queue_rx_batch();
		vs_window(1);
		int t1 = vs_spawn(pair_t, (void *) (intptr_t) 0), t2 = vs_spawn(pair_t, (void *) (intptr_t) 1);
		vs_join_tid(t1); vs_join_tid(t2); hx_quiesce();
		vs_window(0);
		int before = res_nviol();
#if defined(VARIANT_TSAN)
		emit_races(what);
#endif
		san_tsan_ignore(1);
		for (int t = 0; t < VS_MAXT; t++) if (vs_held_count(t)) { char held[200]; vs_held_desc(t, held, sizeof held); char cls[300]; snprintf(cls, sizeof cls, "lock-held-after-calls locks=%s", held); res_violation(cls, "%s: thread %d still holds %s", what, t, held); }
		hx_emit_ledger_violations("C10");
		bidib_flush(); hx_quiesce();
		while ((m = bidib_read_message())) free(m); while ((m = bidib_read_error_message())) free(m);
		npairs++;
		if (res_nviol() > before && !single) { res_printf("F %d\n", k); break; }   /* the parent re-runs the failing pair alone for a minimal replay */
	}
	res_printf("C api_pairs %ld\nO %x %x\n", npairs, from, pair_rx_mode);
	if (single) hx_emit_trace();
	res_finish();
}

/* ---------------------------------------------------------------- H6: concurrent high-level commands are linearizable
 * Two application threads each issue one high-level command (12 commands on the same train / DCC accessories: functions of
 * the same and of different function groups, speeds, emergency stop, calibrated speed, other track output, point aspects,
 * signal, a second train).  After both returned and everything was flushed the observation = (whole tracked state through
 * bidib_get_state) + (state of a decoder model that folds the drive / accessory messages in WIRE order) must equal the
 * observation of one of the two sequential executions a;b or b;a (reference runs of the same harness).  A lost update (both
 * calls returned 0, one effect missing) or tracked state and decoders disagreeing after the calls is a violation. */
#include "../fw/statedump.h"
typedef struct { const char *name; } lin_cmd_t;
static const char *LINNAME[] = {"set_train_peripheral(train1,head_light,0,master)", "set_train_peripheral(train1,cabin_light,1,master)", "set_train_peripheral(train1,horn,1,master)",
	"set_train_speed(train1,20,master)", "set_train_speed(train1,-30,master)", "emergency_stop_train(train1,master)", "switch_point(pointd,reverse)", "switch_point(pointd,normal)",
	"set_signal(signald,go)", "set_train_peripheral(train1,cabin_light,1,booster2)", "set_calibrated_train_speed(train1,3,master)", "set_train_peripheral(train2,light,1,master)"};
#define N_LIN 12
static int lin_rc[2];
static int lin_call(int c) {
	switch (c) {
	case 0: return bidib_set_train_peripheral("train1", "head_light", 0, "master"); case 1: return bidib_set_train_peripheral("train1", "cabin_light", 1, "master");
	case 2: return bidib_set_train_peripheral("train1", "horn", 1, "master"); case 3: return bidib_set_train_speed("train1", 20, "master"); case 4: return bidib_set_train_speed("train1", -30, "master");
	case 5: return bidib_emergency_stop_train("train1", "master"); case 6: return bidib_switch_point("pointd", "reverse"); case 7: return bidib_switch_point("pointd", "normal");
	case 8: return bidib_set_signal("signald", "go"); case 9: return bidib_set_train_peripheral("train1", "cabin_light", 1, "booster2"); case 10: return bidib_set_calibrated_train_speed("train1", 3, "master");
	default: return bidib_set_train_peripheral("train2", "light", 1, "master");
	}
}
static int lin_a, lin_b;
static void *lin_t(void *arg) { int w = (int) (intptr_t) arg; lin_rc[w] = lin_call(w ? lin_b : lin_a); return NULL; }
/* decoder model: per (track output, DCC address) speed byte and function bytes; per accessory address the last aspect */
static size_t lin_fold_wire(int from, char *buf, size_t n) {
	struct { uint8_t out[4], al, ah, speed, f[4]; int used; } D[8]; int nd = 0; struct { uint8_t al, ah, asp; } A[8]; int na = 0; memset(D, 0, sizeof D);
	for (int i = from; i < SB.nlog; i++) {
		if (SB.log[i].type == MSG_CS_DRIVE && SB.log[i].dlen == 9) { const uint8_t *d = SB.log[i].data; int k;
			for (k = 0; k < nd; k++) if (!memcmp(D[k].out, SB.log[i].addr, 4) && D[k].al == d[0] && D[k].ah == d[1]) break;
			if (k == nd && nd < 8) { memcpy(D[k].out, SB.log[i].addr, 4); D[k].al = d[0]; D[k].ah = d[1]; nd++; }
			if (k < 8) { if (d[3] & 1) D[k].speed = d[4]; if (d[3] & 2) D[k].f[0] = (uint8_t) ((D[k].f[0] & 0xE0) | (d[5] & 0x1F)); if (d[3] & 4) D[k].f[1] = (uint8_t) ((D[k].f[1] & 0xF0) | (d[6] & 0x0F));
				if (d[3] & 8) D[k].f[1] = (uint8_t) ((D[k].f[1] & 0x0F) | (d[6] & 0xF0)); if (d[3] & 16) D[k].f[2] = d[7]; if (d[3] & 32) D[k].f[3] = d[8]; } }
		if (SB.log[i].type == MSG_CS_ACCESSORY && SB.log[i].dlen >= 3) { const uint8_t *d = SB.log[i].data; int k; for (k = 0; k < na; k++) if (A[k].al == d[0] && A[k].ah == d[1]) break;
			if (k == na && na < 8) { A[k].al = d[0]; A[k].ah = d[1]; na++; } if (k < 8) A[k].asp = d[2]; }
	}
	size_t o = 0;
	for (int a = 0; a < 8; a++) for (int k = 0; k < nd; k++) { int rank = 0; for (int j = 0; j < nd; j++) if (memcmp(&D[j], &D[k], 6) < 0) rank++; if (rank != a) continue;      /* canonical order */
		o += (size_t) snprintf(buf + o, n - o, "DEC out=%02x.%02x addr=%02x%02x speed=%02x f=%02x%02x%02x%02x;", D[k].out[0], D[k].out[1], D[k].ah, D[k].al, D[k].speed, D[k].f[0], D[k].f[1], D[k].f[2], D[k].f[3]); }
	for (int a = 0; a < 8; a++) for (int k = 0; k < na; k++) { int rank = 0; for (int j = 0; j < na; j++) if (memcmp(&A[j], &A[k], 2) < 0) rank++; if (rank != a) continue;
		o += (size_t) snprintf(buf + o, n - o, "ACC %02x%02x aspect=%02x;", A[k].ah, A[k].al, A[k].asp); }
	return o;
}
static int lin_quiet; static int lin_hook(int node, const rc_msg_t *m) { (void) node; (void) m; return lin_quiet; }
static void c10_lin_child(const void *job, size_t n) {
	vs_dev_t devs[VS_MAXDEV]; int nd; size_t pl; const uint8_t *p = job_parse(job, n, devs, &nd, &pl);
	lin_a = p[0]; lin_b = p[1]; int mode = p[2]; const char *expected = (const char *) (p + 3); size_t explen = pl - 3;   /* mode 0 concurrent, 1 a;b, 2 b;a */
	hx_child_begin(devs, nd, 1, NULL, 0, 0);
	cm_std(&M); lin_quiet = 0; cm_install(&M); SB.on_msg = lin_hook;
	if (hx_start_normal(0)) res_infra("normal start failed");
	hx_quiesce(); vs_sleep_us(2500000); hx_quiesce();
	uint8_t *m; while ((m = bidib_read_message())) free(m); while ((m = bidib_read_error_message())) free(m);
	lin_quiet = 1;                       /* the bus does not answer the commands: only the optimistic updates are visible */
	int from = SB.nlog;
	if (mode == 0) { vs_window(1); int t1 = vs_spawn(lin_t, (void *) (intptr_t) 0), t2 = vs_spawn(lin_t, (void *) (intptr_t) 1); vs_join_tid(t1); vs_join_tid(t2); vs_window(0); }
	else if (mode == 1) { lin_rc[0] = lin_call(lin_a); lin_rc[1] = lin_call(lin_b); } else { lin_rc[1] = lin_call(lin_b); lin_rc[0] = lin_call(lin_a); }
	bidib_flush(); hx_quiesce();
	static char obs[1 << 15]; size_t o = (size_t) snprintf(obs, sizeof obs, "rc=%d,%d;", lin_rc[0], lin_rc[1]); o += sd_dump(obs + o, sizeof obs - o); o += lin_fold_wire(from, obs + o, sizeof obs - o);
	hx_hash_t h; hx_hash_init(&h); hx_hash_add(&h, obs, o);
	if (mode) res_printf("R %llx %llx\n", (unsigned long long) h.a, (unsigned long long) h.b);
	else if (explen >= 32) {
		uint64_t e[4]; memcpy(e, expected, 32);
		if (!((h.a == e[0] && h.b == e[1]) || (h.a == e[2] && h.b == e[3]))) {
			char cls[300]; snprintf(cls, sizeof cls, "not-linearizable %s || %s: the final tracked state / decoder state equals neither sequential order", LINNAME[lin_a], LINNAME[lin_b]);
			res_violation(cls, "observation after the concurrent execution: %.1500s", obs);
		}
	}
	if (getenv("VERIF_IN_REPLAY")) res_printf("X %s\n", obs);
	hx_emit_ledger_violations("C10");
	res_printf("O %llx %llx\n", (unsigned long long) h.a, (unsigned long long) h.b);
	hx_emit_trace(); res_finish();
}
/* also used by C09 and C07 (the optimistic effect of concurrent commands), with their own bound */
void c10_run_lin(int bound, long *execs, long *states, long *transitions, int *exhaustive);
static void run_lin(int thorough, long *execs, long *states, long *transitions, int *exhaustive) { c10_run_lin(thorough ? 3 : 2, execs, states, transitions, exhaustive); }
void c10_run_lin(int bound, long *execs, long *states, long *transitions, int *exhaustive) {
	long sched = 0, npairs = 0, commuting = 0; int minb = 9;
	for (int a = 0; a < N_LIN; a++) for (int b = a; b < N_LIN; b++) {
		if (rep_elapsed() > rep_deadline_s) { *exhaustive = 0; break; }
		uint64_t e[4] = {0, 0, 0, 0};
		for (int mode = 1; mode <= 2; mode++) { uint8_t rp[3] = {(uint8_t) a, (uint8_t) b, (uint8_t) mode}; uint8_t job[64]; size_t jn = job_build(job, NULL, 0, rp, 3);
			run_submit(harness_find("c10.lin"), job, jn, NULL); run_res_t r; run_wait(&r); rep_collect(&r, "c10.lin", job, jn, "sequential reference run");
			const char *l = res_line(&r, 'R', 0); unsigned long long x = 0, y = 0; if (!l || sscanf(l, "%llx %llx", &x, &y) != 2) rep_infra("c10.lin: no reference observation for pair %d,%d", a, b);
			e[2 * (mode - 1)] = x; e[2 * (mode - 1) + 1] = y; (*execs)++; }
		if (e[0] == e[2] && e[1] == e[3]) commuting++;
		uint8_t param[3 + 32] = {(uint8_t) a, (uint8_t) b, 0}; memcpy(param + 3, e, 32);
		char label[300]; snprintf(label, sizeof label, "H6 %s || %s", LINNAME[a], LINNAME[b]);
		e1_spec_t s = { .harness = "c10.lin", .param = param, .nparam = sizeof param, .bound = bound, .label = strdup(label) };
		e1_explore(&s); for (int k = 0; k < 8; k++) sched += s.schedules_by_cost[k]; npairs++; *states += s.distinct_outcomes; *transitions += s.choice_points; if (!s.exhaustive) *exhaustive = 0; if (s.completed_bound < minb) minb = s.completed_bound;
	}
	*execs += sched;
	rep_note("H6 linearizability of concurrent high-level commands: %ld pairs of %d commands (%ld pairs commute), %ld schedules, completed preemption bound %d", npairs, N_LIN, commuting, sched, minb);
}
static char refbuf[6][8192]; static size_t reflen[6];
typedef struct { int32_t from, count; uint8_t rx_mode, single; } pjob_t;
static pjob_t *pjobs; static long npjobs, cappjobs, pround_base;
static void padd(long from, long count, int mode) { if (count <= 0) return; if (npjobs == cappjobs) { cappjobs = cappjobs ? cappjobs * 2 : 1024; pjobs = realloc(pjobs, sizeof(pjob_t) * (size_t) cappjobs); }
	pjobs[npjobs++] = (pjob_t) { (int32_t) from, (int32_t) count, (uint8_t) mode, 0 }; }
static size_t pair_payload(const pjob_t *j, uint8_t *payload) { memcpy(payload, &j->from, 4); memcpy(payload + 4, &j->count, 4); payload[8] = j->rx_mode; payload[9] = j->single; return 10; }
static size_t pair_gen(long idx, uint8_t *payload, char *human, size_t hn) {
	pjob_t *j = &pjobs[pround_base + idx]; int NE = N_HL + N_LL;
	snprintf(human, hn, "%spairs %d..%d (first: %s || %s) receiver batch %s", j->count == 1 ? "single case " : "", j->from, j->from + j->count - 1, entry_name(j->from / NE), entry_name(j->from % NE), j->rx_mode == 3 ? "first, action-id counter about to wrap" : j->rx_mode == 2 ? "before and after" : j->rx_mode ? "last" : "first");
	return pair_payload(j, payload);
}
static long presume[4096][2]; static int npresume;
static void pair_on_result(long idx, const run_res_t *r) {
	long fail = -1; const char *l = res_line(r, 'F', 0);
	if (l) fail = atol(l); else if (r->status != 0) fail = res_last_progress(r);
	if (fail >= 0 && npresume < 4096) { presume[npresume][0] = pround_base + idx; presume[npresume][1] = fail; npresume++; }
}

/* ---------------------------------------------------------------- H8 (c10.settle): command || flush || receiver, the bus answering live
 * A high-level command records a pending / optimistic value and the board's answer replaces it.  The answer is CAUSED by the
 * command, so in every serial order it is applied after the command's own bookkeeping: once everything has settled, the tracked
 * state must be the one of the sequential run (command; flush; answer), whichever thread flushed the request and whenever the
 * receiver handled the answer.  A command that still writes its bookkeeping AFTER it handed the request to the transmission
 * layer can overwrite the answer that a concurrent flush made possible — a final state no serial order produces. */
static const char *SETTLE_NAME[] = {"bidib_request_reverser_state(rev1)", "bidib_switch_point(point1: board accessory)", "bidib_switch_point(pointd: DCC accessory)", "bidib_set_signal(signal1)",
	"bidib_set_peripheral(led1)", "bidib_set_train_speed(train1)", "bidib_set_train_peripheral(train1, head_light)", "bidib_set_booster_power_state(master)", "bidib_set_track_output_state(master)",
	"bidib_emergency_stop_train(train1)", "bidib_set_calibrated_train_speed(train1)"};
#define N_SETTLE ((int) (sizeof SETTLE_NAME / sizeof SETTLE_NAME[0]))
static int settle_cmd, settle_rc;
static void settle_do(int c) {
	switch (c) {
	case 0: settle_rc = bidib_request_reverser_state("rev1", "master"); break;
	case 1: settle_rc = bidib_switch_point("point1", "reverse"); break;
	case 2: settle_rc = bidib_switch_point("pointd", "reverse"); break;
	case 3: settle_rc = bidib_set_signal("signal1", "green"); break;
	case 4: settle_rc = bidib_set_peripheral("led1", "on"); break;
	case 5: settle_rc = bidib_set_train_speed("train1", 20, "master"); break;
	case 6: settle_rc = bidib_set_train_peripheral("train1", "head_light", 0, "master"); break;
	case 7: settle_rc = bidib_set_booster_power_state("master", true); break;
	case 8: settle_rc = bidib_set_track_output_state("master", BIDIB_CS_GO); break;
	case 9: settle_rc = bidib_emergency_stop_train("train1", "master"); break;
	case 10: settle_rc = bidib_set_calibrated_train_speed("train1", 4, "master"); break;
	} }
static void *settle_t1(void *p) { (void) p; settle_do(settle_cmd); return NULL; }
static void *settle_t2(void *p) { (void) p; bidib_flush(); return NULL; }
static void c10_settle_child(const void *job, size_t n) {
	vs_dev_t devs[VS_MAXDEV]; int nd; size_t pl; const uint8_t *p = job_parse(job, n, devs, &nd, &pl);
	settle_cmd = p[0]; int reference = p[1]; uint64_t ea = 0, eb = 0; if (pl >= 18) { memcpy(&ea, p + 2, 8); memcpy(&eb, p + 10, 8); }
	hx_child_begin(devs, nd, 1, NULL, 0, 0);
	san_tsan_ignore(1);
	cm_std(&M); cm_install(&M);
	if (hx_start_normal(0)) res_infra("normal start failed");
	hx_quiesce(); vs_sleep_us(2500000); hx_quiesce();
	uint8_t *m; while ((m = bidib_read_message())) free(m); while ((m = bidib_read_error_message())) free(m);
	san_reset(); san_tsan_ignore(0);
	settle_rc = -1;
	if (reference) { settle_do(settle_cmd); bidib_flush(); hx_quiesce(); }
	else {
		vs_unlock_points = 1;      /* the stretch between two critical sections of the command is where the answer can slip in */
		vs_window(1);
		int t1 = vs_spawn(settle_t1, NULL), t2 = vs_spawn(settle_t2, NULL);
		vs_join_tid(t1); vs_join_tid(t2); hx_quiesce();
		vs_window(0);
		vs_unlock_points = 0;
	}
	bidib_flush(); hx_quiesce(); vs_sleep_us(300000); hx_quiesce();
	if (settle_rc != 0) res_infra("the command under test was rejected");
	static char dump[1 << 16]; sd_dump(dump, sizeof dump);
	hx_hash_t h; hx_hash_init(&h); hx_hash_str(&h, dump);
	if (reference) { res_printf("S %llx %llx\n", (unsigned long long) h.a, (unsigned long long) h.b); static char one[1 << 16]; size_t o = 0; for (const char *c = dump; *c && o + 2 < sizeof one; c++) one[o++] = *c == '\n' ? ' ' : *c; one[o] = 0; res_printf("D %s\n", one); }
	else if (h.a != ea || h.b != eb) {
		char cls[200]; snprintf(cls, sizeof cls, "settled-state-differs command=%s: after command, flush and answer have all been handled the tracked state is not the one of the sequential run", SETTLE_NAME[settle_cmd]);
		/* name the first differing entry against the reference dump, which travels behind the hashes (entries end with ';') */
		const char *ref = pl > 18 ? (const char *) (p + 18) : ""; char extra[300] = "", miss[300] = "";
		for (int dir = 0; dir < 2; dir++) { const char *src = dir ? ref : dump, *other = dir ? dump : ref; char *out = dir ? miss : extra;
			for (const char *c = src; *c; ) { const char *e = strchr(c, ';'); size_t l = e ? (size_t) (e - c) + 1 : strlen(c); while (l && (*c == '\n' || *c == ' ')) { c++; l--; }
				if (l && l < 298) { char key[300]; memcpy(key, c, l); key[l] = 0; if (!strstr(other, key)) { memcpy(out, key, l + 1); break; } } if (!e) break; c = e + 1; } }
		res_violation(cls, "entry of the state dump that the sequential run does not have: %s entry of the sequential run that is missing: %s", extra[0] ? extra : "(none)", miss[0] ? miss : "(none)"); }
#if defined(VARIANT_TSAN)
	emit_races("H8 command||flush||receiver");
#endif
	san_tsan_ignore(1);
	hx_emit_ledger_violations("C10");
	res_printf("O %llx %llx\n", (unsigned long long) h.a, (unsigned long long) h.b);
	hx_emit_trace(); res_finish();
}
static void run_settle(int thorough, int tsan, long *execs, long *states, long *transitions, int *exhaustive) {
	long sch = 0, outs = 0;
	for (int c = 0; c < N_SETTLE; c++) {
		static uint8_t param[1 << 16]; size_t pn = 2; param[0] = (uint8_t) c; param[1] = 1;
		{ uint8_t job[64]; size_t jn = job_build(job, NULL, 0, param, 2); run_submit(harness_find("c10.settle"), job, jn, NULL); run_res_t r; run_wait(&r); rep_collect(&r, "c10.settle", job, jn, "sequential reference run");
		  unsigned long long a = 0, b = 0; const char *s = res_line(&r, 'S', 0); int got = s && sscanf(s, "%llx %llx", &a, &b) == 2; const char *d = res_line(&r, 'D', 0);      /* res_line returns a static buffer */
		  if (!got) { rep_infra("c10.settle: no reference state for %s", SETTLE_NAME[c]); *exhaustive = 0; continue; }
		  uint64_t ea = a, eb = b; memcpy(param + 2, &ea, 8); memcpy(param + 10, &eb, 8); pn = 18;
		  if (d) { size_t dl = strlen(d); if (dl > sizeof param - 20) dl = sizeof param - 20; memcpy(param + 18, d, dl); param[18 + dl] = 0; pn = 19 + dl; }
		  (*execs)++; }
		param[1] = 0; char label[160]; snprintf(label, sizeof label, "H8 %s || bidib_flush || receiver", SETTLE_NAME[c]);
		e1_spec_t s = { .harness = "c10.settle", .param = param, .nparam = pn, .bound = tsan ? 1 : (thorough ? 3 : 2), .label = strdup(label) };
		e1_explore(&s); for (int k = 0; k < 8; k++) sch += s.schedules_by_cost[k]; outs += s.distinct_outcomes; *transitions += s.choice_points; if (!s.exhaustive) *exhaustive = 0;
	}
	*execs += sch; *states += outs;
	rep_note("H8 c10.settle: %d commands, each || bidib_flush || receiver with the bus answering live, scheduling points after unlocks: %ld schedules, %ld distinct settled states (one per command expected)", N_SETTLE, sch, outs);
}
void c10_register(void) { harness_register("c10.settle", c10_settle_child); harness_register("c10.h", c10_child); harness_register("c10.pair", c10_pair_child); harness_register("c10.lin", c10_lin_child); }
static int excluded_entry(int e) { return !strcmp(entry_name(e), "bidib_send_sys_reset"); }
static void run_pairs(int thorough, int tsan, long *execs, long *states, long *transitions, int *exhaustive) {
	int NE = N_HL + N_LL; npjobs = 0; pround_base = 0; long planned = 0;
	/* catalogue: every ordered pair; quick: receiver batch first; thorough: both receiver modes */
	for (int mode = 0; mode <= (thorough ? 1 : 0); mode++) for (int a = 0; a < NE; a++) { if (excluded_entry(a)) continue;
		/* one job per row a; pairs with an excluded b are skipped in the child by splitting the row */
		int b0 = 0; for (int b = 0; b <= NE; b++) if (b == NE || excluded_entry(b)) { padd((long) a * NE + b0, b - b0, mode); planned += b - b0; b0 = b + 1; } }
	/* the receiver batch BEFORE (state populated) and AFTER the calls, for every call paired with itself — a getter that reads
	 * something after it has dropped the lock is only unordered against an update that comes later and replaces what it read
	 * (happens-before needs no real overlap) */
	for (int a = 0; a < NE; a++) if (!excluded_entry(a)) { padd((long) a * NE + a, 1, 2); planned++; }
	/* every high-level call paired with itself while the action-id counter wraps (a path taken once in 9999 draws) */
	for (int a = 0; a < N_HL; a++) if (!excluded_entry(a)) { padd((long) a * NE + a, 1, 3); planned++; }
	/* split rows into batches of 48 pairs */
	{ long n0 = npjobs; pjob_t *old = malloc(sizeof(pjob_t) * (size_t) n0); memcpy(old, pjobs, sizeof(pjob_t) * (size_t) n0); npjobs = 0;
	  for (long i = 0; i < n0; i++) for (long s0 = 0; s0 < old[i].count; s0 += 48) padd(old[i].from + s0, old[i].count - s0 < 48 ? old[i].count - s0 : 48, old[i].rx_mode); free(old); }
	for (int round = 0; round < 50 && pround_base < npjobs; round++) {
		npresume = 0; long nround = npjobs - pround_base;
		ex_spec_t e = { .harness = "c10.pair", .ncases = nround, .gen = pair_gen, .on_result = pair_on_result, .label = "c10.pair" };
		ex_map(&e); *execs += e.done; if (!e.exhaustive) { *exhaustive = 0; break; }
		pround_base = npjobs;
		for (int k = 0; k < npresume; k++) { pjob_t j = pjobs[presume[k][0]]; long fail = presume[k][1];
			if (j.count > 1) padd(fail, 1, j.rx_mode);
			padd(fail + 1, (long) j.from + j.count - (fail + 1), j.rx_mode); }
		if (rep_nviol() > 60) { *exhaustive = 0; rep_note("H5: more than 60 finding classes, stopping"); break; }
	}
	*states += rep_get("api_pairs"); *transitions += rep_get("api_pairs") * 2;
	rep_note("H5 API pairs: %d catalogue calls (%d high-level/util incl. every getter, %d low-level), %ld ordered pairs planned, %ld executed (each thread runs its call with every argument class; receiver applies a %d-message feedback batch concurrently; %s)",
	         NE - 1, N_HL - 1, N_LL, planned, rep_get("api_pairs"), N_RXB, thorough ? "receiver batch first and last" : "receiver batch first");
	/* both tiers: a pair of DIFFERENT high-level setters (different state locks, so they really overlap) explored with one
	 * preemption while the action-id counter wraps — what is shared between unrelated setters is the id counter and the send path */
	{ static const char *WR[4] = {"bidib_set_train_speed", "bidib_switch_point", "bidib_set_peripheral", "bidib_set_train_speed"}; long sched = 0;
	  for (int k = 0; k < 1; k++) { int a = -1, b = -1; for (int e = 0; e < N_HL; e++) { if (!strcmp(entry_name(e), WR[k])) a = e; if (!strcmp(entry_name(e), WR[k + 1])) b = e; } if (a < 0 || b < 0) continue;
		pjob_t j = { a * NE + b, 1, 3, 1 }; uint8_t param[16]; size_t pn = pair_payload(&j, param);
		char label[200]; snprintf(label, sizeof label, "H5/E1 %s || %s across the action-id wrap", entry_name(a), entry_name(b));
		e1_spec_t s = { .harness = "c10.pair", .param = param, .nparam = pn, .bound = 1, .label = strdup(label) };
		e1_explore(&s); for (int q = 0; q < 8; q++) sched += s.schedules_by_cost[q]; *states += s.distinct_outcomes; *transitions += s.choice_points; if (!s.exhaustive) *exhaustive = 0; }
	  *execs += sched; rep_note("H5/E1 across the action-id wrap: bidib_set_train_speed || bidib_switch_point, %ld schedules (1 preemption)", sched); }
	/* thorough: schedule exploration (1 preemption) of every (getter/reader/flush, high-level setter) pair */
	if (thorough) {
		long sched = 0, npairs = 0; int minb = 9;
		for (int a = 0; a < N_HL; a++) for (int b = 0; b < N_HL; b++) {
			int a_reader = !strncmp(entry_name(a), "bidib_get", 9) || !strncmp(entry_name(a), "getters", 7) || !strncmp(entry_name(a), "bidib_read", 10) || !strcmp(entry_name(a), "bidib_flush");
			int b_setter = !strncmp(entry_name(b), "bidib_set", 9) || !strncmp(entry_name(b), "bidib_switch", 12) || !strncmp(entry_name(b), "bidib_emergency", 15) || !strncmp(entry_name(b), "bidib_request", 13);
			if (!a_reader || !b_setter) continue;
			if (rep_elapsed() > rep_deadline_s) { *exhaustive = 0; break; }
			pjob_t j = { a * NE + b, 1, 0, 1 }; uint8_t param[16]; size_t pn = pair_payload(&j, param);
			char label[200]; snprintf(label, sizeof label, "H5/E1 %s || %s || receiver", entry_name(a), entry_name(b));
			e1_spec_t s = { .harness = "c10.pair", .param = param, .nparam = pn, .bound = tsan ? 1 : 1, .label = strdup(label) };
			e1_explore(&s); for (int k = 0; k < 8; k++) sched += s.schedules_by_cost[k]; npairs++; *states += s.distinct_outcomes; *transitions += s.choice_points; if (!s.exhaustive) *exhaustive = 0; if (s.completed_bound < minb) minb = s.completed_bound;
		}
		*execs += sched;
		rep_note("H5/E1: %ld (reader, setter) pairs explored with 1 preemption: %ld schedules, smallest completed bound %d", npairs, sched, minb);
	}
}
int c10_run(const char *tier) {
	int thorough = !strcmp(tier, "thorough");
	const char *variant = getenv("VERIF_VARIANT"); int tsan = variant && !strcmp(variant, "tsan");
	long execs = 0, states = 0, transitions = 0; int exhaustive = 1;
	static const char *HN[6] = {"", "H1 senders||receiver||auto-flush", "H2 receiver||getters||snapshot", "H3 readers||receiver", "H4 DCC setters||getters||receiver", "H7 receiver(board accessories, peripherals)||snapshot||getter"};
	if (getenv("VERIF_C10_ONLY_SETTLE")) { run_settle(thorough, tsan, &execs, &states, &transitions, &exhaustive); rep_count("executions", execs); rep_count("states", states); rep_count("transitions", transitions); rep_flag("exhaustive", 0); return 0; }      /* development aid */
	for (int hn = 1; hn <= 5; hn++) {
		reflen[hn] = 0;
		if (!tsan && (hn == 1 || hn == 3)) continue;     /* no atomicity oracle for these: they are there for the race detector (exactly-one-reader is C06's) */
		if (!tsan) for (int ord = 1; ord <= (hn == 4 ? 6 : 1); ord++) {   /* sequential reference values */
			uint8_t rp[2] = {(uint8_t) hn, (uint8_t) ord}; uint8_t job[64]; size_t jn = job_build(job, NULL, 0, rp, 2);
			run_submit(harness_find("c10.h"), job, jn, NULL); run_res_t r; run_wait(&r); rep_collect(&r, "c10.h", job, jn, "sequential reference run");
			const char *l; for (int i = 0; (l = res_line(&r, 'R', i)); i++) { char line[520]; int ll = snprintf(line, sizeof line, "%s\n", l);
				if (!memmem(refbuf[hn], reflen[hn], line, (size_t) ll) && reflen[hn] + (size_t) ll < sizeof refbuf[hn]) { memcpy(refbuf[hn] + reflen[hn], line, (size_t) ll); reflen[hn] += (size_t) ll; } }
			execs++;
		}
		uint8_t param[8300]; param[0] = (uint8_t) hn; param[1] = 0; memcpy(param + 2, refbuf[hn], reflen[hn]);
		int bound = tsan ? (thorough ? 2 : 1) : (thorough ? 3 : 2);
		if (hn == 5) bound = thorough ? 2 : 1;       /* with a scheduling point after every unlock the harness has three times as many choice points */
		if (getenv("VERIF_BOUND")) bound = atoi(getenv("VERIF_BOUND"));
		e1_spec_t s = { .harness = "c10.h", .param = param, .nparam = 2 + reflen[hn], .bound = bound, .label = HN[hn] };
		e1_explore(&s);
		long ex = 0; for (int k = 0; k < 8; k++) ex += s.schedules_by_cost[k];
		execs += ex; states += s.distinct_outcomes; transitions += s.choice_points; if (!s.exhaustive) exhaustive = 0;
		rep_note("%s: bound=%d completed=%d schedules by cost=[%ld,%ld,%ld,%ld] distinct outcomes=%ld contended executions=%ld reference values=%zu bytes", HN[hn], s.bound, s.completed_bound,
		         s.schedules_by_cost[0], s.schedules_by_cost[1], s.schedules_by_cost[2], s.schedules_by_cost[3], s.distinct_outcomes, s.contended_execs, reflen[hn]);
	}
	run_pairs(thorough, tsan, &execs, &states, &transitions, &exhaustive);
	if (!tsan) run_lin(thorough, &execs, &states, &transitions, &exhaustive);
	run_settle(thorough, tsan, &execs, &states, &transitions, &exhaustive);
	rep_count("executions", execs); rep_count("states", states); rep_count("transitions", transitions); rep_flag("exhaustive", exhaustive);
	return 0;
}
