/* C09 — high-level commands emit exactly the configured messages, or nothing (return 1).
 *  c09.sweep : for each presence variant of the standard configuration, every accessory/peripheral x every aspect (+ an
 *              undefined one), every train x every board as track output x every speed -127..127 and +-1000, calibrated
 *              -10..10, emergency stop, every function x {0,1,2}, booster / track-output commands, unknown ids, NULL
 *  c09.hist  : E2 BFS over function / speed command histories (preservation of the other function bits of a group and of
 *              the direction at speed 0 depend on history)
 * Oracle: return value, decoded wire after flush == cm_ref_* of the configuration model, optimistic state, and for rejected
 * calls: nothing on the wire, nothing buffered, snapshot unchanged.  The bus does not answer commands, so every state
 * change seen is the optimistic one. */
#include "../fw/explore.h"
#include "../fw/hx.h"
#include "../fw/simbus.h"
#include "../fw/cfgmodel.h"
#include "../fw/statedump.h"
#include "include/bidib.h"
#include <stdio.h>
#include <stdlib.h>
#include <string.h>

static cm_model_t M; static int logpos; static long ncmds, naccepted;
static struct { uint32_t fb; int speed; int fwd; } TS[CM_MAXT];     /* reference optimistic train state; fwd = -1: unknown */
static int quiet_after_start; static int silent_hook(int node, const rc_msg_t *m) { (void) node; (void) m; return quiet_after_start; }

static int with_function_train;
static void begin(int presence_mask, int lose_lc1_later) {
	hx_child_begin(NULL, 0, 0, NULL, 0, 1000000ull * 5000000ull);
	cm_std(&M); if (with_function_train) cm_add_function_train(&M);
	for (int i = 1; i <= 3; i++) M.b[i].present = (presence_mask >> (i - 1)) & 1;
	quiet_after_start = 0; cm_install(&M); SB.on_msg = silent_hook;
	if (hx_start_normal(0)) res_infra("normal start failed");
	hx_quiesce();
	if (lose_lc1_later && M.b[2].present) {
		uint8_t d[9]; d[0] = ++SB.n[0].tab_version; d[1] = M.b[2].local; memcpy(d + 2, M.b[2].uid, 7);
		SB.n[M.b[2].sbnode].present = 0; M.b[2].present = 0; sb_send(0, MSG_NODE_LOST, d, 9); vs_point(); hx_quiesce();
	}
	uint8_t *m; while ((m = bidib_read_message())) free(m); while ((m = bidib_read_error_message())) free(m);
	quiet_after_start = 1;
	/* reference state after start-up: initial train functions have been applied */
	for (int t = 0; t < M.nt; t++) { TS[t].fb = 0; TS[t].speed = 0; TS[t].fwd = 1;
		for (int b = 0, any = 0; b < M.nb && !any; b++) if (cm_board_connected(&M, b) && cm_is_track_output(&M.b[b])) { any = 1;
			for (int k = 0; k < M.t[t].nper; k++) if (M.t[t].per[k].has_initial) TS[t].fb = (TS[t].fb & ~(1u << M.t[t].per[k].bit)) | ((uint32_t) M.t[t].per[k].initial << M.t[t].per[k].bit); } }
	vs_sleep_us(2500000); hx_quiesce(); logpos = SB.nlog; ncmds = naccepted = 0;
}
/* compare what reached the bus since the last command with the expectation */
static void verdict(const char *what, int rc, int nexp, const cm_msg_t *exp, const char *before) {
	bidib_flush(); hx_quiesce(); ncmds++;
	int got = SB.nlog - logpos;
	if (nexp < 0) { logpos = SB.nlog; return; }          /* the configuration model does not define this case */
	if (nexp == 0) {
		static char after[1 << 15]; sd_dump(after, sizeof after);
		if (rc != 1) { char fn[64]; size_t fl = strcspn(what, "("); if (fl > 63) fl = 63; memcpy(fn, what, fl); fn[fl] = 0;
			char cls[240]; snprintf(cls, sizeof cls, "accepted-invalid-command cmd=%s: a command naming unknown/disconnected equipment, an undefined aspect or an out-of-range value did not return 1", fn);
			res_violation(cls, "%s: returned %d, %d message(s) sent", what, rc, got); }
		else if (got != 0 || vx_send_buffer_index() != 0) res_violation("rejected-command-sent-something: a rejected command submitted a message", "%s: %d message(s)", what, got);
		else if (strcmp(before, after)) { size_t k = 0; while (before[k] && before[k] == after[k]) k++; size_t st = k > 60 ? k - 60 : 0;
			res_violation("rejected-command-changed-state: a rejected command changed the tracked state", "%s: before ...%.120s | after ...%.120s", what, before + st, after + st); }
		logpos = SB.nlog; return;
	}
	naccepted++;
	if (rc != 0) { res_violation("rejected-valid-command: a command naming configured, connected equipment returned 1", "%s: returned %d", what, rc); logpos = SB.nlog; return; }
	int ok = got == nexp;
	for (int i = 0; ok && i < nexp; i++) { int li = logpos + i;
		if (memcmp(exp[i].addr, SB.log[li].addr, 4) || exp[i].type != SB.log[li].type || exp[i].dlen != SB.log[li].dlen || memcmp(exp[i].data, SB.log[li].data, (size_t) exp[i].dlen)) ok = 0; }
	if (!ok) {
		char w[400]; size_t o = 0; w[0] = 0;
		for (int i = logpos; i < SB.nlog && o + 60 < sizeof w; i++) o += (size_t) snprintf(w + o, sizeof w - o, "[%02x.%02x.%02x %02x %s] ", SB.log[i].addr[0], SB.log[i].addr[1], SB.log[i].addr[2], SB.log[i].type, hx_hex(SB.log[i].data, (size_t) SB.log[i].dlen));
		char fn[64]; size_t fl = strcspn(what, "("); if (fl > 63) fl = 63; memcpy(fn, what, fl); fn[fl] = 0;
		char cls[240]; snprintf(cls, sizeof cls, "wrong-messages cmd=%s type=%02x: the command did not submit exactly the messages the configuration prescribes", fn, exp[0].type);
		res_violation(cls, "%s: sent %s expected first [%02x.%02x.%02x %02x %s] (%d message(s))", what, w, exp[0].addr[0], exp[0].addr[1], exp[0].addr[2], exp[0].type, hx_hex(exp[0].data, (size_t) exp[0].dlen), nexp);
	}
	logpos = SB.nlog;
}
static char before[1 << 15];
static void pre(void) { vs_sleep_us(2500000); hx_quiesce(); sd_dump(before, sizeof before); }

static void cmd_accessory(int kind /*0 point 1 signal*/, const char *id, const char *aspect) {
	cm_msg_t exp[4]; int n = -1; char what[160];
	snprintf(what, sizeof what, "%s(%s, %s)", kind ? "bidib_set_signal" : "bidib_switch_point", id ? id : "NULL", aspect ? aspect : "NULL");
	if (!id || !aspect) n = 0; else { n = cm_ref_board_accessory(&M, !kind, id, aspect, exp); if (n < 0) n = cm_ref_dcc_accessory(&M, !kind, id, aspect, exp); if (n < 0) n = 0; }
	pre(); int rc = kind ? bidib_set_signal(id, aspect) : bidib_switch_point(id, aspect);
	verdict(what, rc, n, exp, before);
	if (n > 0 && exp[0].type == MSG_CS_ACCESSORY && !res_nviol()) {       /* optimistic state of a DCC accessory */
		t_bidib_unified_accessory_state_query q = kind ? bidib_get_signal_state(id) : bidib_get_point_state(id);
		if (!q.known || q.type != BIDIB_ACCESSORY_DCC || !q.dcc_accessory_state.state_id || strcmp(q.dcc_accessory_state.state_id, aspect))
			res_violation("optimistic-state-wrong: the tracked state does not reflect the command just submitted", "%s: reported aspect %s", what, q.known && q.dcc_accessory_state.state_id ? q.dcc_accessory_state.state_id : "(none)");
		bidib_free_unified_accessory_state_query(q);
	}
}
static void cmd_peripheral(const char *id, const char *aspect) {
	cm_msg_t exp[2]; char what[160]; snprintf(what, sizeof what, "bidib_set_peripheral(%s, %s)", id ? id : "NULL", aspect ? aspect : "NULL");
	int n = (!id || !aspect) ? 0 : cm_ref_peripheral(&M, id, aspect, exp);
	pre(); int rc = bidib_set_peripheral(id, aspect); verdict(what, rc, n, exp, before);
}
static int tidx(const char *train) { for (int t = 0; t < M.nt; t++) if (train && !strcmp(M.t[t].id, train)) return t; return -1; }
static void check_train_state(const char *what, int t) {
	t_bidib_train_state_query q = bidib_get_train_state(M.t[t].id);
	if (!q.known) { res_violation("optimistic-state-wrong: the tracked state does not reflect the command just submitted", "%s: train unknown", what); return; }
	int bad = q.data.set_speed_step != TS[t].speed || (TS[t].fwd >= 0 && q.data.set_is_forwards != (bool) TS[t].fwd);
	for (size_t k = 0; k < q.data.peripheral_cnt && !bad; k++) for (int j = 0; j < M.t[t].nper; j++) if (!strcmp(q.data.peripherals[k].id, M.t[t].per[j].id) && q.data.peripherals[k].state != ((TS[t].fb >> M.t[t].per[j].bit) & 1)) bad = 1;
	if (bad) res_violation("optimistic-state-wrong: the tracked state does not reflect the command just submitted", "%s: reported step=%d fwd=%d, expected step=%d fwd=%d functions=%08x", what, q.data.set_speed_step, q.data.set_is_forwards, TS[t].speed, TS[t].fwd, TS[t].fb);
	bidib_free_train_state_query(q);
}
static void cmd_speed(const char *train, int speed, const char *to) {
	cm_msg_t exp[2], alt[2]; char what[160]; snprintf(what, sizeof what, "bidib_set_train_speed(%s, %d, %s)", train ? train : "NULL", speed, to ? to : "NULL");
	int t = tidx(train); int n = (!train || !to) ? 0 : cm_ref_train_speed(&M, train, speed, to, t >= 0 && TS[t].fwd != 0, exp);
	pre(); int rc = bidib_set_train_speed(train, speed, to);
	if (n > 0 && speed == 0 && TS[t].fwd < 0) {   /* direction unknown after an emergency stop: either encoding is fine */
		cm_ref_train_speed(&M, train, speed, to, 0, alt);
		if (SB.nlog > logpos || 1) { bidib_flush(); hx_quiesce(); if (SB.nlog - logpos == 1 && SB.log[logpos].dlen == 9 && SB.log[logpos].data[4] == alt[0].data[4]) { exp[0] = alt[0]; TS[t].fwd = 0; } else TS[t].fwd = 1; }
	}
	verdict(what, rc, n, exp, before);
	if (n > 0 && !res_nviol()) { TS[t].speed = speed; if (speed) TS[t].fwd = speed > 0; check_train_state(what, t); }
}
static void cmd_calibrated(const char *train, int level, const char *to) {
	cm_msg_t exp[2]; char what[160]; snprintf(what, sizeof what, "bidib_set_calibrated_train_speed(%s, %d, %s)", train ? train : "NULL", level, to ? to : "NULL");
	int t = tidx(train); int n = 0, speed = 0;
	if (train && to && t >= 0 && level >= -9 && level <= 9 && M.t[t].ncal == 9) { speed = level == 0 ? 0 : (level > 0 ? M.t[t].cal[level - 1] : -M.t[t].cal[-level - 1]); n = cm_ref_train_speed(&M, train, speed, to, TS[t].fwd != 0, exp); }
	if (n > 0 && speed == 0 && TS[t].fwd < 0) n = -1;
	pre(); int rc = bidib_set_calibrated_train_speed(train, level, to); verdict(what, rc, n, exp, before);
	if (n > 0 && !res_nviol()) { TS[t].speed = speed; if (speed) TS[t].fwd = speed > 0; check_train_state(what, t); }
}
static void cmd_estop(const char *train, const char *to) {
	cm_msg_t exp[2]; char what[160]; snprintf(what, sizeof what, "bidib_emergency_stop_train(%s, %s)", train ? train : "NULL", to ? to : "NULL");
	int t = tidx(train); int n = (!train || !to) ? 0 : cm_ref_train_speed(&M, train, 0, to, 1, exp);
	if (n > 0) exp[0].data[4] = (uint8_t) ((exp[0].data[4] & 0x80) | 0x01);       /* DCC speed code 1 = emergency stop */
	pre(); int rc = bidib_emergency_stop_train(train, to);
	if (n > 0) { bidib_flush(); hx_quiesce(); if (SB.nlog - logpos == 1 && SB.log[logpos].dlen == 9 && (SB.log[logpos].data[4] & 0x7F) == 1) exp[0].data[4] = SB.log[logpos].data[4]; }  /* direction bit of an emergency stop is not prescribed */
	verdict(what, rc, n, exp, before);
	if (n > 0 && !res_nviol()) { TS[t].speed = 0; TS[t].fwd = -1; check_train_state(what, t); }
}
static void cmd_function(const char *train, const char *per, int state, const char *to) {
	cm_msg_t exp[2]; char what[200]; snprintf(what, sizeof what, "bidib_set_train_peripheral(%s, %s, %d, %s)", train ? train : "NULL", per ? per : "NULL", state, to ? to : "NULL");
	int t = tidx(train); int n = (!train || !per || !to) ? 0 : cm_ref_train_peripheral(&M, train, per, state, to, t >= 0 ? TS[t].fb : 0, exp);
	pre(); int rc = bidib_set_train_peripheral(train, per, (uint8_t) state, to); verdict(what, rc, n, exp, before);
	if (n > 0 && !res_nviol()) { for (int k = 0; k < M.t[t].nper; k++) if (!strcmp(M.t[t].per[k].id, per)) TS[t].fb = (TS[t].fb & ~(1u << M.t[t].per[k].bit)) | ((uint32_t) state << M.t[t].per[k].bit); check_train_state(what, t); }
}
static void cmd_booster(const char *id, int on) {
	cm_msg_t exp[2]; char what[120]; snprintf(what, sizeof what, "bidib_set_booster_power_state(%s, %d)", id ? id : "NULL", on);
	int b = id ? cm_find_board(&M, id) : -1; int n = 0;
	if (b >= 0 && cm_board_connected(&M, b) && cm_is_booster(&M.b[b])) { cm_board_addr(&M, b, exp[0].addr); exp[0].type = on ? MSG_BOOST_ON : MSG_BOOST_OFF; exp[0].data[0] = 1; exp[0].dlen = 1; n = 1; }
	pre(); int rc = bidib_set_booster_power_state(id, on); verdict(what, rc, n, exp, before);
}
static void cmd_track_output(const char *id, int state) {
	cm_msg_t exp[2]; char what[120]; snprintf(what, sizeof what, "bidib_set_track_output_state(%s, 0x%02x)", id ? id : "NULL", state);
	int b = id ? cm_find_board(&M, id) : -1; int n = 0;
	int legal = state <= 4 || state == 8 || state == 9 || state == 0x0D || state == 0xFF;
	if (b >= 0 && cm_board_connected(&M, b) && cm_is_track_output(&M.b[b]) && legal) { cm_board_addr(&M, b, exp[0].addr); exp[0].type = MSG_CS_SET_STATE; exp[0].data[0] = (uint8_t) state; exp[0].dlen = 1; n = 1; }
	pre(); int rc = bidib_set_track_output_state(id, (t_bidib_cs_state) state); verdict(what, rc, n, exp, before);
}
/* administrative commands: one request to the named board */
static void cmd_admin(int kind, const char *id, int arg) {
	static const char *KN[4] = {"bidib_ping", "bidib_identify", "bidib_get_protocol_version", "bidib_get_software_version"};
	cm_msg_t exp[2]; char what[120]; snprintf(what, sizeof what, "%s(%s%s%d)", KN[kind], id ? id : "NULL", kind < 2 ? ", " : "", kind < 2 ? arg : 0);
	int b = id ? cm_find_board(&M, id) : -1; int n = 0;
	if (b >= 0 && cm_board_connected(&M, b)) { cm_board_addr(&M, b, exp[0].addr); exp[0].dlen = 0; n = 1;
		switch (kind) { case 0: exp[0].type = MSG_SYS_PING; exp[0].data[0] = (uint8_t) arg; exp[0].dlen = 1; break;
		case 1: exp[0].type = MSG_SYS_IDENTIFY; exp[0].data[0] = (uint8_t) arg; exp[0].dlen = 1; if (arg > 1) n = -1; break;      /* identify state other than 0/1: not defined */
		case 2: exp[0].type = MSG_SYS_GET_P_VERSION; break; default: exp[0].type = MSG_SYS_GET_SW_VERSION; break; } }
	pre(); int rc = kind == 0 ? bidib_ping(id, (uint8_t) arg) : kind == 1 ? bidib_identify(id, (uint8_t) arg) : kind == 2 ? bidib_get_protocol_version(id) : bidib_get_software_version(id);
	verdict(what, rc, n, exp, before);
}
/* reverser state request: MSG_VENDOR_GET with the configured CV name to the owning board */
static void cmd_reverser(const char *rev, const char *board) {
	cm_msg_t exp[2]; char what[160]; snprintf(what, sizeof what, "bidib_request_reverser_state(%s, %s)", rev ? rev : "NULL", board ? board : "NULL");
	int n = 0; int b = board ? cm_find_board(&M, board) : -1;
	if (rev && b >= 0 && cm_board_connected(&M, b)) { int owner = -1, k = -1; for (int i = 0; i < M.nb; i++) for (int j = 0; j < M.b[i].nrev; j++) if (!strcmp(M.b[i].rev[j].id, rev)) { owner = i; k = j; }
		if (owner == b) { cm_board_addr(&M, b, exp[0].addr); exp[0].type = MSG_VENDOR_GET; size_t l = strlen(M.b[b].rev[k].cv); exp[0].data[0] = (uint8_t) l; memcpy(exp[0].data + 1, M.b[b].rev[k].cv, l); exp[0].dlen = 1 + (int) l; n = 1; }
		else if (owner >= 0) n = -1; }      /* a reverser named together with a board that does not own it: not prescribed */
	pre(); int rc = bidib_request_reverser_state(rev, board);
	if (n == 1) { bidib_flush(); hx_quiesce(); sd_dump(before, sizeof before); }       /* the request marks the reverser state unknown: not part of the comparison */
	verdict(what, rc, n, exp, before);
}
static void cmd_track_output_all(int state) {
	cm_msg_t exp[4]; char what[80]; snprintf(what, sizeof what, "bidib_set_track_output_state_all(0x%02x)", state); int n = 0;
	for (int b = 0; b < M.nb; b++) if (cm_board_connected(&M, b) && cm_is_track_output(&M.b[b])) { cm_board_addr(&M, b, exp[n].addr); exp[n].type = MSG_CS_SET_STATE; exp[n].data[0] = (uint8_t) state; exp[n].dlen = 1; n++; }
	pre(); bidib_set_track_output_state_all((t_bidib_cs_state) state);
	if (n == 0) { bidib_flush(); hx_quiesce(); if (SB.nlog != logpos) res_violation("rejected-command-sent-something: a rejected command submitted a message", "%s with no connected track output", what); logpos = SB.nlog; ncmds++; return; }
	verdict(what, 0, n, exp, before);
}
static void sweep_child(const void *job, size_t n) {
	vs_dev_t devs[VS_MAXDEV]; int nd; size_t pl; const uint8_t *p = job_parse(job, n, devs, &nd, &pl);
	int presence = p[0] & 7, lose = p[0] >> 3, part = p[1], thorough = p[2];
	begin(presence, lose);
	static const char *BOARDS[] = {"master", "oc1", "lc1", "booster2", "nosuch", NULL};
	if (part == 0) {
		static const char *ACC[] = {"pointd", "point1", "point2", "signald", "signal1", "led1", "nosuch", NULL};
		static const char *ASP[] = {"normal", "reverse", "stop", "go", "green", "red", "on", "off", "undefined-aspect", NULL};
		for (int kind = 0; kind < 2; kind++) for (int i = 0; i < 8; i++) for (int a = 0; a < 10; a++) { cmd_accessory(kind, ACC[i], ASP[a]); if (res_nviol() > 3) goto out; }
		static const char *PER[] = {"led1", "led2", "point1", "nosuch", NULL};
		for (int i = 0; i < 5; i++) for (int a = 0; a < 10; a++) { cmd_peripheral(PER[i], ASP[a]); if (res_nviol() > 3) goto out; }
		for (int b = 0; b < 6; b++) { cmd_booster(BOARDS[b], 1); cmd_booster(BOARDS[b], 0); }
		static const int CS[] = {0, 1, 2, 3, 4, 5, 7, 8, 9, 0x0D, 0x10, 0xFF};
		for (int b = 0; b < 6; b++) for (int s = 0; s < 12; s++) { cmd_track_output(BOARDS[b], CS[s]); if (res_nviol() > 3) goto out; }
		cmd_track_output_all(0x03); cmd_track_output_all(0x02); cmd_track_output_all(0x00);
		for (int b = 0; b < 6; b++) { for (int v = 0; v < 256; v += (b == 0 ? 1 : 51)) cmd_admin(0, BOARDS[b], v); cmd_admin(1, BOARDS[b], 0); cmd_admin(1, BOARDS[b], 1); cmd_admin(1, BOARDS[b], 2); cmd_admin(2, BOARDS[b], 0); cmd_admin(3, BOARDS[b], 0); if (res_nviol() > 3) goto out; }
		{ static const char *REVS[] = {"rev1", "nosuch", "point1", NULL}; for (int r = 0; r < 4; r++) for (int b = 0; b < 6; b++) {
			/* the reverser reports a state first: a rejected request must leave a KNOWN state alone (after start-up it is unknown anyway) */
			if (cm_board_connected(&M, 0)) { uint8_t v[8] = {5, '3', '0', '0', '5', '1', 1, (uint8_t) ('0' + (b & 1))}; sb_send(M.b[0].sbnode, MSG_VENDOR, v, 8); vs_point(); hx_quiesce(); uint8_t *um; while ((um = bidib_read_message())) free(um); logpos = SB.nlog; }
			cmd_reverser(REVS[r], BOARDS[b]); } }
	} else {
		static const char *TR[] = {"train1", "train2", "nosuch", NULL};
		int t = (part - 1) % 4, b0 = (part - 1) / 4;   /* one child per (train, board) pair */
		const char *train = TR[t < 3 ? t : 3], *to = BOARDS[b0];
		int step = thorough ? 1 : 1;
		for (int s = -127; s <= 127; s += step) { cmd_speed(train, s, to); if (res_nviol() > 3) goto out; }
		cmd_speed(train, 1000, to); cmd_speed(train, -1000, to); cmd_speed(train, 0, to);
		/* out-of-range values far from the boundary: every value up to +-1300 on the first track output (values whose low byte or
		 * low 16 bits look like a legal speed), and the same residues around 2^15, 2^16, 2^31 */
		if (b0 == 0 && t < 2) { for (int s = 128; s <= 1300; s++) { cmd_speed(train, s, to); cmd_speed(train, -s, to); if (res_nviol() > 3) goto out; }
			static const long BASE[] = {32768, 65536, 16777216, 2147483392L /* 2^31 - 256 */};
			for (int k = 0; k < 4; k++) for (int r = 0; r <= 255; r += 5) { long v = BASE[k] + r; if (v <= 2147483647L) cmd_speed(train, (int) v, to); cmd_speed(train, (int) -v, to); if (res_nviol() > 3) goto out; }
			cmd_speed(train, 2147483647, to); cmd_speed(train, -2147483647 - 1, to); cmd_speed(train, 0, to); }
		for (int l = -10; l <= 10; l++) { cmd_calibrated(train, l, to); if (res_nviol() > 3) goto out; }
		cmd_estop(train, to); cmd_speed(train, 0, to); cmd_speed(train, -5, to); cmd_speed(train, 0, to); cmd_estop(train, to);
		static const char *PER[] = {"head_light", "cabin_light", "horn", "light", "nosuch", NULL};
		for (int k = 0; k < 6; k++) for (int st = 0; st < 3; st++) { cmd_function(train, PER[k], st, to); if (res_nviol() > 3) goto out; }
		for (int k = 0; k < 4; k++) { cmd_function(train, PER[k], 1, to); cmd_function(train, PER[(k + 1) % 4], 1, to); cmd_function(train, PER[k], 0, to); }
	}
out:
	hx_emit_ledger_violations("C09");
	{ hx_hash_t h; hx_hash_init(&h); static char fin[1 << 15]; sd_dump(fin, sizeof fin); hx_hash_str(&h, fin);       /* outcome = everything sent + final tracked state */
	  for (int i = 0; i < SB.nlog; i++) { hx_hash_add(&h, SB.log[i].addr, 4); hx_hash_add(&h, &SB.log[i].type, 1); hx_hash_add(&h, SB.log[i].data, (size_t) SB.log[i].dlen); }
	  res_printf("O %llx %llx\nC commands %ld\nC commands_accepted_by_reference %ld\n", (unsigned long long) h.a + p[0] * 1000ull, (unsigned long long) h.b + p[1] * 1000ull, ncmds, naccepted); }
	res_finish();
}
static size_t sweep_gen(long idx, uint8_t *payload, char *human, size_t hn) {
	static const uint8_t VAR[5] = {7, 6, 5, 3, 7 | 8};    /* presence masks (oc1, lc1, booster2); last: lc1 lost after start-up */
	int v = (int) (idx / 25), part = (int) (idx % 25);
	payload[0] = VAR[v]; payload[1] = (uint8_t) part; payload[2] = 0;
	snprintf(human, hn, "present(oc1,lc1,booster2)=%d%d%d%s part=%d", VAR[v] & 1, (VAR[v] >> 1) & 1, (VAR[v] >> 2) & 1, VAR[v] & 8 ? " lc1-lost-after-start" : "", part);
	return 3;
}
/* ---------------------------------------------------------------- function groups: every ordered pair of function slots */
static void groups_child(const void *job, size_t n) {
	vs_dev_t devs[VS_MAXDEV]; int nd; size_t pl; const uint8_t *p = job_parse(job, n, devs, &nd, &pl);
	int pi = p[0]; const char *to = p[1] ? "booster2" : "master";
	with_function_train = 1; begin(7, 0);
	const cm_train_t *t = cm_train(&M, "train3"); if (!t || pi >= t->nper) res_infra("no function train");
	const char *P = t->per[pi].id;
	/* first a drive command that carries SEVERAL function groups at once (the public low-level call; a handheld taking over sends
	 * the same as MSG_CS_DRIVE_MANUAL): the tracked state of every group must follow, which the pair catalogue below then
	 * shows on the wire — each later command re-sends its whole group from the tracked state */
	if (pi % 2) { t_bidib_node_address na = {0, 0, 0}; if (p[1]) { uint8_t a4[4]; cm_board_addr(&M, 3, a4); na.top = a4[0]; na.sub = a4[1]; na.subsub = a4[2]; }
		uint32_t pat = (pi & 2) ? 0xAAAAAAAAu : 0x55555555u, valid = 0; for (int k = 0; k < t->nper; k++) valid |= 1u << t->per[k].bit; pat &= valid;
		t_bidib_cs_drive_mod dp; memset(&dp, 0, sizeof dp); dp.dcc_address.addrl = t->addrl; dp.dcc_address.addrh = t->addrh; dp.dcc_format = 3; dp.active = 0x3E; dp.speed = 0;
		dp.function1 = (uint8_t) pat; dp.function2 = (uint8_t) (pat >> 8); dp.function3 = (uint8_t) (pat >> 16); dp.function4 = (uint8_t) (pat >> 24);
		bidib_send_cs_drive(na, dp, 0); bidib_flush(); hx_quiesce(); logpos = SB.nlog;
		int ti = tidx("train3"); TS[ti].fb = pat; check_train_state("bidib_send_cs_drive with five function groups active", ti); }
	for (int qi = 0; qi < t->nper; qi++) { if (qi == pi) continue; const char *Q = t->per[qi].id;
		cmd_function("train3", P, 1, to); cmd_function("train3", Q, 1, to); cmd_function("train3", P, 0, to); cmd_function("train3", Q, 0, to);
		if (res_nviol() > 3) goto out; }
	for (int qi = 0; qi < t->nper; qi++) cmd_function("train3", t->per[qi].id, 1, to);
	cmd_function("train3", P, 0, to); cmd_function("train3", P, 1, to); cmd_speed("train3", 20, to); cmd_function("train3", P, 0, to);
	for (int qi = t->nper - 1; qi >= 0 && res_nviol() <= 3; qi--) cmd_function("train3", t->per[qi].id, 0, to);
out:
	hx_emit_ledger_violations("C09");
	{ hx_hash_t h; hx_hash_init(&h); static char fin[1 << 15]; sd_dump(fin, sizeof fin); hx_hash_str(&h, fin);       /* outcome = everything sent + final tracked state */
	  for (int i = 0; i < SB.nlog; i++) { hx_hash_add(&h, SB.log[i].addr, 4); hx_hash_add(&h, &SB.log[i].type, 1); hx_hash_add(&h, SB.log[i].data, (size_t) SB.log[i].dlen); }
	  res_printf("O %llx %llx\nC commands %ld\nC commands_accepted_by_reference %ld\n", (unsigned long long) h.a + p[0] * 1000ull, (unsigned long long) h.b + p[1] * 1000ull, ncmds, naccepted); }
	res_finish();
}
static size_t groups_gen(long idx, uint8_t *payload, char *human, size_t hn) {
	payload[0] = (uint8_t) (idx / 2); payload[1] = (uint8_t) (idx % 2);
	snprintf(human, hn, "function slot #%d of train3 against every other slot, via %s", (int) (idx / 2), idx % 2 ? "booster2" : "master"); return 2;
}
/* ---------------------------------------------------------------- histories */
#define H_N 12
static const char *HNAME[H_N] = {"head_light=1", "head_light=0", "cabin_light=1", "cabin_light=0", "horn=1", "horn=0", "speed +10", "speed 0", "speed -10", "emergency stop", "head_light=1 via booster2", "speed 0 via booster2"};
static const char *hevname(int ev) { return HNAME[ev]; }
static void hist_child(const void *job, size_t n) {
	vs_dev_t devs[VS_MAXDEV]; int nd; size_t pl; const uint8_t *p = job_parse(job, n, devs, &nd, &pl);
	int len = p[1]; const uint8_t *ev = p + 2;
	begin(7, 0);
	for (int i = 0; i < len; i++) {
		switch (ev[i]) {
		case 0: cmd_function("train1", "head_light", 1, "master"); break; case 1: cmd_function("train1", "head_light", 0, "master"); break;
		case 2: cmd_function("train1", "cabin_light", 1, "master"); break; case 3: cmd_function("train1", "cabin_light", 0, "master"); break;
		case 4: cmd_function("train1", "horn", 1, "master"); break; case 5: cmd_function("train1", "horn", 0, "master"); break;
		case 6: cmd_speed("train1", 10, "master"); break; case 7: cmd_speed("train1", 0, "master"); break; case 8: cmd_speed("train1", -10, "master"); break;
		case 9: cmd_estop("train1", "master"); break; case 10: cmd_function("train1", "head_light", 1, "booster2"); break; case 11: cmd_speed("train1", 0, "booster2"); break;
		}
		if (res_nviol() && i < len - 1) res_infra("violation before the last event");
	}
	hx_emit_ledger_violations("C09");
	static char dump[1 << 15]; size_t o = sd_dump(dump, sizeof dump); o += (size_t) snprintf(dump + o, sizeof dump - o, "ref %08x %d %d", TS[0].fb, TS[0].speed, TS[0].fwd);
	hx_hash_t h; hx_hash_init(&h); hx_hash_add(&h, dump, o);
	res_printf("S %llx %llx\n", (unsigned long long) h.a, (unsigned long long) h.b);
	res_finish();
}
void c09_register(void) { harness_register("c09.sweep", sweep_child); harness_register("c09.hist", hist_child); harness_register("c09.groups", groups_child); }
int c09_run(const char *tier) {
	int thorough = !strcmp(tier, "thorough");
	ex_spec_t e = { .harness = "c09.sweep", .ncases = 5 * 25, .gen = sweep_gen, .label = "c09.sweep" };
	ex_map(&e);
	ex_spec_t g = { .harness = "c09.groups", .ncases = 29 * 2, .gen = groups_gen, .label = "c09.groups" };
	ex_map(&g);
	uint8_t param[1] = {0}; const char *d = getenv("VERIF_DEPTH");
	e2_spec_t s = { .harness = "c09.hist", .param = param, .nparam = 1, .nevents = H_N, .max_depth = d ? atoi(d) : (thorough ? 8 : 5), .label = "c09.hist", .evname = hevname, .audit = thorough };
	e2_explore(&s);
	/* concurrent commands (harness shared with C10/H6): the messages and the optimistic state after two commands issued by
	 * two threads equal those of one of the two sequential orders — "other functions of the group preserved" must survive a
	 * concurrent command as well */
	{ extern void c10_run_lin(int bound, long *execs, long *states, long *transitions, int *exhaustive); long le = 0, ls = 0, lt = 0; int lex = 1;
	  c10_run_lin(thorough ? 2 : 1, &le, &ls, &lt, &lex); s.execs += le; s.states += ls; s.transitions += lt; if (!lex) s.exhaustive = 0; }
	rep_count("states", s.states + e.distinct_outcomes); rep_count("transitions", s.transitions + rep_get("commands")); rep_count("executions", s.execs + e.done + g.done);
	rep_flag("exhaustive", s.exhaustive && e.exhaustive && g.exhaustive);
	char sb[200]; size_t o = 0; for (int i = 0; i <= s.depth_completed + 1 && i < 16; i++) o += (size_t) snprintf(sb + o, sizeof sb - o, "%ld ", s.states_by_depth[i]);
	rep_note("function groups: %ld children = 29 function slots (bits 0-4, 8-31 of train3) x 2 track outputs, each slot against every other slot and against the full group; catalogue: %ld commands in %ld children (5 presence variants), %ld of them valid per the configuration model; histories: %d commands, depth %d, new states by depth: %s",
	         g.done, rep_get("commands"), e.done, rep_get("commands_accepted_by_reference"), H_N, s.depth_completed, sb);
	return 0;
}
