/* C16 — life cycle: safe shutdown sequence, threads joined exactly once, no leaks, restartable, session k == session 1.
 * E2 BFS over histories of start variants / stop / activity on the ASan+LSan build.
 *  start variants: debug (auto-flush off / 5 ms), normal with valid configuration and answering bus (auto-flush off / 5 ms),
 *                  normal with silent interface, normal with rejected configuration
 *  activity      : sends with an unflushed buffer, held messages and unread uplink messages (answered / unanswered) */
#include "../fw/explore.h"
#include "../fw/hx.h"
#include "../fw/simbus.h"
#include "../fw/cfgmodel.h"
#include "include/bidib.h"
#include <stdio.h>
#include <stdlib.h>
#include <string.h>

enum { E_S_DEBUG, E_S_DEBUG_AF, E_S_NORMAL, E_S_NORMAL_AF, E_S_SILENT, E_S_BADCFG, E_STOP, E_ACT, E_ACTLOST, E_N };
static const char *ENAME[E_N] = {"start(debug)", "start(debug,autoflush 5ms)", "start(normal)", "start(normal,autoflush 5ms)", "start(normal,silent interface)",
                                 "start(normal,rejected config)", "stop", "activity", "activity(unanswered)"};
static const char *evname(int ev) { return ENAME[ev]; }

static cm_model_t M; static int running_ref; static int cur_mode = -1; static int silent; static int lost_pings;
static int bus_hook(int node, const rc_msg_t *m) { (void) node; if (silent) return 1; if (lost_pings && m->type == MSG_SYS_PING) return 1; return 0; }
static const char *BADTRACK = "boards:\n  - id: master\n    segments:\n      - id: seg1\n        address: 0x00\n        length: 1cm\n      - id: seg1\n        address: 0x01\n        length: 1cm\n";

/* what a stop has to put on the wire, in order, for the boards that are connected */
#define FLOWCLS "shutdown-command-held-by-flow-control: a shutdown command to a track output whose response budget is exhausted by unanswered requests is held back and never transmitted"
static int flow_blocked;   /* a connected track output could not take a command when stop began (budget exhausted / messages held) */
static void check_stop(int log_from, int wr_from, int joined_before, int expect_traffic, const char *what) {
	/* every write of the shutdown traffic happened before any thread was joined */
	for (int i = wr_from; i < env_nwrites(); i++) if (env_writes()[i].joined_seen != joined_before) { res_violation("shutdown-write-after-join: shutdown traffic was written after an internal thread had been joined", "%s", what); break; }
	if (!expect_traffic) {
		for (int i = log_from; i < SB.nlog; i++) if (SB.log[i].type == MSG_CS_SET_STATE || SB.log[i].type == MSG_CS_DRIVE) { res_violation("shutdown-traffic-unexpected", "%s: type %02x although no track output is connected", what, SB.log[i].type); break; }
		return;
	}
	/* per connected track output: soft-stop, then a zero-speed/functions-off drive command for every train, then track-off;
	 * the order between different track outputs is not prescribed */
	for (int b = 0; b < M.nb; b++) if (cm_board_connected(&M, b) && cm_is_track_output(&M.b[b])) {
		uint8_t a[4]; cm_board_addr(&M, b, a);
		int phase = 0, drives = 0, seen_train[CM_MAXT] = {0}, bad = 0, total = 0;
		for (int i = log_from; i < SB.nlog && !bad; i++) {
			if (memcmp(SB.log[i].addr, a, 4) || (SB.log[i].type != MSG_CS_SET_STATE && SB.log[i].type != MSG_CS_DRIVE)) continue;
			if (phase == 0 && !(SB.log[i].type == MSG_CS_SET_STATE && SB.log[i].dlen == 1 && SB.log[i].data[0] == 0x02)) continue;   /* user traffic that was still pending goes out first */
			total++;
			if (SB.log[i].type == MSG_CS_SET_STATE && SB.log[i].dlen == 1 && SB.log[i].data[0] == 0x02 && phase == 0) phase = 1;
			else if (SB.log[i].type == MSG_CS_DRIVE && SB.log[i].dlen == 9 && phase == 1) {
				int t = -1; for (int k = 0; k < M.nt; k++) if (M.t[k].addrl == SB.log[i].data[0] && M.t[k].addrh == SB.log[i].data[1]) t = k;
				static const uint8_t zero[6] = {0, 0, 0, 0, 0, 0};
				if (t < 0 || seen_train[t] || memcmp(SB.log[i].data + 3, zero, 6)) bad = 1; else { seen_train[t] = 1; drives++;
					/* a zero-speed command is one in the train's own speed-step format (14 / 28 / 126 steps), as every drive command for it */
					int fmt = M.t[t].steps == 126 ? 3 : M.t[t].steps == 28 ? 2 : 0;
					if (SB.log[i].data[2] != fmt) res_violation("shutdown-command-format: the zero-speed command of a train is not in the train's configured speed-step format", "%s: board %s, train %s (%d steps): format byte %02x, expected %02x", what, M.b[b].id, M.t[t].id, M.t[t].steps, SB.log[i].data[2], fmt); }
			}
			else if (SB.log[i].type == MSG_CS_SET_STATE && SB.log[i].dlen == 1 && SB.log[i].data[0] == 0x00 && phase == 1 && drives == M.nt) phase = 2;
			else bad = 1;
			if (bad) res_violation(flow_blocked ? FLOWCLS : "shutdown-sequence-wrong: a track output did not get soft-stop, then zero speed with functions off for every train, then track-off", "%s: board %s: unexpected %02x %s", what, M.b[b].id, SB.log[i].type, hx_hex(SB.log[i].data, (size_t) SB.log[i].dlen));
		}
		if (!bad && phase != 2) res_violation(flow_blocked ? FLOWCLS : "shutdown-command-not-transmitted: a shutdown command did not reach the wire before the threads were stopped", "%s: board %s got %d of %d shutdown commands (soft-stop%s, %d of %d drive commands, track-off%s)", what, M.b[b].id, total, M.nt + 2, phase >= 1 ? "" : " missing", drives, M.nt, phase == 2 ? "" : " missing");
	}
}
static hx_hash_t sess_hash; static char sess_spec[64]; static int sess_open; static int wr_mark, log_mark;
static void sess_add(void) {
	for (int i = wr_mark; i < env_nwrites(); i++) hx_hash_add(&sess_hash, env_out() + env_writes()[i].off, env_writes()[i].len);
	wr_mark = env_nwrites();
}
static void do_stop(const char *what) {
	int log_from = SB.nlog, wr_from = env_nwrites(), jb = vs_threads_joined();
	int expect = running_ref && (cur_mode == E_S_NORMAL || cur_mode == E_S_NORMAL_AF);
	flow_blocked = 0;
	if (expect) for (int b = 0; b < M.nb; b++) if (cm_board_connected(&M, b) && cm_is_track_output(&M.b[b])) {
		uint8_t a[4]; cm_board_addr(&M, b, a); vx_node_info_t ni;
		if (vx_node_info(a, &ni) && (ni.n_deferred > 0 || ni.used + 7 > 48)) flow_blocked = 1; }
	bidib_stop(); hx_quiesce();
	if (bidib_running) res_violation("still-running-after-stop", "%s", what);
	if (running_ref) {
		check_stop(log_from, wr_from, jb, expect, what);
		if (vs_thread_live_unjoined()) { char d[600]; vs_describe_threads(d, sizeof d); res_violation("thread-not-joined: an internal thread was not joined by stop", "%s: %s", what, d); }
	} else if (env_nwrites() != wr_from || vs_threads_joined() != jb) res_violation("stop-while-stopped-had-effect", "%s", what);
	running_ref = 0;
}
static int apply(int ev, int idx) {
	char what[80]; snprintf(what, sizeof what, "event %d: %s", idx, ENAME[ev]);
	if (ev <= E_S_BADCFG) {
		int created = vs_threads_created(), wr = env_nwrites();
		if (running_ref) {      /* start while running does nothing */
			int rc = ev < E_S_NORMAL ? hx_start_debug(ev == E_S_DEBUG_AF ? 5 : 0) : hx_start_normal(ev == E_S_NORMAL_AF ? 5 : 0); hx_quiesce();
			if (rc != 0 || vs_threads_created() != created || env_nwrites() != wr) res_violation("start-while-running-had-effect", "%s: rc=%d threads %d->%d", what, rc, created, vs_threads_created());
			return 1;
		}
		cm_std(&M); silent = ev == E_S_SILENT; lost_pings = 0;
		/* seven trains: their zero-speed commands plus soft-stop and track-off need more than the 48-byte response budget of the
		 * command station, so the shutdown dialogue only completes if its answers are still credited while it runs */
		while (M.nt < 7) { cm_train_t *t = &M.t[M.nt]; memset(t, 0, sizeof *t); snprintf(t->id, sizeof t->id, "xtrain%d", M.nt); t->addrl = (uint8_t) (0x40 + M.nt); t->addrh = 0x00; t->steps = M.nt % 3 == 0 ? 14 : M.nt % 3 == 1 ? 126 : 28; M.nt++; }      /* every speed-step format, a 14-step train after others */
		cm_install(&M); SB.on_msg = bus_hook; SB.pkt_capacity = 100;
		if (ev == E_S_BADCFG) env_set_cfg(M.board_txt, BADTRACK, M.train_txt);
		if (sess_open) sess_open = 0;
		hx_hash_init(&sess_hash); wr_mark = env_nwrites(); log_mark = SB.nlog; snprintf(sess_spec, sizeof sess_spec, "%d", ev); sess_open = 1;
		int jb = vs_threads_joined(), log_from = SB.nlog, wr_from = env_nwrites();
		int rc = ev < E_S_NORMAL ? hx_start_debug(ev == E_S_DEBUG_AF ? 5 : 0) : hx_start_normal(ev == E_S_NORMAL_AF ? 5 : 0);
		hx_quiesce();
		int expect_rc = (ev == E_S_SILENT || ev == E_S_BADCFG) ? 1 : 0;
		if (rc != expect_rc) { char cls[100]; snprintf(cls, sizeof cls, "start-return-value: %s returned %d", ENAME[ev], rc); res_violation(cls, "%s", what); }
		cur_mode = ev; running_ref = rc == 0;
		if (rc != 0) {
			/* a failed start stops the library itself */
			if (bidib_running) res_violation("running-after-failed-start", "%s", what);
			if (vs_thread_live_unjoined()) { char d[600]; vs_describe_threads(d, sizeof d); res_violation("thread-not-joined: an internal thread was not joined by stop", "%s (failed start): %s", what, d); }
			(void) jb; (void) log_from; (void) wr_from;
			sess_add(); sess_open = 0;
		}
		return 1;
	}
	if (ev == E_STOP) {
		do_stop(what);
		if (sess_open) { sess_add(); strncat(sess_spec, "s", sizeof sess_spec - strlen(sess_spec) - 1); sess_open = 2; }
		return 1;
	}
	/* activity */
	if (!running_ref) return 0;
	lost_pings = ev == E_ACTLOST;
	t_bidib_node_address a = {0, 0, 0};
	for (int i = 0; i < 12; i++) bidib_send_sys_ping(a, (uint8_t) i, 0);
	hx_quiesce();
	/* a burst of messages that need no answer (no flow control) and together exceed the default packet capacity: how it is
	 * cut into packets shows the packet capacity in force in THIS session (the sessions' downlink bytes are compared) */
	{ t_bidib_node_address quietnode = {5, 0, 0};      /* a node with nothing held or outstanding, so the burst is only cut by the packet capacity */
	  for (int i = 0; i < 12; i++) bidib_send_sys_clock(quietnode, (uint8_t) i, 0x80, 0x41, 0xC1, 0); }
	bidib_flush(); hx_quiesce();
	uint8_t d[2] = {1, 2}; sb_send(0, MSG_SYS_P_VERSION, d, 2); sb_send(0, MSG_NODE_NA, d, 1); vs_point(); hx_quiesce();
	if (cur_mode == E_S_NORMAL || cur_mode == E_S_NORMAL_AF) { bidib_set_train_speed("train1", 20, "master"); bidib_switch_point("point1", "reverse"); hx_quiesce(); }
	if (sess_open == 1) strncat(sess_spec, ev == E_ACT ? "a" : "l", sizeof sess_spec - strlen(sess_spec) - 1);
	return 1;
}
static void c16_child(const void *job, size_t n) {
	vs_dev_t devs[VS_MAXDEV]; int nd; size_t pl; const uint8_t *p = job_parse(job, n, devs, &nd, &pl);
	int len = p[1]; const uint8_t *ev = p + 2;
	hx_child_begin(NULL, 0, 0, NULL, 0, 0);
	sb_init(); running_ref = 0; sess_open = 0; cur_mode = -1;
	for (int i = 0; i < len; i++) {
		if (!apply(ev[i], i)) { if (i == len - 1) res_printf("N 1\n"); else res_infra("inapplicable event inside a history"); res_finish(); }
		hx_emit_san_events(ENAME[ev[i]]); hx_emit_ledger_violations("C16");
		if (sess_open == 2) { res_printf("H %d %s %llx\n", i, sess_spec, (unsigned long long) (sess_hash.a ^ sess_hash.b)); sess_open = 0;
			if (getenv("VERIF_IN_REPLAY")) res_printf("X session %s downlink so far: %zu bytes in %d writes, last 120: %s\n", sess_spec, env_out_len(), env_nwrites(), hx_hex(env_out() + (env_out_len() > 120 ? env_out_len() - 120 : 0), env_out_len() > 120 ? 120 : env_out_len())); }
		if (res_nviol() && i < len - 1) res_infra("violation before the last event");
	}
	if (vs_held_count(0)) { char h[200]; vs_held_desc(0, h, sizeof h); res_violation("lock-held-after-lifecycle-call", "main thread still holds %s", h); }
	if (!running_ref && len > 0) hx_leak_check("after the last stop / failed start");
	static char dump[1 << 15]; size_t o = 0; unsigned long hd[3] = {0, 0, 0};
	if (len > 0) { o = hx_dump_tx(dump, sizeof dump); vx_thread_handles(hd); }
	o += (size_t) snprintf(dump + o, sizeof dump - o, "run%d mode%d h%d,%d,%d sess%d cap%u", running_ref, running_ref ? cur_mode : -1, hd[0] != 0, hd[1] != 0, hd[2] != 0, sess_open, vx_pkt_max_cap());   /* handles as set/clear: the virtual handle VALUE depends on how many threads earlier sessions created (abstraction audit) */
	/* uplink bytes the library has not read yet (answers to the shutdown commands arrive after the receiver was stopped and
	 * are delivered to the next session): environment state that influences the future — found by the abstraction audit */
	o += (size_t) snprintf(dump + o, sizeof dump - o, " bus-silent=%d bus-drops-pings=%d", silent, lost_pings);    /* simulated bus mode (abstraction audit) */
	o += (size_t) snprintf(dump + o, sizeof dump - o, " pending-uplink="); o += env_input_dump(dump + o, sizeof dump - o);
	hx_hash_t h; hx_hash_init(&h); hx_hash_add(&h, dump, o);
	if (getenv("VERIF_IN_REPLAY")) res_printf("X %s\n", dump);
	res_printf("S %llx %llx\n", (unsigned long long) h.a, (unsigned long long) h.b);
	res_finish();
}
/* parent side: session k must put the same bytes on the wire as the same session executed first in a fresh process */
static struct { char spec[64]; unsigned long long hash; } first[512]; static int nfirst;
typedef struct { char spec[64]; unsigned long long hash; uint8_t job[64]; size_t jn; char human[400]; } later_t;
static later_t *later; static int nlater, caplater;
static void c16_on_result(const run_res_t *r, const uint8_t *hist, int len, const void *job, size_t jn, const char *human) {
	(void) hist; (void) len; const char *l;
	for (int i = 0; (l = res_line(r, 'H', i)); i++) {
		int pos; char spec[64]; unsigned long long hash;
		if (sscanf(l, "%d %63s %llx", &pos, spec, &hash) != 3) continue;
		int is_first = (pos + 1 == (int) strlen(spec) - 0) && 0;
		/* the session is the first one of its process iff it starts at event 0: pos+1 == number of events of the session */
		int sess_events = (int) strlen(spec);   /* one char per event: digit for the start, a/l per activity, s for stop */
		is_first = (pos + 1 == sess_events);
		if (is_first) { int k; for (k = 0; k < nfirst; k++) if (!strcmp(first[k].spec, spec)) break; if (k == nfirst && nfirst < 512) { snprintf(first[nfirst].spec, 64, "%s", spec); first[nfirst].hash = hash; nfirst++; } }
		else { if (nlater == caplater) { caplater = caplater ? caplater * 2 : 1024; later = realloc(later, sizeof(later_t) * (size_t) caplater); }
			later_t *x = &later[nlater++]; snprintf(x->spec, 64, "%s", spec); x->hash = hash; x->jn = jn < 64 ? jn : 64; memcpy(x->job, job, x->jn); snprintf(x->human, sizeof x->human, "%s", human); }
	}
}
void c16_register(void) { harness_register("c16.hist", c16_child); }
int c16_run(const char *tier) {
	int thorough = !strcmp(tier, "thorough");
	uint8_t param[1] = {0}; const char *d = getenv("VERIF_DEPTH");
	e2_spec_t s = { .harness = "c16.hist", .param = param, .nparam = 1, .nevents = E_N, .max_depth = d ? atoi(d) : (thorough ? 10 : 8), .label = "c16.hist", .evname = evname, .on_result = c16_on_result, .audit = thorough };
	nfirst = nlater = 0;
	e2_explore(&s);
	long compared = 0;
	for (int i = 0; i < nlater; i++) for (int k = 0; k < nfirst; k++) if (!strcmp(first[k].spec, later[i].spec)) { compared++;
		if (first[k].hash != later[i].hash) { char cls[160]; snprintf(cls, sizeof cls, "session-differs-from-first: a later session does not behave like the same session in a fresh process (session %s)", later[i].spec);
			rep_violation(cls, "downlink bytes of the session differ from those of the identical first session", "c16.hist", later[i].job, later[i].jn, later[i].human); } }
	rep_count("states", s.states); rep_count("transitions", s.transitions); rep_count("executions", s.execs); rep_count("depth_completed", s.depth_completed); rep_flag("exhaustive", s.exhaustive);
	char sb[200]; size_t o = 0; for (int i = 0; i <= s.depth_completed + 1 && i < 16; i++) o += (size_t) snprintf(sb + o, sizeof sb - o, "%ld ", s.states_by_depth[i]);
	rep_note("c16.hist: %d events, depth completed=%d, new states by depth: %s; later sessions compared with the identical first session: %ld", E_N, s.depth_completed, sb, compared);
	return 0;
}
