/* shared catalogue of single-message cases (used by C01 byte-level sweep and C02 loop-back) */
#ifndef C01_CASES_H
#define C01_CASES_H
#include <stdint.h>
#include <string.h>
#include <stdio.h>
#include "../fw/hx.h"
#include "include/bidib.h"
#define ZERO_RESP_TYPE MSG_SYS_CLOCK   /* worst-case answer 0 bytes: never touches the budget */
typedef struct { int depth; uint8_t addr[4]; uint8_t type; int dlen; uint8_t data[160]; } case_t;
static const uint8_t __attribute__((unused)) ALPHA[7] = {0x00, 0x01, 0xDD, 0xDE, 0xFD, 0xFE, 0xFF};
static const uint8_t SPEC3[3] = {0xFD, 0xFE, 0xFF};
static const uint8_t ASPEC[5] = {0x01, 0x7F, 0xFD, 0xFE, 0xFF};

static void set_addr(case_t *c, int depth, long salt) {
	memset(c->addr, 0, 4); c->depth = depth;
	for (int i = 0; i < depth; i++) c->addr[i] = (uint8_t) (1 + ((salt >> (3 * i)) + i * 7) % 200);
}
/* block sizes */
static long a1_count(void) { long per = 1 + 256 + 7 * 256 + 49 * 256; return 4 * per; }
static const int A2_LEN[4] = {4, 5, 6, 8};
static long a2_per_len(int dlen) { int p = dlen - 1; return ((long) p * (p - 1) / 2 * 9 + (long) p * 3) * 256; }
static long a2_count(void) { long s = 0; for (int i = 0; i < 4; i++) s += a2_per_len(A2_LEN[i]); return s; }
static long a3_count(void) { return 128 * 4 * 2; }
static long a4_count(void) { return (5 + 25 + 125) * 257L; }
static long bytes_total(void) { return a1_count() + a2_count() + a3_count() + a4_count(); }

static int gen_case(long idx, case_t *c) {   /* returns 1 if the case needs budget isolation (non-zero answer type) */
	memset(c, 0, sizeof *c); c->type = ZERO_RESP_TYPE;
	if (idx < a1_count()) {
		long per = a1_count() / 4; int depth = (int) (idx / per); long r = idx % per;
		set_addr(c, depth, idx);
		if (r == 0) { c->dlen = 0; return 0; }
		r -= 1;
		if (r < 256) { c->dlen = 1; c->data[0] = (uint8_t) r; return 0; }
		r -= 256;
		if (r < 7 * 256) { c->dlen = 2; c->data[0] = ALPHA[r / 256]; c->data[1] = (uint8_t) (r % 256); return 0; }
		r -= 7 * 256;
		c->dlen = 3; c->data[0] = ALPHA[r / 256 / 7]; c->data[1] = ALPHA[(r / 256) % 7]; c->data[2] = (uint8_t) (r % 256);
		return 0;
	}
	idx -= a1_count();
	if (idx < a2_count()) {
		int li = 0; while (idx >= a2_per_len(A2_LEN[li])) { idx -= a2_per_len(A2_LEN[li]); li++; }
		int dlen = A2_LEN[li], p = dlen - 1; long combo = idx / 256; int last = (int) (idx % 256);
		set_addr(c, 1 + (int) (combo % 3), combo);
		c->dlen = dlen; memset(c->data, 0x11, (size_t) dlen); c->data[dlen - 1] = (uint8_t) last;
		long npairs = (long) p * (p - 1) / 2 * 9;
		if (combo < npairs) {
			long pi = combo / 9; int v = (int) (combo % 9); int a = 0, b = 1;
			for (a = 0; a < p; a++) { int cnt = p - a - 1; if (pi < cnt) { b = a + 1 + (int) pi; break; } pi -= cnt; }
			c->data[a] = SPEC3[v / 3]; c->data[b] = SPEC3[v % 3];
		} else { long s = combo - npairs; c->data[s / 3] = SPEC3[s % 3]; }
		return 0;
	}
	idx -= a2_count();
	if (idx < a3_count()) {
		c->type = (uint8_t) (idx % 128); int depth = (int) ((idx / 128) % 4); c->dlen = (int) (idx / 512);
		set_addr(c, depth, idx); c->data[0] = 0x5A;
		return 1;
	}
	idx -= a3_count();
	{
		long combo = idx / 257; int sweep = (int) (idx % 257);
		int depth; if (combo < 5) depth = 1; else if (combo < 30) { depth = 2; combo -= 5; } else { depth = 3; combo -= 30; }
		c->depth = depth; memset(c->addr, 0, 4);
		for (int i = 0; i < depth; i++) { c->addr[i] = ASPEC[combo % 5]; combo /= 5; }
		if (sweep == 256) c->dlen = 0; else { c->dlen = 2; c->data[0] = 0x33; c->data[1] = (uint8_t) sweep; }
		return 0;
	}
}
static void human_case(const case_t *c, char *buf, size_t n) {
	snprintf(buf, n, "addr=%02x.%02x.%02x type=%02x data=%s", c->addr[0], c->addr[1], c->addr[2], c->type, hx_hex(c->data, (size_t) c->dlen));
}

#endif
