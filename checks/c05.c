/* C05 — per-node sequence numbers are consecutive in wire order under any interleaving.
 * E1: all schedules (preemption-bounded) of 2-3 sender threads (+ receiver releasing a deferred message),
 * incl. the 255->1 wrap.  Oracle: decode the wire with the independent codec, per destination the sequence
 * numbers are consecutive. */
#include "../fw/explore.h"
#include "../fw/hx.h"
#include "include/bidib.h"
#include <stdio.h>
#include <string.h>

static const t_bidib_node_address A = {1, 0, 0}, B = {2, 0, 0};
static const uint8_t ADDR_A[4] = {1, 0, 0, 0};
static int variant;

static void *t1_body(void *p) { (void) p;
	if (variant == 2) { bidib_send_sys_ping(A, 0x11, 0); return NULL; }
	bidib_send_sys_ping(A, 0x11, 0); bidib_send_sys_ping(A, 0x12, 0); return NULL; }
static void *t2_body(void *p) { (void) p;
	if (variant == 1) { bidib_send_sys_ping(A, 0x21, 0); bidib_send_sys_ping(B, 0x22, 0); return NULL; }
	if (variant == 2) { bidib_send_node_changed_ack(A, 0x21, 0); return NULL; }
	bidib_send_sys_ping(A, 0x21, 0); bidib_send_sys_ping(A, 0x22, 0); return NULL; }
static void *t3_body(void *p) { (void) p; bidib_send_node_changed_ack(A, 0x31, 0); bidib_send_sys_ping(A, 0x32, 0); return NULL; }

static void c05_child(const void *job, size_t n) {
	vs_dev_t devs[VS_MAXDEV]; int nd; size_t pl;
	const uint8_t *p = job_parse(job, n, devs, &nd, &pl);
	variant = p[0]; int nthreads = p[1];
	hx_child_begin(devs, nd, 1, NULL, 0, 0);
	if (hx_start_debug(0)) res_infra("start failed");
	hx_quiesce();
	int expected = 0;
	if (variant == 3) { for (int i = 0; i < 253; i++) bidib_send_node_changed_ack(A, (uint8_t) i, 0); expected += 253; }
	if (variant == 2) {
		for (int i = 0; i < 9; i++) bidib_send_sys_ping(A, (uint8_t) i, 0);
		expected += 9; bidib_flush();
		/* one PONG from A: the receiver will free 5 bytes and release deferred messages concurrently with the senders */
		uint8_t d = 0, m[16], f[40]; int ml = rc_build_msg(m, ADDR_A, 1, MSG_SYS_PONG, &d, 1);
		size_t fl = rc_frame(f, m, (size_t) ml, 1);
		env_push_quiet(f, fl);
	}
	bidib_flush();
	env_write_yields = 1;      /* a blocking write callback: the thread can be descheduled inside it */
	vs_window(1);
	int t1 = vs_spawn(t1_body, NULL), t2 = vs_spawn(t2_body, NULL), t3 = -1;
	if (nthreads >= 3) t3 = vs_spawn(t3_body, NULL);
	vs_join_tid(t1); vs_join_tid(t2); if (t3 >= 0) vs_join_tid(t3);
	vs_window(0);
	hx_quiesce();
	bidib_flush();
	expected += variant == 2 ? 2 : 4; if (nthreads >= 3) expected += 2;
	/* oracle */
	static rc_pkt_t pk[600]; char err[200];
	int np = rc_decode_strict(env_out(), env_out_len(), pk, 600, err, sizeof err);
	hx_hash_t h; hx_hash_init(&h);
	if (np < 0) res_violation("wire-malformed", "%s", err);
	else {
		int last[256]; memset(last, 0, sizeof last); int total = 0; char seqs[4096]; size_t so = 0; int bad = 0;
		for (int i = 0; i < np; i++) for (int j = 0; j < pk[i].nmsgs; j++) {
			rc_msg_t *m = &pk[i].msgs[j]; int key = m->addr[0]; total++;
			hx_hash_add(&h, m->raw, (size_t) m->rawlen);
			int exp = last[key] == 0 ? 1 : (last[key] == 255 ? 1 : last[key] + 1);
			if (total > (variant == 3 ? 250 : 0) && so + 16 < sizeof seqs) so += (size_t) snprintf(seqs + so, sizeof seqs - so, "%d:%d ", key, m->seq);
			if (m->seq != exp && !bad) bad = key;
			if (m->seq == 0) bad = key;
			last[key] = m->seq;
		}
		if (bad) res_violation("wire-reorder per-node sequence numbers not consecutive in wire order", "variant=%d dest=%d wire(dest:seq)= %s", variant, bad, seqs);
		if (total != expected) {
			vx_node_info_t ni; int def = vx_node_info(ADDR_A, &ni) ? ni.n_deferred : -1;
			if (!(variant == 2 && def > 0 && total + def == expected))   /* still deferred is legal when the answer raced */
				res_violation("message-count", "expected %d messages on the wire, found %d (deferred %d)", expected, total, def);
			hx_hash_add(&h, &def, sizeof def);
		}
	}
	hx_emit_ledger_violations("C05");
	res_printf("O %llx %llx\n", (unsigned long long) h.a, (unsigned long long) h.b);
	hx_emit_trace();
	res_finish();
}


/* ---------------------------------------------------------------- c05.hist (E2, normal mode against the simulated bus)
 * Histories of: commands to three boards, a burst that exhausts a node's budget (messages held, released by an answer from
 * the receiver thread), occupancy reports answered with SecAck mirrors by the receiver thread, node lost / node new, and
 * bidib_send_sys_reset.  Oracle on the decoded wire of the WHOLE session, per destination node and per numbering epoch
 * (session start, every MSG_SYS_RESET on the wire): 0* (connection probing) then 1,2,3,... with 255 -> 1; a 0 after
 * the first numbered message of an epoch, a gap, a repeat or a number out of order is a violation.  What a node that logs
 * in again (node new) must see first is not prescribed: continuing and restarting at 1 are both accepted. */
#include "../fw/simbus.h"
#include "../fw/cfg.h"
enum { H_PING_M, H_PING_O, H_PING_L, H_POINT, H_SPEED, H_RESET, H_LOST, H_NEW, H_BURST, H_ANSWER, H_OCC, H_TICK, H_LONG, H_UPSEQ1, H_N };
static const char *HN[H_N] = {"ping(master)", "ping(oc1)", "ping(lc1)", "switch_point(point1)", "set_train_speed(train1)", "sys_reset", "lost(lc1)", "new(lc1)", "burst-to-oc1(unanswered)", "answer(oc1)", "occ-report(master,SecAck)", "tick 2.5s", "long-message(oc1, larger than the packet capacity)", "uplink-from-oc1-numbered-1(out of sequence)"};
static const char *hevname(int e) { return HN[e]; }
static int hold_pings; static int h_hook(int node, const rc_msg_t *m) { return hold_pings && node == 1 && m->type == MSG_SYS_PING; }
static int lc1_present = 1, held_outstanding;
static void seq_oracle(const char *what) {
	struct { uint8_t addr[4]; int last; int numbered; int relogin; } N[16]; int nn = 0;
	for (int i = 0; i < SB.nlog; i++) {
		if (SB.log[i].type == MSG_SYS_RESET) { nn = 0; continue; }       /* new epoch for every node (the reset itself carries 0) */
		int k; for (k = 0; k < nn; k++) if (!memcmp(N[k].addr, SB.log[i].addr, 4)) break;
		if (k == nn) { if (nn >= 16) continue; memcpy(N[k].addr, SB.log[i].addr, 4); N[k].last = 0; N[k].numbered = 0; N[k].relogin = 0; nn++; }
		int s = SB.log[i].seq;
		if (s == 0) { if (N[k].numbered) { char cls[200]; snprintf(cls, sizeof cls, "sequence-zero-after-numbering: number 0 used outside connection probing"); res_violation(cls, "%s: message %d (type %02x) to %02x.%02x.%02x carries 0 after %d", what, i, SB.log[i].type, N[k].addr[0], N[k].addr[1], N[k].addr[2], N[k].last); } continue; }
		int exp = !N[k].numbered ? 1 : (N[k].last == 255 ? 1 : N[k].last + 1);
		if (s != exp && !(s == 1 && lc1_present && N[k].addr[0] == 2)) {
			char cls[200]; snprintf(cls, sizeof cls, "wire-reorder per-node sequence numbers not consecutive in wire order");
			char seqs[600]; size_t so = 0; for (int j = i > 12 ? i - 12 : 0; j <= i && so + 20 < sizeof seqs; j++) so += (size_t) snprintf(seqs + so, sizeof seqs - so, "%02x.%02x:%d ", SB.log[j].addr[0], SB.log[j].addr[1], SB.log[j].seq);
			res_violation(cls, "%s: destination %02x.%02x.%02x expected %d got %d (type %02x); recent wire (dest:seq) %s", what, N[k].addr[0], N[k].addr[1], N[k].addr[2], exp, s, SB.log[i].type, seqs); return; }
		N[k].numbered = 1; N[k].last = s;
	}
}
static int h_apply(int ev) {
	switch (ev) {
	case H_PING_M: bidib_ping("master", 1); break;
	case H_PING_O: bidib_ping("oc1", 2); break;
	case H_PING_L: if (!lc1_present) return 0; bidib_ping("lc1", 3); break;
	case H_POINT: bidib_switch_point("point1", "reverse"); break;
	case H_SPEED: bidib_set_train_speed("train1", 10, "master"); break;
	case H_RESET: hold_pings = 0; held_outstanding = 0; bidib_send_sys_reset(0); hx_quiesce(); vs_sleep_us(3500000); hx_quiesce(); break;
	case H_LOST: { if (!lc1_present) return 0; uint8_t d[9]; d[0] = ++SB.n[0].tab_version; d[1] = 2; memcpy(d + 2, UID_LC1, 7); SB.n[2].present = 0; lc1_present = 0; sb_send(0, MSG_NODE_LOST, d, 9); vs_point(); break; }
	case H_NEW: { if (lc1_present) return 0; uint8_t d[9]; d[0] = ++SB.n[0].tab_version; d[1] = 2; memcpy(d + 2, UID_LC1, 7); SB.n[2].present = 1; SB.n[2].seq = 1; lc1_present = 1; sb_send(0, MSG_NODE_NEW, d, 9); vs_point(); break; }
	case H_BURST: { if (held_outstanding) return 0; hold_pings = 1; t_bidib_node_address a = {1, 0, 0}; for (int i = 0; i < 11; i++) bidib_send_sys_ping(a, (uint8_t) i, 0); held_outstanding = 9; break; }
	case H_ANSWER: { if (!held_outstanding) return 0; uint8_t d = 0; held_outstanding--; sb_send(1, MSG_SYS_PONG, &d, 1); vs_point(); break; }
	case H_OCC: { uint8_t d = 1; sb_send(0, MSG_BM_OCC, &d, 1); vs_point(); break; }
	case H_TICK: vs_sleep_us(2500000); break;
	case H_UPSEQ1: { uint8_t d[3] = {0, 0, 0}; sb_send_from(SB.n[1].addr, 1, MSG_BM_CONFIDENCE, d, 3); vs_point(); break; }      /* e.g. the node's message 255 was lost and it wrapped, or its first message is repeated */
	case H_LONG: { t_bidib_node_address a = {1, 0, 0}; static uint8_t str[100]; memset(str, 'x', sizeof str); bidib_send_string_set(a, 0, 1, 100, str, 0); break; }     /* 106 bytes: more than the default packet capacity of 64 */
	}
	hx_quiesce(); bidib_flush(); hx_quiesce();
	uint8_t *m; while ((m = bidib_read_message())) free(m); while ((m = bidib_read_error_message())) free(m);
	return 1;
}
static void c05_hist_child(const void *job, size_t n) {
	vs_dev_t devs[VS_MAXDEV]; int nd; size_t pl; const uint8_t *p = job_parse(job, n, devs, &nd, &pl);
	int len = p[1]; const uint8_t *ev = p + 2;
	hx_child_begin(NULL, 0, 0, NULL, 0, 0);
	cfg_install_std(); SB.on_msg = h_hook; hold_pings = 0; lc1_present = 1; held_outstanding = 0;
	if (hx_start_normal(0)) res_infra("normal start failed");
	hx_quiesce(); vs_sleep_us(2500000); hx_quiesce();
	uint8_t *m; while ((m = bidib_read_message())) free(m); while ((m = bidib_read_error_message())) free(m);
	seq_oracle("after start-up");
	for (int i = 0; i < len; i++) {
		if (!h_apply(ev[i])) { if (i == len - 1) res_printf("N 1\n"); else res_infra("inapplicable event inside a history"); res_finish(); }
		seq_oracle(HN[ev[i]]);
		if (res_nviol() && i < len - 1) res_infra("violation before the last event");
	}
	hx_emit_ledger_violations("C05");
	static char dump[1 << 16]; size_t o = hx_dump_tx(dump, sizeof dump);
	o += (size_t) snprintf(dump + o, sizeof dump - o, " lc1=%d hold=%d out=%d simseq=%d,%d,%d v%d", lc1_present, hold_pings, held_outstanding, SB.n[0].seq, SB.n[1].seq, SB.n[2].seq, SB.n[0].tab_version);
	o += (size_t) snprintf(dump + o, sizeof dump - o, " pending="); o += env_input_dump(dump + o, sizeof dump - o);
	hx_hash_t h; hx_hash_init(&h); hx_hash_add(&h, dump, o);
	if (getenv("VERIF_IN_REPLAY")) { res_printf("X %s\n", dump); for (int i = 0; i < SB.nlog; i++) res_printf("X wire %d: %02x.%02x.%02x seq=%d type=%02x\n", i, SB.log[i].addr[0], SB.log[i].addr[1], SB.log[i].addr[2], SB.log[i].seq, SB.log[i].type); }
	res_printf("S %llx %llx\n", (unsigned long long) h.a, (unsigned long long) h.b);
	res_finish();
}
/* ---------------------------------------------------------------- c05.many: MANY deferred messages for one node
 * A held message already owns its number, so losing one leaves a gap.  Node 1.0.0 is stalled (or its budget exhausted), N
 * messages are submitted — N = 1, 2, 64, 127, 128, 129, 130, 200, 300 — then the stall is lifted / the answers arrive: all N reach
 * the wire with consecutive numbers, across the 255 -> 1 wrap.  (The exploration bounds of the other harnesses hold a handful.) */
static void many_child(const void *job, size_t n) {
	vs_dev_t devs[VS_MAXDEV]; int nd; size_t pl; const uint8_t *p = job_parse(job, n, devs, &nd, &pl);
	static const int NS[9] = {1, 2, 64, 127, 128, 129, 130, 200, 300}; int N = NS[p[0] % 9], by_budget = p[0] / 9;
	hx_child_begin(NULL, 0, 0, NULL, 0, 1000000ull * 1000000ull);
	if (hx_start_debug(0)) res_infra("start failed");
	hx_quiesce();
	static const uint8_t A[4] = {1, 0, 0, 0}; t_bidib_node_address na = {1, 0, 0}; int pings = 0;
	if (!by_budget) { uint8_t on = 1; hx_feed_msg(A, 0, MSG_STALL, &on, 1); hx_quiesce(); }
	else { for (int i = 0; i < 10; i++) bidib_send_sys_ping(na, (uint8_t) i, 0); pings = 10; bidib_flush(); }
	for (int i = 0; i < N; i++) { bidib_send_sys_clock(na, (uint8_t) (i % 60), 0x80, 0x41, 0xC1, 0); if (i % 16 == 15) bidib_flush(); }
	bidib_flush(); hx_quiesce();
	if (!by_budget) { uint8_t off = 0; hx_feed_msg(A, 0, MSG_STALL, &off, 1); hx_quiesce(); }
	else { for (int i = 0; i < 10; i++) { uint8_t d = (uint8_t) i; hx_feed_msg(A, 0, MSG_SYS_PONG, &d, 1); } hx_quiesce(); }
	bidib_flush(); hx_quiesce();
	uint8_t *um; while ((um = bidib_read_message())) free(um);
	static rc_pkt_t pk[700]; char err[160]; int np = rc_decode_strict(env_out(), env_out_len(), pk, 700, err, sizeof err);
	char what[120]; snprintf(what, sizeof what, "%d messages submitted while node 1.0.0 %s", N, by_budget ? "has no response budget left" : "is stalled");
	if (np < 0) res_violation("wire-malformed", "%s: %s", what, err);
	else { int expect = 1, count = 0;
		for (int i = 0; i < np; i++) for (int k = 0; k < pk[i].nmsgs; k++) { rc_msg_t *m = &pk[i].msgs[k]; if (memcmp(m->addr, A, 4)) continue; count++;
			if (m->seq != expect) { res_violation("wire-reorder per-node sequence numbers not consecutive in wire order", "%s: message %d to 1.0.0 carries number %d, expected %d", what, count, m->seq, expect); i = np; break; }
			expect = expect == 255 ? 1 : expect + 1; }
		if (!res_nviol() && count != N + pings) res_violation("deferred-message-lost-or-duplicated", "%s: %d messages to 1.0.0 on the wire, %d expected", what, count, N + pings); }
	res_printf("O %x %x\n", N, by_budget);
	res_finish();
}
static size_t many_gen(long idx, uint8_t *payload, char *human, size_t hn) { static const int NS[9] = {1, 2, 64, 127, 128, 129, 130, 200, 300}; payload[0] = (uint8_t) idx; snprintf(human, hn, "%d messages deferred by %s", NS[idx % 9], idx / 9 ? "an exhausted budget" : "a stall"); return 1; }
/* ---------------------------------------------------------------- c05.sessions: the numbering of a LATER session
 * "0 only while numbering is switched off during connection probing" must hold in every session of a process.  An earlier
 * session (none / normal / normal against an interface that never answers, so that the start fails with numbering still off /
 * debug) is followed by a debug-mode or a normal-mode session in which pings go to two nodes: per node 0* (probing), then 1, 2, 3, ... */
static int ses_silent; static int ses_hook(int node, const rc_msg_t *m) { (void) node; (void) m; return ses_silent; }
static void sessions_child(const void *job, size_t n) {
	vs_dev_t devs[VS_MAXDEV]; int nd; size_t pl; const uint8_t *p = job_parse(job, n, devs, &nd, &pl);
	int prior = p[0], second = p[1];
	hx_child_begin(NULL, 0, 0, NULL, 0, 0);
	cfg_install_std(); SB.on_msg = ses_hook; ses_silent = 0;
	t_bidib_node_address n0 = {0, 0, 0}, n1 = {1, 0, 0}; uint8_t *m;
	if (prior == 1 || prior == 3) { int rc = prior == 1 ? hx_start_normal(0) : hx_start_debug(0); if (rc) res_infra("earlier session: start failed"); hx_quiesce(); bidib_send_sys_ping(n0, 1, 0); bidib_send_sys_ping(n1, 2, 0); bidib_flush(); hx_quiesce(); bidib_stop(); hx_quiesce(); }
	if (prior == 2) { ses_silent = 1; int rc = hx_start_normal(0); hx_quiesce(); if (rc != 1) res_infra("earlier session against a silent interface: start returned %d", rc); ses_silent = 0; }
	while ((m = bidib_read_message())) free(m); while ((m = bidib_read_error_message())) free(m);
	env_clear_io(); cfg_install_std(); SB.on_msg = ses_hook;
	int mark = SB.nlog;
	if ((second ? hx_start_normal(0) : hx_start_debug(0))) res_infra("session under test: start failed");
	hx_quiesce(); vs_sleep_us(2500000); hx_quiesce();
	for (int i = 0; i < 3; i++) bidib_send_sys_ping(n0, (uint8_t) i, 0); for (int i = 0; i < 2; i++) bidib_send_sys_ping(n1, (uint8_t) i, 0);
	bidib_flush(); hx_quiesce();
	static const char *PN[4] = {"no earlier session", "an earlier normal session", "an earlier session whose start failed against a silent interface", "an earlier debug session"};
	char what[200]; snprintf(what, sizeof what, "%s session after %s", second ? "normal-mode" : "debug-mode", PN[prior]);
	struct { uint8_t addr[4]; int last, numbered, pings_numbered; } N[8]; int nn = 0;
	for (int i = mark; i < SB.nlog && !res_nviol(); i++) {
		if (SB.log[i].type == MSG_SYS_RESET) { nn = 0; continue; }
		int k; for (k = 0; k < nn; k++) if (!memcmp(N[k].addr, SB.log[i].addr, 4)) break;
		if (k == nn) { if (nn >= 8) continue; memset(&N[k], 0, sizeof N[k]); memcpy(N[k].addr, SB.log[i].addr, 4); nn++; }
		int sq = SB.log[i].seq;
		if (sq == 0) { if (N[k].numbered || SB.log[i].type == MSG_SYS_PING) res_violation("sequence-zero-after-numbering: number 0 used outside connection probing", "%s: message %d (type %02x) to %02x.%02x.%02x carries 0", what, i - mark, SB.log[i].type, N[k].addr[0], N[k].addr[1], N[k].addr[2]); continue; }
		int exp = !N[k].numbered ? 1 : (N[k].last == 255 ? 1 : N[k].last + 1);
		if (sq != exp) res_violation("wire-reorder per-node sequence numbers not consecutive in wire order", "%s: destination %02x.%02x.%02x expected %d got %d (type %02x)", what, N[k].addr[0], N[k].addr[1], N[k].addr[2], exp, sq, SB.log[i].type);
		N[k].numbered = 1; N[k].last = sq;
	}
	hx_emit_ledger_violations("C05");
	res_printf("O %x %x\n", prior, second);
	res_finish();
}
static size_t sessions_gen(long idx, uint8_t *payload, char *human, size_t hn) { payload[0] = (uint8_t) (idx % 4); payload[1] = (uint8_t) (idx / 4); snprintf(human, hn, "%s session, earlier session kind %ld", idx / 4 ? "normal" : "debug", idx % 4); return 2; }
void c05_register(void) { harness_register("c05.sessions", sessions_child); harness_register("c05.many", many_child); harness_register("c05.sched", c05_child); harness_register("c05.hist", c05_hist_child); }

int c05_run(const char *tier) {
	int thorough = !strcmp(tier, "thorough");
	static const char *vn[] = {"same-node", "two-nodes", "deferred-release", "wrap-255"};
	long states = 0, transitions = 0, execs = 0; int exhaustive = 1; int minbound = 99;
	for (int v8 = 0; v8 < 8; v8++) { int v = v8 % 4, up = v8 >= 4;      /* second round: a scheduling point after every unlock as well, one preemption less */
		for (int nt = 2; nt <= (thorough && v == 0 && !up ? 3 : 2); nt++) {
			uint8_t param[2] = {(uint8_t) v, (uint8_t) nt};
			char label[96]; snprintf(label, sizeof label, "c05.sched variant=%s threads=%d%s", vn[v], nt, up ? " (points after unlocks)" : "");
			e1_spec_t s = { .harness = "c05.sched", .param = param, .nparam = 2, .bound = (thorough ? (nt == 3 ? 2 : 3) : 2) - up, .label = label, .unlock_points = up };
			e1_explore(&s);
			for (int c = 0; c < 8; c++) { execs += s.schedules_by_cost[c]; }
			states += s.distinct_outcomes; transitions += s.choice_points;
			if (!s.exhaustive) exhaustive = 0;
			if (s.completed_bound < minbound) minbound = s.completed_bound;
			rep_note("%s: bound=%d completed_bound=%d schedules by cost=[%ld,%ld,%ld,%ld] distinct outcomes=%ld contended executions=%ld",
			         label, s.bound, s.completed_bound, s.schedules_by_cost[0], s.schedules_by_cost[1], s.schedules_by_cost[2], s.schedules_by_cost[3],
			         s.distinct_outcomes, s.contended_execs);
			rep_count("contended_execs", s.contended_execs);
		}
	}
	{ uint8_t hp[1] = {0}; const char *d = getenv("VERIF_DEPTH");
	  e2_spec_t hs = { .harness = "c05.hist", .param = hp, .nparam = 1, .nevents = H_N, .max_depth = d ? atoi(d) : (thorough ? 5 : 4), .label = "c05.hist", .evname = hevname, .audit = thorough };
	  e2_explore(&hs); states += hs.states; transitions += hs.transitions; execs += hs.execs; if (!hs.exhaustive) exhaustive = 0;
	  char sb[200]; size_t o = 0; for (int i = 0; i <= hs.depth_completed + 1 && i < 16; i++) o += (size_t) snprintf(sb + o, sizeof sb - o, "%ld ", hs.states_by_depth[i]);
	  rep_note("c05.hist (normal mode: commands, budget burst / release by the receiver, SecAck mirrors, node lost/new, system reset): %d events, depth %d, new states by depth: %s", H_N, hs.depth_completed, sb); }
	{ ex_spec_t mn = { .harness = "c05.many", .ncases = 18, .gen = many_gen, .label = "c05.many" }; ex_map(&mn); execs += mn.done; states += mn.distinct_outcomes; if (!mn.exhaustive) exhaustive = 0;
	  rep_note("c05.many: 1..300 messages deferred for one node by a stall / an exhausted budget, all on the wire with consecutive numbers afterwards (%ld cases)", mn.done); }
	{ ex_spec_t ss = { .harness = "c05.sessions", .ncases = 8, .gen = sessions_gen, .label = "c05.sessions" }; ex_map(&ss); execs += ss.done; if (!ss.exhaustive) exhaustive = 0;
	  rep_note("c05.sessions: numbering of a debug / normal session after no / a normal / a failed / a debug earlier session (%ld cases)", ss.done); }
	rep_count("states", states); rep_count("transitions", transitions); rep_count("executions", execs);
	rep_count("completed_bound", minbound); rep_flag("exhaustive", exhaustive);
	return 0;
}
