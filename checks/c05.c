/* C05 — per-node sequence numbers are consecutive in wire order under any interleaving.
 * E1: all schedules (preemption-bounded) of 2-3 sender threads (+ receiver releasing a deferred message),
 * incl. the 255->1 wrap.  Oracle: decode the wire with the independent codec, per destination the sequence
 * numbers are consecutive. */
#include "../fw/explore.h"
#include "../fw/hx.h"
#include "include/bidib.h"
#include <stdio.h>
#include <string.h>

static const t_bidib_node_address A = {1, 0, 0}, B = {2, 0, 0};
static const uint8_t ADDR_A[4] = {1, 0, 0, 0};
static int variant;

static void *t1_body(void *p) { (void) p;
	if (variant == 2) { bidib_send_sys_ping(A, 0x11, 0); return NULL; }
	bidib_send_sys_ping(A, 0x11, 0); bidib_send_sys_ping(A, 0x12, 0); return NULL; }
static void *t2_body(void *p) { (void) p;
	if (variant == 1) { bidib_send_sys_ping(A, 0x21, 0); bidib_send_sys_ping(B, 0x22, 0); return NULL; }
	if (variant == 2) { bidib_send_node_changed_ack(A, 0x21, 0); return NULL; }
	bidib_send_sys_ping(A, 0x21, 0); bidib_send_sys_ping(A, 0x22, 0); return NULL; }
static void *t3_body(void *p) { (void) p; bidib_send_node_changed_ack(A, 0x31, 0); bidib_send_sys_ping(A, 0x32, 0); return NULL; }

static void c05_child(const void *job, size_t n) {
	vs_dev_t devs[VS_MAXDEV]; int nd; size_t pl;
	const uint8_t *p = job_parse(job, n, devs, &nd, &pl);
	variant = p[0]; int nthreads = p[1];
	hx_child_begin(devs, nd, 1, NULL, 0, 0);
	if (hx_start_debug(0)) res_infra("start failed");
	hx_quiesce();
	int expected = 0;
	if (variant == 3) { for (int i = 0; i < 253; i++) bidib_send_node_changed_ack(A, (uint8_t) i, 0); expected += 253; }
	if (variant == 2) {
		for (int i = 0; i < 9; i++) bidib_send_sys_ping(A, (uint8_t) i, 0);
		expected += 9; bidib_flush();
		/* one PONG from A: the receiver will free 5 bytes and release deferred messages concurrently with the senders */
		uint8_t d = 0, m[16], f[40]; int ml = rc_build_msg(m, ADDR_A, 1, MSG_SYS_PONG, &d, 1);
		size_t fl = rc_frame(f, m, (size_t) ml, 1);
		env_push_quiet(f, fl);
	}
	bidib_flush();
	vs_window(1);
	int t1 = vs_spawn(t1_body, NULL), t2 = vs_spawn(t2_body, NULL), t3 = -1;
	if (nthreads >= 3) t3 = vs_spawn(t3_body, NULL);
	vs_join_tid(t1); vs_join_tid(t2); if (t3 >= 0) vs_join_tid(t3);
	vs_window(0);
	hx_quiesce();
	bidib_flush();
	expected += variant == 2 ? 2 : 4; if (nthreads >= 3) expected += 2;
	/* oracle */
	static rc_pkt_t pk[600]; char err[200];
	int np = rc_decode_strict(env_out(), env_out_len(), pk, 600, err, sizeof err);
	hx_hash_t h; hx_hash_init(&h);
	if (np < 0) res_violation("wire-malformed", "%s", err);
	else {
		int last[256]; memset(last, 0, sizeof last); int total = 0; char seqs[4096]; size_t so = 0; int bad = 0;
		for (int i = 0; i < np; i++) for (int j = 0; j < pk[i].nmsgs; j++) {
			rc_msg_t *m = &pk[i].msgs[j]; int key = m->addr[0]; total++;
			hx_hash_add(&h, m->raw, (size_t) m->rawlen);
			int exp = last[key] == 0 ? 1 : (last[key] == 255 ? 1 : last[key] + 1);
			if (total > (variant == 3 ? 250 : 0) && so + 16 < sizeof seqs) so += (size_t) snprintf(seqs + so, sizeof seqs - so, "%d:%d ", key, m->seq);
			if (m->seq != exp && !bad) bad = key;
			if (m->seq == 0) bad = key;
			last[key] = m->seq;
		}
		if (bad) res_violation("wire-reorder per-node sequence numbers not consecutive in wire order", "variant=%d dest=%d wire(dest:seq)= %s", variant, bad, seqs);
		if (total != expected) {
			vx_node_info_t ni; int def = vx_node_info(ADDR_A, &ni) ? ni.n_deferred : -1;
			if (!(variant == 2 && def > 0 && total + def == expected))   /* still deferred is legal when the answer raced */
				res_violation("message-count", "expected %d messages on the wire, found %d (deferred %d)", expected, total, def);
			hx_hash_add(&h, &def, sizeof def);
		}
	}
	hx_emit_ledger_violations("C05");
	res_printf("O %llx %llx\n", (unsigned long long) h.a, (unsigned long long) h.b);
	hx_emit_trace();
	res_finish();
}

void c05_register(void) { harness_register("c05.sched", c05_child); }

int c05_run(const char *tier) {
	int thorough = !strcmp(tier, "thorough");
	static const char *vn[] = {"same-node", "two-nodes", "deferred-release", "wrap-255"};
	long states = 0, transitions = 0, execs = 0; int exhaustive = 1; int minbound = 99;
	for (int v = 0; v < 4; v++) {
		for (int nt = 2; nt <= (thorough && v == 0 ? 3 : 2); nt++) {
			uint8_t param[2] = {(uint8_t) v, (uint8_t) nt};
			char label[64]; snprintf(label, sizeof label, "c05.sched variant=%s threads=%d", vn[v], nt);
			e1_spec_t s = { .harness = "c05.sched", .param = param, .nparam = 2, .bound = thorough ? (nt == 3 ? 2 : 3) : 2, .label = label };
			e1_explore(&s);
			for (int c = 0; c < 8; c++) { execs += s.schedules_by_cost[c]; }
			states += s.distinct_outcomes; transitions += s.choice_points;
			if (!s.exhaustive) exhaustive = 0;
			if (s.completed_bound < minbound) minbound = s.completed_bound;
			rep_note("%s: bound=%d completed_bound=%d schedules by cost=[%ld,%ld,%ld,%ld] distinct outcomes=%ld contended executions=%ld",
			         label, s.bound, s.completed_bound, s.schedules_by_cost[0], s.schedules_by_cost[1], s.schedules_by_cost[2], s.schedules_by_cost[3],
			         s.distinct_outcomes, s.contended_execs);
			rep_count("contended_execs", s.contended_execs);
		}
	}
	rep_count("states", states); rep_count("transitions", transitions); rep_count("executions", execs);
	rep_count("completed_bound", minbound); rep_flag("exhaustive", exhaustive);
	return 0;
}
