/* C07 — the tracked state equals the fold of all feedback messages (and of the user's own drive / DCC-accessory
 * commands) over the initial state.
 *  c07.sweep : catalogue of single-message cases — for every state-bearing uplink type every byte field over 0..255 with
 *              the other fields at typical values, diagnostic lists of 0..3 pairs in every order with values equal to key
 *              codes, address lists of 0..3 entries incl. the free form, unknown node / port / number / address variants,
 *              user-command sweeps.  Cases of one part are chained in chunks inside one child (state carries over).
 *  c07.hist  : E2 BFS over a reduced alphabet (two values per message kind + user commands), state key = sd_dump.
 * Oracle: after every event  sd_dump() (public snapshot getter)  ==  rs_dump(reference).
 *
 * The reference model ref_state below is written from the BiDiB specification (message layouts in bidib_messages.h,
 * conversion tables of the occupancy/booster chapters) and the struct documentation in bidib_definitions_custom.h.
 * /repo/src/state/bidib_state_setter.c and bidib_state.c were read to learn WHICH snapshot field a message feeds where
 * the headers are silent; every place where the reference takes a policy decision from there is marked [LIB-POLICY].
 * Normal mode against the simulated bus, standard configuration model (fw/cfgmodel.c). */
#include "../fw/explore.h"
#include "../fw/hx.h"
#include "../fw/simbus.h"
#include "../fw/cfgmodel.h"
#include "../fw/statedump.h"
#include "include/bidib.h"
#include <stdio.h>
#include <stdlib.h>
#include <string.h>

static cm_model_t M;

/* ================================================================= reference model */
#define RS_MAXA 8
typedef struct { char id[24]; int val, exec, wait; } rs_bacc_t;
typedef struct { char id[24]; int val, oct, ack, tu, st, coil; } rs_dacc_t;
typedef struct { char id[24]; int val, tu, wait; } rs_per_t;
typedef struct { uint8_t h, l, t; } rs_addr_t;
typedef struct { int occ, cv, cf, cn, pk, oc; unsigned cur; int na; rs_addr_t a[RS_MAXA]; } rs_seg_t;
typedef struct { char id[24]; int val; } rs_rev_t;
typedef struct { int on, orimask /* bit0: left reported, bit1: right reported */, step, fwd, ack, kmh; int fn[4];
                 int qk, q, tk, t, ek, e, c2k, c2, c3k, c3; } rs_train_t;
typedef struct { int ps, simple, pk, oc; unsigned cur; int vk, v, tk, t; } rs_boost_t;
typedef struct {
	rs_bacc_t pb[CM_MAXB][3], sb[CM_MAXB][3]; rs_dacc_t pd[CM_MAXB][3], sd[CM_MAXB][3]; rs_per_t per[CM_MAXB][3];
	rs_seg_t seg[CM_MAXB][4]; rs_rev_t rev[CM_MAXB][2]; rs_train_t tr[CM_MAXT]; rs_boost_t bo[CM_MAXB]; int cs[CM_MAXB];
} ref_state;
static ref_state R;

enum { ACK_PENDING = 4 };   /* t_bidib_cs_ack: REJECTED 0, ACCEPTED_SOON 1, ACCEPTED_DELAY 2, OUTPUT 3, PENDING 4 */

/* current code of MSG_BM_CURRENT / BIDIB_BST_DIAG_I (BiDiB "Codierung des Stromwertes"):
 * 0: 0 mA; 1..15: 1 mA steps; 16..63: (v-12)*4; 64..127: (v-51)*16; 128..191: (v-108)*64; 192..250: (v-171)*256;
 * 251..253 reserved; 254 overcurrent / short; 255 no exact value known.  Reserved codes are treated as "unknown". */
static void ref_current(int code, int *known, int *oc, unsigned *ma) {
	*known = 1; *oc = 0;
	if (code <= 15) *ma = (unsigned) code;
	else if (code <= 63) *ma = (unsigned) (code - 12) * 4u;
	else if (code <= 127) *ma = (unsigned) (code - 51) * 16u;
	else if (code <= 191) *ma = (unsigned) (code - 108) * 64u;
	else if (code <= 250) *ma = (unsigned) (code - 171) * 256u;
	else if (code == 254) *oc = 1;
	else *known = 0;
}
/* [LIB-POLICY] three-way summary of the booster state; the headers only give the enum.  The classification of the twelve
 * defined codes was taken from bidib_booster_normal_to_simple(); codes that BiDiB does not define are an error. */
static int ref_boost_simple(int ps) {
	switch (ps) {
	case 0x80: case 0x81: case 0x82: case 0x84: return 0;                   /* ON */
	case 0x00: case 0x03: case 0x04: case 0x05: case 0x06: return 1;        /* OFF */
	default: return 2;                                                       /* ERROR: short, hot, stop request, undefined */
	}
}
static const char *aspect_by_value(const cm_aspect_t *a, int n, int v) { for (int i = 0; i < n; i++) if (a[i].value == v) return a[i].id; return ""; }
static void set_id(char *dst, const char *s) { snprintf(dst, 24, "%s", s); }

/* state right after start-up, derived from the configuration and the start-up dialogue with the simulated bus:
 *  - every configured 'initial' aspect is commanded once and the bus acknowledges it (ACCESSORY_STATE done / LC_STAT /
 *    CS_ACCESSORY_ACK 'accepted'), accessories without 'initial' were never reported;
 *  - all trains are reset (no speed, forwards, functions off), initial functions are then switched on, every drive
 *    command is acknowledged with ack=1;
 *  - track outputs are switched to GO and answer with CS_STATE GO; boosters were never reported (OFF);
 *  - reversers are not queried at start-up: state unknown;
 *  - occupancy was queried, nothing is occupied, confidence all clear; no current was ever reported. */
static void rs_init(ref_state *r, const cm_model_t *m) {
	memset(r, 0, sizeof *r);
	for (int b = 0; b < m->nb; b++) {
		const cm_board_t *B = &m->b[b]; int conn = cm_board_connected(m, b) && B->in_track;
		for (int k = 0; k < 2; k++) { const cm_bacc_t *a = k ? B->sb : B->pb; int n = k ? B->nsb : B->npb; rs_bacc_t *s = k ? r->sb[b] : r->pb[b];
			for (int i = 0; i < n; i++) { s[i].exec = 0x02;    /* [LIB-POLICY] never reported: BIDIB_EXEC_STATE_REACHED (bidib_state_reset) */
				if (conn && a[i].initial[0]) for (int q = 0; q < a[i].naspects; q++) if (!strcmp(a[i].aspects[q].id, a[i].initial)) { set_id(s[i].id, a[i].initial); s[i].val = a[i].aspects[q].value; s[i].exec = 0; s[i].wait = 0; } } }
		for (int k = 0; k < 2; k++) { const cm_dacc_t *a = k ? B->sd : B->pd; int n = k ? B->nsd : B->npd; rs_dacc_t *s = k ? r->sd[b] : r->pd[b];
			for (int i = 0; i < n; i++) { s[i].oct = 1; s[i].ack = ACK_PENDING; s[i].coil = k ? 0 : 1;   /* [LIB-POLICY] never commanded: defaults of the track-file parser / bidib_state_reset (a point keeps coil_on=true, not exercised by the standard configuration) */
				if (conn && a[i].initial[0]) for (int q = 0; q < a[i].naspects; q++) if (!strcmp(a[i].aspects[q].id, a[i].initial)) {
				const cm_dccaspect_t *A = &a[i].aspects[q]; set_id(s[i].id, a[i].initial);
				s[i].val = A->ports[A->nports - 1].port & 0x1F; s[i].coil = A->ports[A->nports - 1].value & 1; s[i].oct = 1; s[i].ack = 1; } } }
		for (int i = 0; i < B->nper; i++) if (conn && B->per[i].initial[0]) for (int q = 0; q < B->per[i].naspects; q++) if (!strcmp(B->per[i].aspects[q].id, B->per[i].initial)) { set_id(r->per[b][i].id, B->per[i].initial); r->per[b][i].val = B->per[i].aspects[q].value; }
		for (int i = 0; i < B->nrev; i++) r->rev[b][i].val = 2;      /* BIDIB_REV_EXEC_STATE_UNKNOWN until the first MSG_VENDOR report; start-up does not query reversers */
		r->bo[b].ps = 0; r->bo[b].simple = ref_boost_simple(0);
		r->cs[b] = cm_board_connected(m, b) && cm_is_track_output(B) ? 0x03 : 0x00;
	}
	int any_to = 0; for (int b = 0; b < m->nb; b++) if (cm_board_connected(m, b) && cm_is_track_output(&m->b[b])) any_to = 1;
	for (int t = 0; t < m->nt; t++) { rs_train_t *T = &r->tr[t]; T->fwd = 1; T->ack = any_to ? 1 : ACK_PENDING;
		for (int k = 0; k < m->t[t].nper; k++) if (any_to && m->t[t].per[k].has_initial) T->fn[k] = m->t[t].per[k].initial; }
}

/* ------------------------------------------------------------------ look-ups (unknown -> NULL / -1) */
static rs_seg_t *find_seg(ref_state *r, int b, int num) { if (b < 0 || !M.b[b].in_track) return NULL; for (int i = 0; i < M.b[b].nseg; i++) if (M.b[b].seg[i].addr == num) return &r->seg[b][i]; return NULL; }
static int find_train(int l, int h) { for (int t = 0; t < M.nt; t++) if (M.t[t].addrl == l && M.t[t].addrh == h) return t; return -1; }   /* command-station class: "true dcc address", 16 bit */
/* occupancy class (MSG_BM_*): decoder addresses use the address format of MSG_BM_ADDRESS - bits 15..14 = 00 / 10 locomotive
 * (forward / backward), 01 / 11 accessory decoder; an accessory address never denotes a train */
static int find_train_bm(int l, int h) { return (h & 0x40) ? -1 : find_train(l, h & 0x3F); }
static rs_dacc_t *find_dacc(ref_state *r, int b, int l, int h, const cm_dacc_t **cfg) {
	if (b < 0 || !M.b[b].in_track) return NULL;
	for (int i = 0; i < M.b[b].npd; i++) if (M.b[b].pd[i].addrl == l && M.b[b].pd[i].addrh == h) { if (cfg) *cfg = &M.b[b].pd[i]; return &r->pd[b][i]; }
	for (int i = 0; i < M.b[b].nsd; i++) if (M.b[b].sd[i].addrl == l && M.b[b].sd[i].addrh == h) { if (cfg) *cfg = &M.b[b].sd[i]; return &r->sd[b][i]; }
	return NULL;
}
/* on-track / orientation are functions of the segment address lists (coupling, see also C08) */
static void rs_derive_trains(ref_state *r) {
	for (int t = 0; t < M.nt; t++) { int mask = 0;
		for (int b = 0; b < M.nb; b++) for (int i = 0; i < M.b[b].nseg; i++) for (int k = 0; k < r->seg[b][i].na; k++) {
			const rs_addr_t *a = &r->seg[b][i].a[k]; if (a->l == M.t[t].addrl && a->h == M.t[t].addrh) mask |= a->t == 0 ? 1 : 2; }
		r->tr[t].on = mask != 0; r->tr[t].orimask = mask; }
}
/* effect of a drive command / manual drive report on the commanded values of a train (t_bidib_cs_drive layout) */
static void rs_drive(ref_state *r, int t, int active, int speed, const uint8_t f[4]) {
	rs_train_t *T = &r->tr[t];
	if (active == 0) {   /* [LIB-POLICY] no group active = decoder leaves the refresh cycle: commanded values fall back to "stopped, forwards, functions off"; ack untouched */
		T->step = 0; T->fwd = 1; for (int k = 0; k < M.t[t].nper; k++) T->fn[k] = 0; return; }
	if (active & 0x01) {   /* speed like DCC128: bit7 = forwards, 0 stop, 1 emergency stop, 2..127 = step 1..126; the snapshot carries the signed step */
		int mag = speed & 0x7F; mag = mag < 2 ? 0 : mag - 1; T->fwd = (speed >> 7) & 1; T->step = T->fwd ? mag : -mag; }
	T->ack = ACK_PENDING;        /* [LIB-POLICY] a new drive setting is outstanding until MSG_CS_DRIVE_ACK arrives (also applied to manual reports) */
	for (int k = 0; k < M.t[t].nper; k++) { int bit = M.t[t].per[k].bit; int grp;
		if (bit <= 4) grp = 1 << 1; else if (bit >= 8 && bit <= 11) grp = 1 << 2; else if (bit >= 12 && bit <= 15) grp = 1 << 3; else if (bit >= 16 && bit <= 23) grp = 1 << 4; else if (bit >= 24 && bit <= 31) grp = 1 << 5; else continue;
		if (active & grp) T->fn[k] = (f[bit / 8] >> (bit % 8)) & 1; }
}
static void rs_cs_accessory(rs_dacc_t *a, int data, int time) {   /* MSG_CS_ACCESSORY: data = aspect/port 0..4, bit5 activate, bit6 timing by command station, bit7 extended; time bit7 = unit seconds */
	a->id[0] = 0; a->val = data & 0x1F; a->coil = (data >> 5) & 1; a->oct = !((data >> 6) & 1); a->tu = (time >> 7) & 1; a->st = time & 0x7F;
}

/* effect of ONE uplink message from configured board b (-1: a node that is not configured) */
static void rs_apply(ref_state *r, int b, int type, const uint8_t *d, int dl) {
	rs_seg_t *s; rs_dacc_t *da; int t;
	switch (type) {
	case MSG_BM_OCC: if (dl >= 1 && (s = find_seg(r, b, d[0]))) s->occ = 1; break;
	case MSG_BM_FREE: if (dl >= 1 && (s = find_seg(r, b, d[0]))) { s->occ = 0; s->na = 0; rs_derive_trains(r); } break;
	case MSG_BM_MULTIPLE:
		if (dl < 2 || dl < 2 + (d[1] + 7) / 8) break;
		for (int i = 0; i < d[1]; i++) { int num = d[0] + i; if (num > 255) break; if (!(s = find_seg(r, b, num))) continue;
			if (d[2 + i / 8] >> (i % 8) & 1) s->occ = 1; else { s->occ = 0; s->na = 0; } }
		rs_derive_trains(r); break;
	case MSG_BM_ADDRESS: {
		if (dl < 1 || !(s = find_seg(r, b, d[0]))) break;
		int n = (dl - 1) / 2; s->na = 0;
		if (!(n == 1 && d[1] == 0 && d[2] == 0))            /* the single address 0x0000 means "no decoder any more" */
			for (int i = 0; i < n && s->na < RS_MAXA; i++) { int l = d[1 + 2 * i], h = d[2 + 2 * i];
				if (h & 0x40) continue;                        /* bits 15..14: 00 loco forward, 10 loco backward, 01 / 11 accessory: not a train */
				s->a[s->na].l = (uint8_t) l; s->a[s->na].h = (uint8_t) (h & 0x3F); s->a[s->na].t = (uint8_t) (h >> 6); s->na++; }
		rs_derive_trains(r); break; }
	case MSG_BM_CONFIDENCE: if (dl >= 3 && b >= 0 && M.b[b].in_track) for (int i = 0; i < M.b[b].nseg; i++) { r->seg[b][i].cv = d[0] != 0; r->seg[b][i].cf = d[1] != 0; r->seg[b][i].cn = d[2] != 0; } break;
	case MSG_BM_CURRENT: if (dl >= 2 && (s = find_seg(r, b, d[0]))) ref_current(d[1], &s->pk, &s->oc, &s->cur); break;
	case MSG_BM_SPEED: if (dl >= 4 && (t = find_train_bm(d[0], d[1])) >= 0) r->tr[t].kmh = d[2] | d[3] << 8; break;     /* km/h, 16 bit little endian */
	case MSG_BM_DYN_STATE: {
		if (dl < 5 || (t = find_train_bm(d[1], d[2])) < 0) break; rs_train_t *T = &r->tr[t]; int v = d[4];
		switch (d[3]) { case 1: T->qk = 1; T->q = v; break; case 2: T->tk = 1; T->t = (int8_t) v; break; case 3: T->ek = 1; T->e = v; break; case 4: T->c2k = 1; T->c2 = v; break; case 5: T->c3k = 1; T->c3 = v; break; default: break; }
		break; }
	case MSG_BOOST_STAT: if (dl >= 1 && b >= 0 && cm_is_booster(&M.b[b])) { r->bo[b].ps = d[0]; r->bo[b].simple = ref_boost_simple(d[0]); } break;
	case MSG_BOOST_DIAGNOSTIC:
		if (b < 0 || !cm_is_booster(&M.b[b])) break;
		for (int i = 0; i + 1 < dl; i += 2) { rs_boost_t *B = &r->bo[b]; int v = d[i + 1];      /* a list of (enum, value) PAIRS */
			switch (d[i]) { case 0: ref_current(v, &B->pk, &B->oc, &B->cur); break;
			case 1: if (v <= 250) { B->vk = 1; B->v = v; } else B->vk = 0; break;            /* unit 100 mV, 251..255 reserved / unknown */
			case 2: B->tk = 1; B->t = (int8_t) v; break;                                      /* degrees Celsius, signed */
			default: break; } }
		break;
	case MSG_CS_STATE: if (dl >= 1 && b >= 0 && cm_is_track_output(&M.b[b])) r->cs[b] = d[0]; break;
	case MSG_CS_DRIVE_ACK: if (dl >= 3 && (t = find_train(d[0], d[1])) >= 0) r->tr[t].ack = d[2]; break;
	case MSG_CS_ACCESSORY_ACK: if (dl >= 3 && (da = find_dacc(r, b, d[0], d[1], NULL))) da->ack = d[2]; break;
	case MSG_CS_DRIVE_MANUAL: if (dl >= 9 && (t = find_train(d[0], d[1])) >= 0) rs_drive(r, t, d[3], d[4], d + 5); break;
	case MSG_CS_ACCESSORY_MANUAL:   /* [LIB-POLICY] the aspect id is not derivable from one port report: it is kept; the switching time is over */
		if (dl >= 3 && (da = find_dacc(r, b, d[0], d[1], NULL))) { da->val = d[2] & 0x1F; da->coil = (d[2] >> 5) & 1; da->st = 0; } break;
	case MSG_ACCESSORY_STATE: case MSG_ACCESSORY_NOTIFY: {
		if (dl < 5 || b < 0 || !M.b[b].in_track) break;
		for (int k = 0; k < 2; k++) { const cm_bacc_t *a = k ? M.b[b].sb : M.b[b].pb; int n = k ? M.b[b].nsb : M.b[b].npb; rs_bacc_t *st = k ? r->sb[b] : r->pb[b];
			for (int i = 0; i < n; i++) if (a[i].number == d[0]) { set_id(st[i].id, aspect_by_value(a[i].aspects, a[i].naspects, d[1])); st[i].val = d[1]; st[i].exec = d[3]; st[i].wait = d[4]; k = 2; break; } }
		break; }
	case MSG_LC_STAT: case MSG_LC_WAIT: {
		if (dl < 3 || b < 0 || !M.b[b].in_track) break;
		for (int i = 0; i < M.b[b].nper; i++) if (M.b[b].per[i].port0 == d[0] && M.b[b].per[i].port1 == d[1]) { rs_per_t *p = &r->per[b][i];
			if (type == MSG_LC_STAT) { set_id(p->id, aspect_by_value(M.b[b].per[i].aspects, M.b[b].per[i].naspects, d[2])); p->val = d[2]; }
			else { p->tu = d[2] >> 7; p->wait = d[2] & 0x7F; }      /* bit7: 0 = 100 ms units (reported as BIDIB_TIMEUNIT_MILLISECONDS), 1 = seconds */
			break; }
		break; }
	case MSG_VENDOR: {   /* length,'name',length,'value' */
		if (dl < 2 || b < 0 || !M.b[b].in_track) break; int nl = d[0]; if (dl < nl + 2) break; int vl = d[1 + nl]; if (dl < nl + 2 + vl) break;
		for (int i = 0; i < M.b[b].nrev; i++) if ((int) strlen(M.b[b].rev[i].cv) == nl && !memcmp(M.b[b].rev[i].cv, d + 1, (size_t) nl)) {
			set_id(r->rev[b][i].id, M.b[b].rev[i].id);
			r->rev[b][i].val = (vl == 1 && d[2 + nl] == '0') ? 0 : (vl == 1 && d[2 + nl] == '3') ? 1 : 2; break; }
		break; }
	default: break;
	}
}

/* canonical text, same grammar as fw/statedump.c; entity order = order of the library's snapshot arrays (track file order
 * for track entities, train file order, board file order for boosters / track outputs) */
#define P(...) do { if (o + 256 < n) o += (size_t) snprintf(buf + o, n - o, __VA_ARGS__); } while (0)
static const char *dash(const char *s) { return s[0] ? s : "unknown"; }   /* the snapshot getter reports an aspect id that is not known as "unknown" */
static size_t rs_dump(const ref_state *r, char *buf, size_t n) {
	size_t o = 0; buf[0] = 0;
	for (int pass = 0; pass < 4; pass++) for (int b = 0; b < M.nb; b++) { const cm_board_t *B = &M.b[b]; if (!B->in_track) continue;
		if (pass == 0) for (int i = 0; i < B->npb; i++) P("PB %s id=%s val=%u exec=%d wait=%u;", B->pb[i].id, dash(r->pb[b][i].id), r->pb[b][i].val, r->pb[b][i].exec, r->pb[b][i].wait);
		if (pass == 1) for (int i = 0; i < B->npd; i++) { const rs_dacc_t *a = &r->pd[b][i]; P("PD %s id=%s val=%u oct=%d ack=%d tu=%d st=%u coil=%d;", B->pd[i].id, dash(a->id), a->val, a->oct, a->ack, a->tu, a->st, a->coil); }
		if (pass == 2) for (int i = 0; i < B->nsb; i++) P("SB %s id=%s val=%u exec=%d wait=%u;", B->sb[i].id, dash(r->sb[b][i].id), r->sb[b][i].val, r->sb[b][i].exec, r->sb[b][i].wait);
		if (pass == 3) for (int i = 0; i < B->nsd; i++) { const rs_dacc_t *a = &r->sd[b][i]; P("SD %s id=%s val=%u oct=%d ack=%d tu=%d st=%u coil=%d;", B->sd[i].id, dash(a->id), a->val, a->oct, a->ack, a->tu, a->st, a->coil); } }
	for (int b = 0; b < M.nb; b++) if (M.b[b].in_track) for (int i = 0; i < M.b[b].nper; i++) P("PE %s id=%s val=%u tu=%d wait=%u;", M.b[b].per[i].id, dash(r->per[b][i].id), r->per[b][i].val, r->per[b][i].tu, r->per[b][i].wait);
	for (int b = 0; b < M.nb; b++) if (M.b[b].in_track) for (int i = 0; i < M.b[b].nseg; i++) { const rs_seg_t *s = &r->seg[b][i];
		P("SG %s occ=%d conf=%d%d%d pk=%d", M.b[b].seg[i].id, s->occ, s->cv, s->cf, s->cn, s->pk);
		if (s->pk) { P(" oc=%d", s->oc); if (!s->oc) P(" cur=%u", s->cur); }
		P(" addrs=["); for (int k = 0; k < s->na; k++) P("%02x%02x/%u,", s->a[k].h, s->a[k].l, s->a[k].t); P("];"); }
	for (int b = 0; b < M.nb; b++) if (M.b[b].in_track) for (int i = 0; i < M.b[b].nrev; i++) P("RV %s id=%s val=%d;", M.b[b].rev[i].id, dash(r->rev[b][i].id), r->rev[b][i].val);
	for (int t = 0; t < M.nt; t++) { const rs_train_t *T = &r->tr[t];
		P("TR %s on=%d", M.t[t].id, T->on);
		if (T->on) { int ori = T->orimask == 1 ? 0 : 1;
			if (T->orimask == 3) { t_bidib_train_state_query q = bidib_get_train_state(M.t[t].id); ori = q.known ? (int) q.data.orientation : 9; bidib_free_train_state_query(q); }   /* both reported: either is acceptable */
			P(" ori=%d", ori); }
		P(" step=%d fwd=%d ack=%d kmh=%d per=[", T->step, T->fwd, T->ack, T->kmh);
		for (int k = 0; k < M.t[t].nper; k++) P("%s=%u,", M.t[t].per[k].id, T->fn[k]);
		P("] dec="); if (T->qk) P("q%u", T->q); if (T->tk) P("t%d", T->t); if (T->ek) P("e%u", T->e); if (T->c2k) P("c%u", T->c2); if (T->c3k) P("d%u", T->c3); P(";"); }
	for (int b = 0; b < M.nb; b++) if (cm_is_booster(&M.b[b])) { const rs_boost_t *B = &r->bo[b];
		P("BO %s ps=%d simple=%d pk=%d", M.b[b].id, B->ps, B->simple, B->pk);
		if (B->pk) { P(" oc=%d", B->oc); if (!B->oc) P(" cur=%u", B->cur); }
		if (B->vk) P(" v=%u", B->v); if (B->tk) P(" t=%d", B->t); P(";"); }
	for (int b = 0; b < M.nb; b++) if (cm_is_track_output(&M.b[b])) P("TO %s cs=%d;", M.b[b].id, r->cs[b]);
	return o;
}

/* ================================================================= driving the library */
typedef enum { A_UP, A_SPEED, A_FUNC, A_POINT, A_SIGNAL, A_CSDRIVE, A_CSACC, A_LOSE, A_TAKE } akind_t;
/* one action: an uplink message from board `node` (-1: from an address that is not on the bus / not configured) or a user command */
typedef struct { akind_t kind; int node; uint8_t type; uint8_t d[48]; int dl; const char *s1, *s2; int i1; } act_t;

static const char *tname(int kind, int type) {
	switch (kind) { case A_SPEED: return "bidib_set_train_speed"; case A_FUNC: return "bidib_set_train_peripheral"; case A_POINT: return "bidib_switch_point"; case A_SIGNAL: return "bidib_set_signal";
	case A_CSDRIVE: return "bidib_send_cs_drive"; case A_CSACC: return "bidib_send_cs_accessory"; case A_LOSE: return "MSG_NODE_LOST"; case A_TAKE: return "MSG_NODE_NEW"; default: break; }
	switch (type) {
#define T(x) case x: return #x;
	T(MSG_BM_OCC) T(MSG_BM_FREE) T(MSG_BM_MULTIPLE) T(MSG_BM_ADDRESS) T(MSG_BM_CONFIDENCE) T(MSG_BM_CURRENT) T(MSG_BM_SPEED) T(MSG_BM_DYN_STATE) T(MSG_BOOST_STAT) T(MSG_BOOST_DIAGNOSTIC)
	T(MSG_CS_STATE) T(MSG_CS_DRIVE_ACK) T(MSG_CS_ACCESSORY_ACK) T(MSG_CS_DRIVE_MANUAL) T(MSG_CS_ACCESSORY_MANUAL) T(MSG_ACCESSORY_STATE) T(MSG_ACCESSORY_NOTIFY) T(MSG_LC_STAT) T(MSG_LC_WAIT) T(MSG_VENDOR)
#undef T
	default: return "MSG_?"; }
}
/* the simulated bus answers the commands the library sends; what it answers is handed to the reference as well */
static struct { int b; uint8_t type; uint8_t d[8]; int dl; } RQ[64]; static int nrq, hook_on;
static int board_of_sbnode(int ni) { for (int b = 0; b < M.nb; b++) if (M.b[b].sbnode == ni) return b; return -1; }
static void bus_reply(int ni, uint8_t type, const uint8_t *d, int dl) {
	sb_send(ni, type, d, dl);
	if (nrq < 64) { RQ[nrq].b = board_of_sbnode(ni); RQ[nrq].type = type; memcpy(RQ[nrq].d, d, (size_t) dl); RQ[nrq].dl = dl; nrq++; }
}
static int bus_hook(int ni, const rc_msg_t *m) {
	if (!hook_on || ni < 0) return 0;
	uint8_t d[8] = {0};
	switch (m->type) {
	case MSG_CS_DRIVE: case MSG_CS_ACCESSORY: d[0] = m->dlen > 0 ? m->data[0] : 0; d[1] = m->dlen > 1 ? m->data[1] : 0; d[2] = 1;
		bus_reply(ni, m->type == MSG_CS_DRIVE ? MSG_CS_DRIVE_ACK : MSG_CS_ACCESSORY_ACK, d, 3); return 1;
	case MSG_ACCESSORY_GET: d[0] = m->dlen > 0 ? m->data[0] : 0; d[1] = SB.n[ni].acc_aspect[d[0]]; d[2] = 2; d[3] = 0; d[4] = 0; bus_reply(ni, MSG_ACCESSORY_STATE, d, 5); return 1;
	default: return 0;      /* nothing else is expected after start-up; a state-bearing default answer would show up as a mismatch */
	}
}
static void drain(void) { uint8_t *m; while ((m = bidib_read_message())) free(m); while ((m = bidib_read_error_message())) free(m); }
/* an action is observed twice: (1) after the receiver has processed the message / the command has returned, nothing flushed
 * yet (the optimistic effect of a command, the effect of MSG_ACCESSORY_NOTIFY before the library's query is answered);
 * (2) after the send buffer was flushed and the answers of the bus were processed. */
static void settle1(void) { vs_point(); hx_quiesce(); drain(); }
static void settle2(void) {
	bidib_flush(); hx_quiesce(); bidib_flush(); hx_quiesce();
	for (int i = 0; i < nrq; i++) rs_apply(&R, RQ[i].b, RQ[i].type, RQ[i].d, RQ[i].dl);
	nrq = 0; drain();
}
static const char *ENT[][2] = {{"PB", "point-board"}, {"PD", "point-dcc"}, {"SB", "signal-board"}, {"SD", "signal-dcc"}, {"PE", "peripheral"}, {"SG", "segment"}, {"RV", "reverser"}, {"TR", "train"}, {"BO", "booster"}, {"TO", "track-output"}};
static char LIBD[1 << 15], REFD[1 << 15];
static const char *cur_form = "";   /* distinguishes message forms of one type that fail for different reasons */
/* 0 = equal */
static int compare(const char *tn, const char *what) {
	sd_dump(LIBD, sizeof LIBD); rs_dump(&R, REFD, sizeof REFD);
	if (!strcmp(LIBD, REFD)) return 0;
	size_t k = 0; while (LIBD[k] && LIBD[k] == REFD[k]) k++;
	size_t s = k; while (s > 0 && LIBD[s - 1] != ';') s--;
	const char *ent = "structure"; const char *src = LIBD[s] ? LIBD + s : REFD + s;
	for (size_t i = 0; i < sizeof ENT / sizeof ENT[0]; i++) if (!strncmp(src, ENT[i][0], 2)) ent = ENT[i][1];
	int ll = (int) strcspn(LIBD + s, ";"), rl = (int) strcspn(REFD + s, ";");
	char cls[200];
	if (tn) snprintf(cls, sizeof cls, "state-differs type=%s entity=%s%s%s", tn, ent, cur_form[0] ? " form=" : "", cur_form); else snprintf(cls, sizeof cls, "initial-state-differs entity=%s", ent);
	res_violation(cls, "%s: library reports [%.*s] reference (fold of the messages per specification) [%.*s]", what, ll, LIBD + s, rl, REFD + s);
	return 1;
}
static uint8_t BADDR[CM_MAXB][4];     /* the address each board has, or had when it was lost (the sender of a message is an ADDRESS) */
static void begin_normal(void) {
	hx_child_begin(NULL, 0, 0, NULL, 0, 0);
	if (getenv("VERIF_LOG")) env_log_to_stderr = 1;
	cm_std(&M); cm_install(&M); hook_on = 0; nrq = 0; SB.on_msg = bus_hook;
	if (hx_start_normal(0)) res_infra("normal start failed");
	hx_quiesce(); bidib_flush(); hx_quiesce(); drain();
	hook_on = 1; rs_init(&R, &M);
	for (int b = 0; b < M.nb; b++) cm_board_addr(&M, b, BADDR[b]);
}
static const uint8_t UNKNOWN_NODE[4] = {7, 0, 0, 0};
/* returns 1 on mismatch */
static int do_act(const act_t *a, const char *what) {
	int rc = 0, exp_rc = 0; t_bidib_node_address na = {0, 0, 0};
	cur_form = "";
	if (a->kind == A_UP && a->type == MSG_BOOST_DIAGNOSTIC) { cur_form = a->dl == 0 ? "empty-list" : "no-value-equals-a-key-code"; for (int i = 1; i < a->dl; i += 2) if (a->d[i] <= 2) cur_form = "value-equals-a-key-code"; }
	switch (a->kind) {
	case A_LOSE: { int b = a->node; uint8_t d[9]; if (!cm_board_connected(&M, b)) break;
		SB.n[M.b[b].sbnode].present = 0; M.b[b].present = 0; d[0] = ++SB.n[0].tab_version; d[1] = M.b[b].local; memcpy(d + 2, M.b[b].uid, 7); sb_send(0, MSG_NODE_LOST, d, 9); break; }
	case A_TAKE: { int b = a->node, from = a->i1; uint8_t d[9]; if (cm_board_connected(&M, b) || cm_board_connected(&M, from)) break;
		M.b[b].local = M.b[from].local; M.b[b].present = 1; M.b[b].sbnode = sb_add_node(0, M.b[b].local, M.b[b].uid); memcpy(BADDR[b], BADDR[from], 4);
		d[0] = ++SB.n[0].tab_version; d[1] = M.b[b].local; memcpy(d + 2, M.b[b].uid, 7); sb_send(0, MSG_NODE_NEW, d, 9); break; }
	case A_UP:
		if (a->node >= 0 && !cm_board_connected(&M, a->node)) {      /* the board is gone: what arrives from its old address belongs to whoever sits there now */
			int owner = -1; for (int b = 0; b < M.nb; b++) if (cm_board_connected(&M, b) && !memcmp(BADDR[b], BADDR[a->node], 4)) owner = b;
			rs_apply(&R, owner, a->type, a->d, a->dl); sb_send_from(BADDR[a->node], 0, a->type, a->d, a->dl); }
		else if (a->node >= 0 && a->i1 > 0) {     /* the message shares its packet with an earlier one from a deeper, unknown node */
			static const uint8_t DEEP[2][4] = {{1, 2, 0, 0}, {1, 2, 3, 0}}; uint8_t payload[200]; int po = 0; uint8_t pd = 0x55;
			rs_apply(&R, a->node, a->type, a->d, a->dl);
			po += rc_build_msg(payload + po, DEEP[(a->i1 - 1) % 2], 0, MSG_SYS_PONG, &pd, 1);
			int sbn = M.b[a->node].sbnode; uint8_t seq = SB.n[sbn].seq; SB.n[sbn].seq = seq == 255 ? 1 : (uint8_t) (seq + 1);
			po += rc_build_msg(payload + po, SB.n[sbn].addr, SB.use_seq ? seq : 0, a->type, a->d, a->dl);
			uint8_t f[500]; size_t fl = rc_frame(f, payload, (size_t) po, 1); env_push_quiet(f, fl); }
		else if (a->node >= 0) { rs_apply(&R, a->node, a->type, a->d, a->dl);
			if (a->type == MSG_ACCESSORY_NOTIFY && a->dl >= 2) SB.n[M.b[a->node].sbnode].acc_aspect[a->d[0]] = a->d[1];    /* the node that notifies a new aspect answers the following MSG_ACCESSORY_GET with it */
			sb_send(M.b[a->node].sbnode, a->type, a->d, a->dl); }
		else { rs_apply(&R, -1, a->type, a->d, a->dl); sb_send_from(UNKNOWN_NODE, 0, a->type, a->d, a->dl); }
		break;
	case A_SPEED: {   /* optimistic effect: the commanded speed; at speed 0 the direction is kept */
		int t = -1; for (int i = 0; i < M.nt; i++) if (!strcmp(M.t[i].id, a->s1)) t = i;
		if (t >= 0 && a->i1 >= -126 && a->i1 <= 126) { int fwd = a->i1 > 0 ? 1 : a->i1 < 0 ? 0 : R.tr[t].fwd; int mag = abs(a->i1); uint8_t f[4] = {0, 0, 0, 0}; rs_drive(&R, t, 0x01, (fwd << 7) | (mag ? mag + 1 : 0), f); } else exp_rc = 1;
		rc = bidib_set_train_speed(a->s1, a->i1, "master"); break; }
	case A_FUNC: {    /* optimistic effect: that function; the other functions of the group are re-sent unchanged */
		int t = -1, k = -1; for (int i = 0; i < M.nt; i++) if (!strcmp(M.t[i].id, a->s1)) t = i;
		if (t >= 0) for (int i = 0; i < M.t[t].nper; i++) if (!strcmp(M.t[t].per[i].id, a->s2)) k = i;
		if (k >= 0 && a->i1 >= 0 && a->i1 <= 1) { uint8_t f[4] = {0, 0, 0, 0}; int bit = M.t[t].per[k].bit;
			for (int i = 0; i < M.t[t].nper; i++) { int v = i == k ? a->i1 : R.tr[t].fn[i]; if (v) f[M.t[t].per[i].bit / 8] |= (uint8_t) (1 << (M.t[t].per[i].bit % 8)); }
			int grp = bit <= 4 ? 1 << 1 : bit <= 11 ? 1 << 2 : bit <= 15 ? 1 << 3 : bit <= 23 ? 1 << 4 : 1 << 5;
			rs_drive(&R, t, grp, 0, f); } else exp_rc = 1;
		rc = bidib_set_train_peripheral(a->s1, a->s2, (uint8_t) a->i1, "master"); break; }
	case A_POINT: case A_SIGNAL: {   /* DCC accessory: one MSG_CS_ACCESSORY per configured port, then the aspect id */
		int hit = 0;
		for (int b = 0; b < M.nb && !hit; b++) { const cm_dacc_t *c = a->kind == A_POINT ? M.b[b].pd : M.b[b].sd; int n = a->kind == A_POINT ? M.b[b].npd : M.b[b].nsd; rs_dacc_t *st = a->kind == A_POINT ? R.pd[b] : R.sd[b];
			for (int i = 0; i < n; i++) if (!strcmp(c[i].id, a->s1)) for (int q = 0; q < c[i].naspects; q++) if (!strcmp(c[i].aspects[q].id, a->s2)) { hit = 1;
				for (int p = 0; p < c[i].aspects[q].nports; p++) rs_cs_accessory(&st[i], (c[i].aspects[q].ports[p].port & 0x1F) | (c[i].aspects[q].ports[p].value << 5) | (c[i].extended << 7), 0);
				set_id(st[i].id, a->s2); } }
		if (!hit) exp_rc = 1;
		rc = a->kind == A_POINT ? bidib_switch_point(a->s1, a->s2) : bidib_set_signal(a->s1, a->s2); break; }
	case A_CSDRIVE: {   /* d = addrl addrh format active speed f1 f2 f3 f4, sent to the master's track output */
		int t = find_train(a->d[0], a->d[1]); if (t >= 0) rs_drive(&R, t, a->d[3], a->d[4], a->d + 5);
		t_bidib_cs_drive_mod p = {{a->d[0], a->d[1], 0}, a->d[2], a->d[3], a->d[4], a->d[5], a->d[6], a->d[7], a->d[8]};
		bidib_send_cs_drive(na, p, 0); break; }
	case A_CSACC: {     /* d = addrl addrh data time */
		rs_dacc_t *da = find_dacc(&R, 0, a->d[0], a->d[1], NULL); if (da) rs_cs_accessory(da, a->d[2], a->d[3]);
		t_bidib_cs_accessory_mod p = {{a->d[0], a->d[1], 0}, a->d[2], a->d[3]};
		bidib_send_cs_accessory(na, p, 0); break; }
	}
	settle1();
	if (rc != exp_rc) { char cls[160]; snprintf(cls, sizeof cls, "return-value type=%s", tname(a->kind, a->type)); res_violation(cls, "%s: returned %d, expected %d", what, rc, exp_rc); return 1; }
	if (nrq) { res_violation("command-flushed-early", "%s: the bus saw a command before bidib_flush", what); return 1; }
	char w2[360]; snprintf(w2, sizeof w2, "%s [before flush]", what);
	if (compare(tname(a->kind, a->type), w2)) return 1;
	settle2();
	snprintf(w2, sizeof w2, "%s [after flush and the answers of the bus]", what);
	return compare(tname(a->kind, a->type), w2);
}
static void describe(const act_t *a, char *buf, size_t n) {
	static const char *BN[] = {"master", "oc1", "lc1", "booster2"};
	switch (a->kind) {
	case A_UP: snprintf(buf, n, "%s %s from %s", tname(a->kind, a->type), hx_hex(a->d, (size_t) a->dl), a->node < 0 ? "unknown node 07.00.00" : BN[a->node]); break;
	case A_SPEED: snprintf(buf, n, "bidib_set_train_speed(%s,%d,master)", a->s1, a->i1); break;
	case A_FUNC: snprintf(buf, n, "bidib_set_train_peripheral(%s,%s,%d,master)", a->s1, a->s2, a->i1); break;
	case A_POINT: snprintf(buf, n, "bidib_switch_point(%s,%s)", a->s1, a->s2); break;
	case A_SIGNAL: snprintf(buf, n, "bidib_set_signal(%s,%s)", a->s1, a->s2); break;
	case A_CSDRIVE: snprintf(buf, n, "bidib_send_cs_drive(master, %s)", hx_hex(a->d, 9)); break;
	case A_CSACC: snprintf(buf, n, "bidib_send_cs_accessory(master, %s)", hx_hex(a->d, 4)); break;
	case A_LOSE: snprintf(buf, n, "node-lost notice for %s", M.b[a->node].id); break;
	case A_TAKE: snprintf(buf, n, "new-node notice: %s logs in at the old address of %s", M.b[a->node].id, M.b[a->i1].id); break;
	}
}
static act_t up(int node, uint8_t type, const uint8_t *d, int dl) { act_t a; memset(&a, 0, sizeof a); a.kind = A_UP; a.node = node; a.type = type; a.dl = dl; if (dl) memcpy(a.d, d, (size_t) dl); return a; }
#define UP(node, type, ...) up(node, type, (const uint8_t[]) {__VA_ARGS__}, (int) sizeof((const uint8_t[]) {__VA_ARGS__}))
static act_t cmd(akind_t k, const char *s1, const char *s2, int i1) { act_t a; memset(&a, 0, sizeof a); a.kind = k; a.s1 = s1; a.s2 = s2; a.i1 = i1; return a; }
static act_t raw(akind_t k, const uint8_t *d, int dl) { act_t a; memset(&a, 0, sizeof a); a.kind = k; a.dl = dl; memcpy(a.d, d, (size_t) dl); return a; }
#define RAW(k, ...) raw(k, (const uint8_t[]) {__VA_ARGS__}, (int) sizeof((const uint8_t[]) {__VA_ARGS__}))

/* ================================================================= sweep catalogue */
enum { B_MASTER = 0, B_OC1 = 1, B_LC1 = 2, B_BOOSTER2 = 3 };
#define T1L 0x23
#define T1H 0x01
#define T2L 0x02
#define T2H 0x03
typedef struct { act_t a[4]; int na; } case_t;
typedef struct { const char *name; int (*gen)(int k, case_t *c); } part_t;   /* gen returns 0 when k is past the end */

/* helper: message `base` with byte `pos` replaced by k % 256; field index = k / 256 over the listed positions */
static int sweep_fields(int k, case_t *c, int node, uint8_t type, const uint8_t *base, int dl, const int *pos, int npos) {
	if (k >= npos * 256) return 0;
	uint8_t d[48]; memcpy(d, base, (size_t) dl); d[pos[k / 256]] = (uint8_t) (k % 256);
	/* decoder addresses in these four messages: the two top bits of the high byte are outside a 14-bit DCC address and the
	 * message definitions do not say what they mean there (type bits like in MSG_BM_ADDRESS, or reserved); such values are
	 * not generated — the property is silent on them */
	{ int hp = type == MSG_BM_DYN_STATE ? 2 : (type == MSG_BM_SPEED || type == MSG_CS_DRIVE_ACK || type == MSG_CS_DRIVE_MANUAL) ? 1 : -1; if (hp >= 0) d[hp] &= 0x3F; }
	c->a[0] = up(node, type, d, dl); c->na = 1; return 1;
}
static int g_occ(int k, case_t *c) { if (k >= 512 + 4) return 0;
	if (k < 512) { c->a[0] = UP(B_MASTER, (uint8_t) (k & 1 ? MSG_BM_FREE : MSG_BM_OCC), (uint8_t) (k >> 1)); c->na = 1; return 1; }
	k -= 512; c->a[0] = UP(B_OC1, (uint8_t) (k & 1 ? MSG_BM_FREE : MSG_BM_OCC), (uint8_t) (k >> 1)); c->na = 1; return 1; }
static int g_free_clears(int k, case_t *c) {   /* a free report empties the address list */
	if (k >= 3) return 0;
	c->a[0] = UP(B_MASTER, MSG_BM_ADDRESS, 1, T1L, T1H, T2L, T2H | 0x80); c->a[1] = UP(B_MASTER, MSG_BM_OCC, 1);
	c->a[2] = k == 0 ? UP(B_MASTER, MSG_BM_FREE, 1) : k == 1 ? UP(B_MASTER, MSG_BM_MULTIPLE, 0, 8, 0x01) : UP(B_MASTER, MSG_BM_FREE, 9); c->na = 3; return 1; }
static int g_multiple(int k, case_t *c) {
	if (k < 256) { c->a[0] = UP(B_MASTER, MSG_BM_ADDRESS, 0, T1L, T1H); c->a[1] = UP(B_MASTER, MSG_BM_MULTIPLE, 0, 16, (uint8_t) k, 0x02); c->na = 2; return 1; } k -= 256;    /* data byte */
	if (k < 256) { c->a[0] = UP(B_MASTER, MSG_BM_MULTIPLE, 0, 16, 0x01, (uint8_t) k); c->na = 1; return 1; } k -= 256;                                                              /* second data byte (segment 9 = bit 1) */
	if (k < 256) { c->a[0] = UP(B_MASTER, MSG_BM_MULTIPLE, (uint8_t) k, 8, (uint8_t) (k & 1 ? 0xFF : 0x00)); c->na = 1; return 1; } k -= 256;                                      /* base */
	if (k < 17) { uint8_t d[20]; d[0] = 0; d[1] = (uint8_t) (k * 8); for (int i = 0; i < 16; i++) d[2 + i] = (uint8_t) (k & 1 ? 0xFF : 0x55); c->a[0] = up(B_MASTER, MSG_BM_MULTIPLE, d, 2 + k); c->na = 1; return 1; } k -= 17;   /* size 0..128 */
	if (k < 4) { c->a[0] = UP(B_OC1, MSG_BM_MULTIPLE, 0, 8, (uint8_t) k); c->na = 1; return 1; }
	return 0; }
static int g_address_fields(int k, case_t *c) { static const uint8_t base[3] = {0, T1L, T1H}; static const int pos[3] = {0, 1, 2}; return sweep_fields(k, c, B_MASTER, MSG_BM_ADDRESS, base, 3, pos, 3); }
static int g_address_lists(int k, case_t *c) {   /* lists of 0..3 entries out of {T1 fwd, T1 back, T2 back, unknown loco, accessory}, and the free form, on seg1 and seg4 */
	static const uint8_t E[5][2] = {{T1L, T1H}, {T1L, T1H | 0x80}, {T2L, T2H | 0x80}, {0x55, 0x05}, {0x22, 0x11 | 0x40}};
	const int per_seg = 1 + 5 + 25 + 125 + 1; if (k >= 2 * per_seg) return 0;
	int node = k / per_seg ? B_OC1 : B_MASTER; k %= per_seg; uint8_t d[8]; memset(d, 0, sizeof d); int n;
	if (k == per_seg - 1) n = 1;                                  /* free form: the single address 0x0000 */
	else { if (k == 0) n = 0; else if (k < 6) { n = 1; k -= 1; } else if (k < 31) { n = 2; k -= 6; } else { n = 3; k -= 31; }
		for (int i = 0; i < n; i++) { d[1 + 2 * i] = E[k % 5][0]; d[2 + 2 * i] = E[k % 5][1]; k /= 5; } }
	c->a[0] = up(node, MSG_BM_ADDRESS, d, 1 + 2 * n); c->na = 1; return 1; }
static int g_confidence(int k, case_t *c) { static const uint8_t base[3] = {0, 0, 0}; static const int pos[3] = {0, 1, 2};
	if (k < 768) return sweep_fields(k, c, B_MASTER, MSG_BM_CONFIDENCE, base, 3, pos, 3); k -= 768;
	if (k < 8) { c->a[0] = UP(B_OC1, MSG_BM_CONFIDENCE, (uint8_t) (k & 1), (uint8_t) (k >> 1 & 1), (uint8_t) (k >> 2 & 1)); c->na = 1; return 1; }
	return 0; }
static int g_current(int k, case_t *c) { static const uint8_t base[2] = {0, 100}; static const int pos[2] = {1, 0};
	if (k < 512) return sweep_fields(k, c, B_MASTER, MSG_BM_CURRENT, base, 2, pos, 2); k -= 512;
	if (k < 256) { c->a[0] = UP(B_OC1, MSG_BM_CURRENT, 0, (uint8_t) k); c->na = 1; return 1; }
	return 0; }
static int g_speed(int k, case_t *c) { static const uint8_t base[4] = {T1L, T1H, 0x50, 0x00}; static const int pos[4] = {2, 3, 0, 1};
	if (k < 1024) return sweep_fields(k, c, B_MASTER, MSG_BM_SPEED, base, 4, pos, 4); k -= 1024;
	if (k < 2) { c->a[0] = UP(k ? B_OC1 : B_MASTER, MSG_BM_SPEED, T2L, T2H, 0x2C, 0x01); c->na = 1; return 1; }
	return 0; }
static int g_dyn(int k, case_t *c) { static const uint8_t base[5] = {0, T1L, T1H, 1, 50}; static const int pos[4] = {3, 0, 1, 2};
	if (k < 1024) return sweep_fields(k, c, B_MASTER, MSG_BM_DYN_STATE, base, 5, pos, 4); k -= 1024;
	if (k < 5 * 256) { c->a[0] = UP(B_OC1, MSG_BM_DYN_STATE, 0, T2L, T2H, (uint8_t) (1 + k / 256), (uint8_t) (k % 256)); c->na = 1; return 1; }
	return 0; }
static int g_boost_stat(int k, case_t *c) {
	if (k < 256) { c->a[0] = UP(B_MASTER, MSG_BOOST_STAT, (uint8_t) k); c->na = 1; return 1; } k -= 256;
	static const uint8_t few[6] = {0x80, 0x01, 0x00, 0x83, 0x06, 0x42};
	if (k < 6) { c->a[0] = UP(B_BOOSTER2, MSG_BOOST_STAT, few[k]); c->na = 1; return 1; }
	return 0; }
static int g_diag_fields(int k, case_t *c) {
	if (k < 256) { c->a[0] = UP(B_MASTER, MSG_BOOST_DIAGNOSTIC, (uint8_t) k, 0x40); c->na = 1; return 1; } k -= 256;           /* key */
	if (k < 768) { c->a[0] = UP(k / 256 == 1 ? B_BOOSTER2 : B_MASTER, MSG_BOOST_DIAGNOSTIC, (uint8_t) (k / 256), (uint8_t) (k % 256)); c->na = 1; return 1; }     /* value per key */
	return 0; }
static int g_diag_lists(int k, case_t *c) {   /* 0..3 pairs with distinct keys in every order, values out of {0,1,2,0x90} (three of them equal a key code) */
	static const uint8_t V[4] = {0x00, 0x01, 0x02, 0x90};
	static const uint8_t P2[6][2] = {{0, 1}, {0, 2}, {1, 0}, {1, 2}, {2, 0}, {2, 1}}, P3[6][3] = {{0, 1, 2}, {0, 2, 1}, {1, 0, 2}, {1, 2, 0}, {2, 0, 1}, {2, 1, 0}};
	uint8_t d[6]; int n; const uint8_t *keys; uint8_t k1[1];
	if (k == 0) { n = 0; keys = k1; } else if (k < 13) { k -= 1; n = 1; k1[0] = (uint8_t) (k / 4); keys = k1; k %= 4; }
	else if (k < 13 + 96) { k -= 13; n = 2; keys = P2[k / 16]; k %= 16; } else if (k < 13 + 96 + 384) { k -= 109; n = 3; keys = P3[k / 64]; k %= 64; } else return 0;
	for (int i = 0; i < n; i++) { d[2 * i] = keys[i]; d[2 * i + 1] = V[k % 4]; k /= 4; }
	c->a[0] = up(B_MASTER, MSG_BOOST_DIAGNOSTIC, d, 2 * n); c->na = 1; return 1; }
static int g_cs_state(int k, case_t *c) {
	if (k < 256) { c->a[0] = UP(B_MASTER, MSG_CS_STATE, (uint8_t) k); c->na = 1; return 1; } k -= 256;
	static const uint8_t few[5] = {0x00, 0x03, 0x08, 0x0D, 0xFF};
	if (k < 5) { c->a[0] = UP(B_BOOSTER2, MSG_CS_STATE, few[k]); c->na = 1; return 1; }
	return 0; }
static int g_drive_ack(int k, case_t *c) { static const uint8_t base[3] = {T1L, T1H, 2}; static const int pos[3] = {2, 0, 1};
	if (k < 768) return sweep_fields(k, c, B_MASTER, MSG_CS_DRIVE_ACK, base, 3, pos, 3); k -= 768;
	if (k < 5) { c->a[0] = UP(B_BOOSTER2, MSG_CS_DRIVE_ACK, T2L, T2H, (uint8_t) k); c->na = 1; return 1; }
	return 0; }
static int g_acc_ack(int k, case_t *c) { static const uint8_t base[3] = {0x22, 0x11, 2}; static const int pos[3] = {2, 0, 1};
	if (k < 768) return sweep_fields(k, c, B_MASTER, MSG_CS_ACCESSORY_ACK, base, 3, pos, 3); k -= 768;
	if (k < 5) { c->a[0] = UP(B_MASTER, MSG_CS_ACCESSORY_ACK, 0x23, 0x11, (uint8_t) k); c->na = 1; return 1; }
	return 0; }
static int g_drive_manual(int k, case_t *c) { static const uint8_t base[9] = {T1L, T1H, 3, 0x3F, 0x8B, 0x10, 0x02, 0, 0}; static const int pos[9] = {4, 3, 5, 6, 7, 8, 2, 0, 1};
	if (k < 9 * 256) return sweep_fields(k, c, B_MASTER, MSG_CS_DRIVE_MANUAL, base, 9, pos, 9); k -= 9 * 256;
	if (k < 256) { c->a[0] = UP(B_MASTER, MSG_CS_DRIVE_MANUAL, T2L, T2H, 2, 0x01, (uint8_t) k, 0, 0, 0, 0); c->na = 1; return 1; } k -= 256;      /* speed only */
	if (k < 64) { c->a[0] = UP(B_BOOSTER2, MSG_CS_DRIVE_MANUAL, T2L, T2H, 2, (uint8_t) k, 0x05, 0x1F, 0xFF, 0xFF, 0xFF); c->na = 1; return 1; }
	return 0; }
static int g_acc_manual(int k, case_t *c) { static const uint8_t base[3] = {0x22, 0x11, 0x21}; static const int pos[3] = {2, 0, 1};
	if (k < 768) return sweep_fields(k, c, B_MASTER, MSG_CS_ACCESSORY_MANUAL, base, 3, pos, 3); k -= 768;
	if (k < 256) { c->a[0] = UP(B_MASTER, MSG_CS_ACCESSORY_MANUAL, 0x23, 0x11, (uint8_t) k); c->na = 1; return 1; }
	return 0; }
static int g_acc_state(int k, case_t *c) { static const uint8_t base[5] = {2, 1, 2, 0, 0}; static const int pos[5] = {1, 3, 4, 2, 0};
	if (k < 5 * 256) return sweep_fields(k, c, B_OC1, MSG_ACCESSORY_STATE, base, 5, pos, 5); k -= 5 * 256;
	static const uint8_t sbase[5] = {0x10, 2, 2, 0, 0}; static const int spos[3] = {1, 3, 0};
	if (k < 3 * 256) return sweep_fields(k, c, B_LC1, MSG_ACCESSORY_NOTIFY, sbase, 5, spos, 3); k -= 3 * 256;
	if (k < 256) { c->a[0] = UP(B_OC1, MSG_ACCESSORY_NOTIFY, 3, (uint8_t) k, 2, 1, 0x85); c->na = 1; return 1; }
	return 0; }
static int g_lc(int k, case_t *c) { static const uint8_t base[3] = {0x23, 0x01, 0}; static const int pos[3] = {2, 0, 1};
	if (k < 768) return sweep_fields(k, c, B_LC1, MSG_LC_STAT, base, 3, pos, 3); k -= 768;
	if (k < 768) return sweep_fields(k, c, B_LC1, MSG_LC_WAIT, base, 3, pos, 3); k -= 768;
	if (k < 256) { c->a[0] = UP(B_LC1, (uint8_t) (k & 1 ? MSG_LC_WAIT : MSG_LC_STAT), 0x24, 0x01, (uint8_t) (k >> 1 | (k & 2) << 6)); c->na = 1; return 1; }
	return 0; }
static act_t vendor(int node, const char *name, const char *value) { uint8_t d[40]; int nl = (int) strlen(name), vl = (int) strlen(value); d[0] = (uint8_t) nl; memcpy(d + 1, name, (size_t) nl); d[1 + nl] = (uint8_t) vl; memcpy(d + 2 + nl, value, (size_t) vl); return up(node, MSG_VENDOR, d, 2 + nl + vl); }
static int g_vendor(int k, case_t *c) {
	static const char *VAL[] = {"3", "0", "1", "3", "", "0", "2", "3", "3", "0", "0", "3", "9", "0"};   /* multi-character values are not defined states: not generated */
	static const char *NAME[] = {"30051", "30052", "3005", "300510", "", "30051x", "0"};
	if (k < 14) { c->a[0] = vendor(B_MASTER, "30051", VAL[k]); c->na = 1; return 1; } k -= 14;
	if (k < 256) { char v[2] = {(char) k, 0}; if (!k) v[0] = '3'; c->a[0] = vendor(B_MASTER, "30051", v); c->na = 1; return 1; } k -= 256;      /* every single value character */
	if (k < 14) { c->a[0] = vendor(B_MASTER, NAME[k % 7], k < 7 ? "3" : "0"); c->na = 1; return 1; } k -= 14;
	if (k < 4) { c->a[0] = vendor(k & 1 ? B_OC1 : B_LC1, "30051", k < 2 ? "3" : "0"); c->na = 1; return 1; }
	return 0; }
/* every message kind from a node address that is not on the bus, and from a configured board that has no such equipment */
static int g_unknown_sender(int k, case_t *c) {
	act_t T[] = { UP(-1, MSG_BM_OCC, 0), UP(-1, MSG_BM_FREE, 0), UP(-1, MSG_BM_MULTIPLE, 0, 8, 0xFF), UP(-1, MSG_BM_ADDRESS, 0, T1L, T1H), UP(-1, MSG_BM_CONFIDENCE, 1, 1, 1), UP(-1, MSG_BM_CURRENT, 0, 100),
		UP(-1, MSG_BOOST_STAT, 0x80), UP(-1, MSG_BOOST_DIAGNOSTIC, 0, 0x40, 1, 0x90, 2, 0x19), UP(-1, MSG_CS_STATE, 0x00), UP(-1, MSG_CS_ACCESSORY_ACK, 0x22, 0x11, 2), UP(-1, MSG_CS_ACCESSORY_MANUAL, 0x22, 0x11, 0x20),
		UP(-1, MSG_ACCESSORY_STATE, 2, 0, 2, 0, 0), UP(-1, MSG_ACCESSORY_NOTIFY, 0x10, 2, 2, 0, 0), UP(-1, MSG_LC_STAT, 0x23, 0x01, 0), UP(-1, MSG_LC_WAIT, 0x23, 0x01, 0x85), vendor(-1, "30051", "3") };
	int n = (int) (sizeof T / sizeof T[0]); static const int WRONG[3] = {-1, B_LC1, B_OC1};
	if (k >= 3 * n) return 0;
	c->a[0] = T[k % n]; c->a[0].node = WRONG[k / n];
	/* lc1 has no segments / boosters / DCC accessories / points; oc1 is neither booster nor track output, has no DCC accessories, peripherals, reversers, signal 0x10 */
	if (k / n == 1 && (c->a[0].type == MSG_ACCESSORY_NOTIFY || c->a[0].type == MSG_LC_STAT || c->a[0].type == MSG_LC_WAIT)) c->a[0].node = B_BOOSTER2;
	if (k / n == 2 && (c->a[0].type == MSG_BM_OCC || c->a[0].type == MSG_BM_FREE || c->a[0].type == MSG_BM_MULTIPLE || c->a[0].type == MSG_BM_ADDRESS || c->a[0].type == MSG_BM_CONFIDENCE || c->a[0].type == MSG_BM_CURRENT)) c->a[0].node = B_BOOSTER2;
	if (k / n == 2 && c->a[0].type == MSG_ACCESSORY_STATE) c->a[0].d[0] = 0x10;
	c->na = 1; return 1; }
/* the sender of a message is an address: after a board was lost, what arrives from its old address changes nothing — or belongs to
 * the board that has logged in there since; a board that logged in elsewhere is reached at its new address */
static int g_relogin(int k, case_t *c) {
	act_t TO[] = { UP(B_OC1, MSG_BM_OCC, 0), UP(B_OC1, MSG_BM_MULTIPLE, 0, 8, 0x01), UP(B_OC1, MSG_BM_ADDRESS, 0, T1L, T1H), UP(B_OC1, MSG_BM_CURRENT, 0, 100), UP(B_OC1, MSG_BM_CONFIDENCE, 0, 1, 0), UP(B_OC1, MSG_ACCESSORY_STATE, 2, 0, 2, 1, 5), UP(B_OC1, MSG_ACCESSORY_STATE, 0x10, 1, 2, 0, 0), UP(B_OC1, MSG_LC_STAT, 0x23, 0x01, 1) };
	act_t TL[] = { UP(B_LC1, MSG_ACCESSORY_STATE, 0x10, 1, 2, 0, 0), UP(B_LC1, MSG_ACCESSORY_NOTIFY, 0x10, 0, 2, 0, 0), UP(B_LC1, MSG_LC_STAT, 0x23, 0x01, 1), UP(B_LC1, MSG_LC_WAIT, 0x24, 0x01, 0x85), UP(B_LC1, MSG_BM_OCC, 0), UP(B_LC1, MSG_ACCESSORY_STATE, 2, 0, 2, 1, 5) };
	int no = (int) (sizeof TO / sizeof TO[0]), nl = (int) (sizeof TL / sizeof TL[0]);
	act_t lose_oc1 = {A_LOSE, B_OC1, 0, {0}, 0, NULL, NULL, 0}, lose_lc1 = {A_LOSE, B_LC1, 0, {0}, 0, NULL, NULL, 0}, take = {A_TAKE, B_LC1, 0, {0}, 0, NULL, NULL, B_OC1};
	if (k < no) { c->a[0] = lose_oc1; c->a[1] = TO[k]; c->na = 2; return 1; } k -= no;
	if (k < nl) { c->a[0] = lose_lc1; c->a[1] = TL[k]; c->na = 2; return 1; } k -= nl;
	if (k < no) { c->a[0] = lose_oc1; c->a[1] = lose_lc1; c->a[2] = take; c->a[3] = TO[k]; c->na = 4; return 1; } k -= no;
	if (k < nl) { c->a[0] = lose_oc1; c->a[1] = lose_lc1; c->a[2] = take; c->a[3] = TL[k]; c->na = 4; return 1; }
	return 0; }
/* several messages in one packet: the state-bearing message follows a message from a node two or three levels deep (its own
 * address is shorter, so whatever is left of the earlier address must not leak into it) */
static int g_shared_packet(int k, case_t *c) {
	act_t T[] = { UP(B_MASTER, MSG_BM_OCC, 0), UP(B_MASTER, MSG_BM_ADDRESS, 0, T1L, T1H), UP(B_MASTER, MSG_BM_CURRENT, 0, 100), UP(B_MASTER, MSG_BOOST_STAT, 0x80), UP(B_MASTER, MSG_CS_STATE, 0x03),
		UP(B_MASTER, MSG_CS_DRIVE_MANUAL, T1L, T1H, 3, 0x03, 0x8B, 0x11, 0, 0, 0), UP(B_MASTER, MSG_CS_ACCESSORY_ACK, 0x22, 0x11, 2), vendor(B_MASTER, "30051", "3"),
		UP(B_OC1, MSG_BM_OCC, 0), UP(B_OC1, MSG_BM_CURRENT, 0, 100), UP(B_OC1, MSG_ACCESSORY_STATE, 2, 0, 2, 1, 5), UP(B_LC1, MSG_ACCESSORY_STATE, 0x10, 1, 2, 0, 0), UP(B_LC1, MSG_LC_STAT, 0x23, 0x01, 1), UP(B_BOOSTER2, MSG_BOOST_STAT, 0x81) };
	int n = (int) (sizeof T / sizeof T[0]);
	if (k >= 2 * n) return 0;
	c->a[0] = T[k % n]; c->a[0].i1 = 1 + k / n; c->na = 1; return 1; }
static int g_cmd_speed(int k, case_t *c) {
	if (k < 253) { c->a[0] = cmd(A_SPEED, "train1", NULL, k - 126); c->na = 1; return 1; } k -= 253;
	static const int S2[8] = {0, 5, 0, -5, 0, 28, -126, 0};
	if (k < 8) { c->a[0] = cmd(A_SPEED, "train2", NULL, S2[k]); c->na = 1; return 1; } k -= 8;
	static const int BAD[4] = {127, -127, 1000, -1000};
	if (k < 4) { c->a[0] = cmd(A_SPEED, "train1", NULL, BAD[k]); c->na = 1; return 1; } k -= 4;
	if (k < 1) { c->a[0] = cmd(A_SPEED, "nosuch", NULL, 5); c->na = 1; return 1; }
	return 0; }
static int g_cmd_func(int k, case_t *c) {
	static const char *F1[] = {"head_light", "cabin_light", "horn", "nosuch"};
	if (k < 16) { c->a[0] = cmd(A_FUNC, "train1", F1[k % 4], (k / 4) & 1); c->na = 1; return 1; } k -= 16;
	if (k < 4) { c->a[0] = cmd(A_FUNC, "train2", k & 2 ? "head_light" : "light", k & 1); c->na = 1; return 1; } k -= 4;
	if (k < 2) { c->a[0] = cmd(A_FUNC, k ? "nosuch" : "train1", "horn", k ? 1 : 2); c->na = 1; return 1; }
	return 0; }
static int g_cmd_accessory(int k, case_t *c) {
	static const char *PA[] = {"reverse", "normal", "reverse", "nosuch", "normal"}; static const char *SA[] = {"go", "stop", "go", "nosuch", "stop"};
	if (k < 5) { c->a[0] = cmd(A_POINT, "pointd", PA[k], 0); c->na = 1; return 1; } k -= 5;
	if (k < 5) { c->a[0] = cmd(A_SIGNAL, "signald", SA[k], 0); c->na = 1; return 1; } k -= 5;
	if (k < 2) { c->a[0] = cmd(k ? A_SIGNAL : A_POINT, "nosuch", "normal", 0); c->na = 1; return 1; }
	return 0; }
static int g_cmd_csdrive(int k, case_t *c) {
	if (k < 64) { c->a[0] = RAW(A_CSDRIVE, T1L, T1H, 3, 0, 0x8B, 0x1F, 0xFF, 0, 0); c->a[0].d[3] = (uint8_t) k; c->na = 1; return 1; } k -= 64;      /* active */
	if (k < 256) { c->a[0] = RAW(A_CSDRIVE, T1L, T1H, 3, 0x01, 0, 0, 0, 0, 0); c->a[0].d[4] = (uint8_t) k; c->na = 1; return 1; } k -= 256;            /* speed */
	if (k < 32) { c->a[0] = RAW(A_CSDRIVE, T1L, T1H, 3, 0x02, 0, 0, 0, 0, 0); c->a[0].d[5] = (uint8_t) k; c->na = 1; return 1; } k -= 32;             /* F0..F4 */
	if (k < 256) { c->a[0] = RAW(A_CSDRIVE, T1L, T1H, 3, 0x04, 0, 0, 0, 0, 0); c->a[0].d[6] = (uint8_t) k; c->na = 1; return 1; } k -= 256;            /* F5..F12 */
	if (k < 256) { c->a[0] = RAW(A_CSDRIVE, T2L, T2H, 2, 0x03, 0x85, 0x10, 0, 0, 0); c->a[0].d[0] = (uint8_t) k; c->na = 1; return 1; } k -= 256;       /* address low byte */
	return 0; }
static int g_cmd_csacc(int k, case_t *c) {
	if (k < 256) { c->a[0] = RAW(A_CSACC, 0x22, 0x11, 0, 0); c->a[0].d[2] = (uint8_t) k; c->na = 1; return 1; } k -= 256;       /* data */
	if (k < 256) { c->a[0] = RAW(A_CSACC, 0x23, 0x11, 0x61, 0); c->a[0].d[3] = (uint8_t) k; c->na = 1; return 1; } k -= 256;    /* time */
	if (k < 256) { c->a[0] = RAW(A_CSACC, 0x22, 0x11, 0x21, 0x05); c->a[0].d[1] = (uint8_t) k; c->na = 1; return 1; } k -= 256; /* address high byte */
	return 0; }
static const part_t PARTS[] = {
	{"BM_OCC/BM_FREE detector number", g_occ}, {"free report empties the address list", g_free_clears}, {"BM_MULTIPLE data/base/size", g_multiple}, {"BM_ADDRESS number/address bytes", g_address_fields},
	{"BM_ADDRESS lists of 0..3 entries", g_address_lists}, {"BM_CONFIDENCE", g_confidence}, {"BM_CURRENT code/number", g_current}, {"BM_SPEED", g_speed}, {"BM_DYN_STATE", g_dyn},
	{"BOOST_STAT", g_boost_stat}, {"BOOST_DIAGNOSTIC key/value", g_diag_fields}, {"BOOST_DIAGNOSTIC lists of 0..3 pairs", g_diag_lists}, {"CS_STATE", g_cs_state}, {"CS_DRIVE_ACK", g_drive_ack},
	{"CS_ACCESSORY_ACK", g_acc_ack}, {"CS_DRIVE_MANUAL", g_drive_manual}, {"CS_ACCESSORY_MANUAL", g_acc_manual}, {"ACCESSORY_STATE/NOTIFY", g_acc_state}, {"LC_STAT/LC_WAIT", g_lc}, {"VENDOR (reverser)", g_vendor},
	{"unknown or wrong sender", g_unknown_sender}, {"sender address of a lost board / taken over by another board", g_relogin}, {"message shares its packet with one from a deeper node", g_shared_packet}, {"bidib_set_train_speed", g_cmd_speed}, {"bidib_set_train_peripheral", g_cmd_func}, {"bidib_switch_point/bidib_set_signal (DCC)", g_cmd_accessory},
	{"bidib_send_cs_drive", g_cmd_csdrive}, {"bidib_send_cs_accessory", g_cmd_csacc},
};
#define NPARTS ((int) (sizeof PARTS / sizeof PARTS[0]))
#define CHUNK 8
static int part_count(int p) { case_t c; int k = 0; while (PARTS[p].gen(k, &c)) k++; return k; }

static void sweep_child(const void *job, size_t n) {
	vs_dev_t devs[VS_MAXDEV]; int nd; size_t pl; const uint8_t *p = job_parse(job, n, devs, &nd, &pl);
	int part = p[0], first = p[1] | p[2] << 8, count = p[3]; long cases = 0;
	begin_normal();
	if (getenv("VERIF_DEBUG")) { sd_dump(LIBD, sizeof LIBD); rs_dump(&R, REFD, sizeof REFD); res_printf("X lib %s\nX ref %s\n", LIBD, REFD); }
	if (!compare(NULL, "after start-up")) for (int k = first; k < first + count; k++) {
		case_t c; memset(&c, 0, sizeof c); if (!PARTS[part].gen(k, &c)) break;
		res_progress(k); int bad = 0;
		for (int i = 0; i < c.na && !bad; i++) { char what[300], de[220]; describe(&c.a[i], de, sizeof de); snprintf(what, sizeof what, "part '%s' case %d step %d: %s", PARTS[part].name, k, i, de); bad = do_act(&c.a[i], what); }
		cases++; if (bad) break;
	}
	hx_emit_ledger_violations("C07");
	sd_dump(LIBD, sizeof LIBD); hx_hash_t h; hx_hash_init(&h); hx_hash_str(&h, LIBD);
	res_printf("O %llx %llx\nC sweep_cases %ld\n", (unsigned long long) h.a, (unsigned long long) h.b, cases);
	res_finish();
}
static struct { int part, first, count; } CH[8192]; static int nch;
static size_t sweep_gen(long idx, uint8_t *payload, char *human, size_t hn) {
	payload[0] = (uint8_t) CH[idx].part; payload[1] = (uint8_t) (CH[idx].first & 0xFF); payload[2] = (uint8_t) (CH[idx].first >> 8); payload[3] = (uint8_t) CH[idx].count;
	snprintf(human, hn, "part '%s' cases %d..%d", PARTS[CH[idx].part].name, CH[idx].first, CH[idx].first + CH[idx].count - 1); return 4;
}
static void sweep_result(long idx, const run_res_t *r) {
	if (r->status != 1 && r->status != 3) return;
	long k = res_last_progress(r); case_t c; memset(&c, 0, sizeof c); char de[220] = "(before the first case)", cls[160] = "crash-while-applying type=?";
	if (k >= 0 && PARTS[CH[idx].part].gen((int) k, &c)) { describe(&c.a[0], de, sizeof de); snprintf(cls, sizeof cls, "crash-while-applying type=%s", tname(c.a[c.na - 1].kind, c.a[c.na - 1].type)); }
	uint8_t payload[8]; char human[200]; size_t pn = sweep_gen(idx, payload, human, sizeof human); uint8_t job[64]; size_t jn = job_build(job, NULL, 0, payload, pn);
	char det[400]; snprintf(det, sizeof det, "child died (status %d signal %d) in part '%s' case %ld: %s", r->status, r->sig, PARTS[CH[idx].part].name, k, de);
	rep_violation(cls, det, "c07.sweep", job, jn, human);
}

/* ================================================================= histories */
static act_t HEV[40]; static int nhev;
static void hev_build(void) {
	nhev = 0;
	HEV[nhev++] = UP(B_MASTER, MSG_BM_OCC, 0);
	HEV[nhev++] = UP(B_MASTER, MSG_BM_FREE, 0);
	HEV[nhev++] = UP(B_MASTER, MSG_BM_MULTIPLE, 0, 8, 0x02);
	HEV[nhev++] = UP(B_MASTER, MSG_BM_ADDRESS, 0, T1L, T1H);
	HEV[nhev++] = UP(B_MASTER, MSG_BM_ADDRESS, 1, T1L, T1H | 0x80, T2L, T2H);
	HEV[nhev++] = UP(B_MASTER, MSG_BM_ADDRESS, 0, 0, 0);
	HEV[nhev++] = UP(B_MASTER, MSG_BM_CONFIDENCE, 1, 0, 1);
	HEV[nhev++] = UP(B_OC1, MSG_BM_CURRENT, 0, 100);
	HEV[nhev++] = UP(B_OC1, MSG_BM_CURRENT, 0, 254);
	HEV[nhev++] = UP(B_MASTER, MSG_BM_SPEED, T1L, T1H, 0x50, 0x00);
	HEV[nhev++] = UP(B_MASTER, MSG_BM_DYN_STATE, 0, T1L, T1H, 1, 5);
	HEV[nhev++] = UP(B_MASTER, MSG_BM_DYN_STATE, 0, T1L, T1H, 2, 0xF0);
	HEV[nhev++] = UP(B_MASTER, MSG_BOOST_STAT, 0x80);
	HEV[nhev++] = UP(B_MASTER, MSG_BOOST_STAT, 0x01);
	HEV[nhev++] = UP(B_MASTER, MSG_BOOST_DIAGNOSTIC, 0, 0x40, 1, 0x90, 2, 0x19);
	HEV[nhev++] = UP(B_BOOSTER2, MSG_BOOST_DIAGNOSTIC, 1, 0xFF, 0, 0xFE);
	HEV[nhev++] = UP(B_MASTER, MSG_CS_STATE, 0x00);
	HEV[nhev++] = UP(B_MASTER, MSG_CS_STATE, 0x03);
	HEV[nhev++] = UP(B_MASTER, MSG_CS_DRIVE_ACK, T1L, T1H, 0);
	HEV[nhev++] = UP(B_MASTER, MSG_CS_ACCESSORY_ACK, 0x22, 0x11, 2);
	HEV[nhev++] = UP(B_MASTER, MSG_CS_DRIVE_MANUAL, T1L, T1H, 3, 0x03, 0x8B, 0x11, 0, 0, 0);
	HEV[nhev++] = UP(B_MASTER, MSG_CS_ACCESSORY_MANUAL, 0x22, 0x11, 0x20);
	HEV[nhev++] = UP(B_OC1, MSG_ACCESSORY_STATE, 2, 0, 2, 1, 5);
	HEV[nhev++] = UP(B_LC1, MSG_ACCESSORY_NOTIFY, 0x10, 2, 2, 0, 0);
	HEV[nhev++] = UP(B_LC1, MSG_LC_STAT, 0x23, 0x01, 0);
	HEV[nhev++] = UP(B_LC1, MSG_LC_WAIT, 0x23, 0x01, 0x85);
	HEV[nhev++] = vendor(B_MASTER, "30051", "3");
	HEV[nhev++] = cmd(A_SPEED, "train1", NULL, -20);
	HEV[nhev++] = cmd(A_SPEED, "train1", NULL, 0);
	HEV[nhev++] = cmd(A_FUNC, "train1", "horn", 1);
	HEV[nhev++] = cmd(A_POINT, "pointd", "reverse", 0);
	HEV[nhev++] = RAW(A_CSDRIVE, T2L, T2H, 2, 0x03, 0x05, 0x10, 0, 0, 0);
	HEV[nhev++] = RAW(A_CSACC, 0x22, 0x11, 0x61, 0x83);
}
/* alphabet 1 (deeper exploration): the events that touch shared entities - segments/trains, drive state, DCC and board
 * accessories; the events left out each write one field that nothing else reads or writes */
static const int SUBSET[] = {0, 1, 2, 3, 4, 5, 18, 19, 20, 21, 23, 27, 28, 29, 30, 31, 32};
#define NSUBSET ((int) (sizeof SUBSET / sizeof SUBSET[0]))
static int hev_alpha;
static int hev_index(int ev) { return hev_alpha ? SUBSET[ev] : ev; }
static const char *hevname(int ev) { static char b[4][240]; static int k; char *s = b[k++ & 3]; if (!nhev) hev_build(); describe(&HEV[hev_index(ev)], s, 240); return s; }
static void hist_child(const void *job, size_t n) {
	vs_dev_t devs[VS_MAXDEV]; int nd; size_t pl; const uint8_t *p = job_parse(job, n, devs, &nd, &pl);
	int len = p[1]; const uint8_t *ev = p + 2;
	hev_build(); hev_alpha = p[0]; begin_normal();
	if (!compare(NULL, "after start-up")) for (int i = 0; i < len; i++) {
		const act_t *a = &HEV[hev_index(ev[i])];
		char what[300], de[220]; describe(a, de, sizeof de); snprintf(what, sizeof what, "event %d: %s", i, de);
		if (do_act(a, what)) { if (i < len - 1) res_infra("violation before the last event"); break; }
	}
	hx_emit_ledger_violations("C07");
	sd_dump(LIBD, sizeof LIBD); hx_hash_t h; hx_hash_init(&h); hx_hash_str(&h, LIBD);
	res_printf("S %llx %llx\n", (unsigned long long) h.a, (unsigned long long) h.b);
	res_finish();
}
/* ================================================================= c07.sched (E1): no report is lost under contention
 * "At any quiescent moment the state equals the fold of EVERY feedback message received": the receiver processes one report of
 * each kind while an application thread reads the whole state (snapshot and single getters — every state mutex is taken by the
 * reader at some point).  All schedules with <= 1 (thorough 2) preemptions; afterwards, at quiescence, the state must be the fold
 * including that report.  (A handler that gives up when it finds a mutex busy drops the report only under such a schedule.) */
static act_t sched_templates(int k, int *n) {
	act_t T[] = { UP(B_MASTER, MSG_BM_OCC, 0), UP(B_MASTER, MSG_BM_ADDRESS, 0, T1L, T1H), UP(B_MASTER, MSG_BM_CURRENT, 0, 100), UP(B_MASTER, MSG_BM_CONFIDENCE, 1, 0, 1), UP(B_MASTER, MSG_BM_SPEED, T1L, T1H, 0x50, 0x00),
		UP(B_MASTER, MSG_BM_DYN_STATE, 0, T1L, T1H, 1, 5), UP(B_MASTER, MSG_BOOST_STAT, 0x80), UP(B_MASTER, MSG_BOOST_DIAGNOSTIC, 0, 0x40, 1, 0x90, 2, 0x19), UP(B_BOOSTER2, MSG_BOOST_DIAGNOSTIC, 1, 0x70, 0, 0x20),
		UP(B_MASTER, MSG_CS_STATE, 0x00), UP(B_MASTER, MSG_CS_DRIVE_ACK, T1L, T1H, 1), UP(B_MASTER, MSG_CS_ACCESSORY_ACK, 0x22, 0x11, 2), UP(B_MASTER, MSG_CS_DRIVE_MANUAL, T1L, T1H, 3, 0x03, 0x8B, 0x11, 0, 0, 0),
		UP(B_MASTER, MSG_CS_ACCESSORY_MANUAL, 0x22, 0x11, 0x20), UP(B_OC1, MSG_ACCESSORY_STATE, 2, 0, 2, 1, 5), UP(B_LC1, MSG_ACCESSORY_STATE, 0x10, 1, 2, 0, 0), UP(B_LC1, MSG_LC_STAT, 0x23, 0x01, 1), UP(B_LC1, MSG_LC_WAIT, 0x24, 0x01, 0x85), vendor(B_MASTER, "30051", "3") };
	*n = (int) (sizeof T / sizeof T[0]); return T[k < *n ? k : 0]; }
static void *sched_reader(void *arg) { (void) arg; static char buf[1 << 15]; sd_dump(buf, sizeof buf); sd_dump(buf, sizeof buf); return NULL; }
static void sched_child(const void *job, size_t n) {
	vs_dev_t devs[VS_MAXDEV]; int nd; size_t pl; const uint8_t *p = job_parse(job, n, devs, &nd, &pl);
	int k = p[0], nt; act_t a = sched_templates(k, &nt);
	hx_child_begin(devs, nd, 1, NULL, 0, 0);
	if (getenv("VERIF_LOG")) env_log_to_stderr = 1;
	cm_std(&M); cm_install(&M); hook_on = 0; nrq = 0; SB.on_msg = bus_hook;
	if (hx_start_normal(0)) res_infra("normal start failed");
	hx_quiesce(); bidib_flush(); hx_quiesce(); drain();
	hook_on = 1; rs_init(&R, &M); for (int b = 0; b < M.nb; b++) cm_board_addr(&M, b, BADDR[b]);
	char de[220], what[300]; describe(&a, de, sizeof de); snprintf(what, sizeof what, "%s processed while a reader takes every state lock", de);
	/* queue the report (no scheduling point), let the reader and the receiver race */
	rs_apply(&R, a.node, a.type, a.d, a.dl);
	if (a.type == MSG_ACCESSORY_NOTIFY && a.dl >= 2) SB.n[M.b[a.node].sbnode].acc_aspect[a.d[0]] = a.d[1];
	sb_send(M.b[a.node].sbnode, a.type, a.d, a.dl);
	vs_unlock_points = 2;      /* the receiver may meet a state mutex HELD by the reader (a handler that only tries the lock gives up then) */
	vs_window(1);
	int t = vs_spawn(sched_reader, NULL); vs_join_tid(t); hx_quiesce();
	vs_window(0);
	vs_unlock_points = 0;
	drain(); settle2();
	compare(tname(a.kind, a.type), what);
	hx_emit_ledger_violations("C07");
	sd_dump(LIBD, sizeof LIBD); hx_hash_t h; hx_hash_init(&h); hx_hash_str(&h, LIBD);
	res_printf("O %llx %llx\n", (unsigned long long) h.a, (unsigned long long) h.b);
	hx_emit_trace(); res_finish();
}
void c07_register(void) { harness_register("c07.sched", sched_child); harness_register("c07.sweep", sweep_child); harness_register("c07.hist", hist_child); }
int c07_run(const char *tier) {
	int thorough = !strcmp(tier, "thorough");
	nch = 0; long total = 0;
	for (int p = 0; p < NPARTS; p++) { int cnt = part_count(p); total += cnt; for (int f = 0; f < cnt; f += CHUNK) { CH[nch].part = p; CH[nch].first = f; CH[nch].count = cnt - f < CHUNK ? cnt - f : CHUNK; nch++; } }
	ex_spec_t sw = { .harness = "c07.sweep", .ncases = nch, .gen = sweep_gen, .on_result = sweep_result, .label = "c07.sweep" };
	ex_map(&sw);
	hev_build();
	const char *d = getenv("VERIF_DEPTH"), *only = getenv("VERIF_C07_ONLY");
	uint8_t param0[1] = {0}, param1[1] = {1};
	e2_spec_t s = { .harness = "c07.hist", .param = param0, .nparam = 1, .nevents = nhev, .max_depth = d ? atoi(d) : (thorough ? 5 : 4), .label = "c07.hist(all events)", .evname = hevname };
	e2_spec_t s1 = { .harness = "c07.hist", .param = param1, .nparam = 1, .nevents = NSUBSET, .max_depth = d ? atoi(d) : 8, .label = "c07.hist(shared-entity events)", .evname = hevname };
	hev_alpha = 0; if (!only || only[0] == '0') e2_explore(&s);
	if (thorough) { hev_alpha = 1; if (!only || only[0] == '1') e2_explore(&s1); hev_alpha = 0; }
	/* every kind of report against a reader that takes every state lock */
	{ int nt = 0; sched_templates(0, &nt); long sch = 0; int schex = 1;
	  for (int k = 0; k < nt; k++) { uint8_t sp[1] = {(uint8_t) k}; act_t a = sched_templates(k, &nt); char label[120]; snprintf(label, sizeof label, "c07.sched %s || reader", tname(a.kind, a.type));
		e1_spec_t es = { .harness = "c07.sched", .param = sp, .nparam = 1, .bound = thorough ? 2 : 1, .label = strdup(label) };
		e1_explore(&es); for (int q = 0; q < 8; q++) sch += es.schedules_by_cost[q]; if (!es.exhaustive) schex = 0; }
	  rep_note("c07.sched: %d report kinds, each processed while a reader takes every state lock: %ld schedules, preemption bound %d", nt, sch, thorough ? 2 : 1);
	  s.execs += sch; s.transitions += sch; if (!schex) s.exhaustive = 0; }
	/* the optimistic effect of the user's own commands when two threads issue them concurrently (harness shared with C10/H6):
	 * tracked state and a decoder model folded over the wire equal one of the two sequential orders */
	{ extern void c10_run_lin(int bound, long *execs, long *states, long *transitions, int *exhaustive); long le = 0, ls = 0, lt = 0; int lex = 1;
	  c10_run_lin(thorough ? 2 : 1, &le, &ls, &lt, &lex); s.execs += le; s.states += ls; s.transitions += lt; if (!lex) s.exhaustive = 0; }
	rep_count("states", s.states + s1.states + sw.distinct_outcomes); rep_count("transitions", s.transitions + s1.transitions + rep_get("sweep_cases")); rep_count("executions", s.execs + s1.execs + sw.done);
	rep_flag("exhaustive", s.exhaustive && sw.exhaustive && (!thorough || s1.exhaustive));
	char sb[200], sb1[200] = "-"; size_t o = 0; for (int i = 0; i <= s.depth_completed + 1 && i < 16; i++) o += (size_t) snprintf(sb + o, sizeof sb - o, "%ld ", s.states_by_depth[i]);
	o = 0; if (thorough) for (int i = 0; i <= s1.depth_completed + 1 && i < 16; i++) o += (size_t) snprintf(sb1 + o, sizeof sb1 - o, "%ld ", s1.states_by_depth[i]);
	rep_note("c07.sweep: %ld single-message cases defined in %d parts, %ld applied in %ld children (a child stops at its first mismatch); c07.hist: %d events, depth completed=%d, new states by depth: %s; %d shared-entity events, depth completed=%d, new states by depth: %s",
	         total, NPARTS, rep_get("sweep_cases"), sw.done, nhev, s.depth_completed, sb, NSUBSET, thorough ? s1.depth_completed : -1, sb1);
	return 0;
}
