/* C18 — each low-level send function validates its parameters and encodes exactly one message.
 * For every function of the catalogue (checks/c18_table.inc, written from include/lowlevel/*.h and bidib_messages.h):
 * node addresses of depth 0..3 x parameter sweeps (all combinations for <=2 byte parameters; otherwise every
 * parameter swept over 0..255 with the others at their boundary values) x payload lengths 0..max+1.
 * Oracle: either the reference says "outside the documented range" and nothing is submitted, or exactly one message with
 * the documented type (<0x80), destination and data reaches the wire; length byte <= 127; no sanitizer event. */
#include "../fw/explore.h"
#include "../fw/hx.h"
#include "include/bidib.h"
#include <stdio.h>
#include <stdlib.h>
#include <string.h>

typedef struct {
	const char *name;
	int nargs;                 /* byte-valued arguments (struct fields flattened), at most 12 */
	uint8_t bounds[12][4];     /* boundary values of each argument, used while another argument is swept */
	int nbounds[12];
	int payload_max;           /* -1: no variable-length payload; otherwise the documented maximum length */
	int takes_node;            /* 0: no node parameter, the message goes to the interface (address 0) */
	void (*call)(t_bidib_node_address node, const uint8_t *a, int plen, const uint8_t *payload);
	/* reference encoder/validator: -1 = arguments outside the documented ranges (nothing may be submitted);
	 * otherwise number of data bytes, *type and data[] filled */
	int (*ref)(const uint8_t *a, int plen, const uint8_t *payload, uint8_t *type, uint8_t *data);
} c18_fn_t;

#include "c18_table.inc"
#define NFN ((int) (sizeof c18_fns / sizeof c18_fns[0]))

static const t_bidib_node_address NODES[4] = {{0, 0, 0}, {3, 0, 0}, {3, 4, 0}, {3, 4, 5}};

/* case enumeration per function: list of (a[], plen) */
typedef struct { uint8_t a[12]; int plen; uint8_t fillbyte; int content; } c18_case_t;     /* content 1: {':', v, '1'}, 2: {v, v, v} with v = fillbyte */
static long fn_cases(const c18_fn_t *f) {
	long n;
	if (f->nargs == 0) n = 1;
	else if (f->nargs <= 2) { n = 1; for (int i = 0; i < f->nargs; i++) n *= 256; }
	else {
		n = 0;
		for (int i = 0; i < f->nargs; i++) { long others = 1; for (int k = 0; k < f->nargs; k++) if (k != i) others *= f->nbounds[k] > 0 ? (f->nbounds[k] > 2 ? 2 : f->nbounds[k]) : 1; n += 256 * others; }
	}
	if (f->payload_max >= 0) n += 2L * 256 + 2L * 256;             /* + payload CONTENT: every byte value in the middle of / all over a 3-byte payload; payload lengths 0..255 (every value the uint8 size parameter can take), two fill bytes, with boundary args */
	return n;
}
static void fn_case(const c18_fn_t *f, long idx, c18_case_t *c) {
	memset(c, 0, sizeof *c); c->plen = f->payload_max >= 0 ? (f->payload_max < 2 ? f->payload_max : 2) : 0; c->fillbyte = 0x41;
	for (int k = 0; k < f->nargs; k++) c->a[k] = f->nbounds[k] ? f->bounds[k][0] : 0;
	long base;
	if (f->nargs == 0) base = 1;
	else if (f->nargs <= 2) { base = f->nargs == 1 ? 256 : 65536; if (idx < base) { c->a[0] = (uint8_t) (idx % 256); if (f->nargs == 2) c->a[1] = (uint8_t) (idx / 256); return; } }
	else {
		base = 0;
		for (int i = 0; i < f->nargs; i++) {
			long others = 1; for (int k = 0; k < f->nargs; k++) if (k != i) others *= f->nbounds[k] > 0 ? (f->nbounds[k] > 2 ? 2 : f->nbounds[k]) : 1;
			if (idx < base + 256 * others) {
				long r = idx - base; c->a[i] = (uint8_t) (r % 256); r /= 256;
				for (int k = 0; k < f->nargs; k++) if (k != i) { int nb = f->nbounds[k] > 0 ? (f->nbounds[k] > 2 ? 2 : f->nbounds[k]) : 1; c->a[k] = f->nbounds[k] ? f->bounds[k][r % nb] : 0; r /= nb; }
				return;
			}
			base += 256 * others;
		}
	}
	if (f->nargs == 0 && idx < 1) return;
	idx -= base;
	if (idx >= 512) { idx -= 512; c->plen = f->payload_max < 3 ? f->payload_max : 3; c->fillbyte = (uint8_t) (idx % 256); c->content = 1 + (int) (idx / 256); return; }
	c->plen = (int) (idx / 2); c->fillbyte = (idx & 1) ? 0xFE : 0x41;
}
static long held_cases(const c18_fn_t *f) { return 1 + (f->payload_max >= 0 ? 256 : 0); }
typedef struct { int32_t fn; int32_t node; int32_t start, count; } c18_job_t;

static void c18_child(const void *job, size_t n) {
	vs_dev_t devs[VS_MAXDEV]; int nd; size_t pl; const uint8_t *p = job_parse(job, n, devs, &nd, &pl);
	c18_job_t j; memcpy(&j, p, sizeof j);
	const c18_fn_t *f = &c18_fns[j.fn];
	hx_child_begin(NULL, 0, 0, NULL, 0, 1000000ull * 3000000ull);
	if (hx_start_debug(0)) res_infra("start failed");
	hx_quiesce();
	/* held mode (job node 4..7 = depth 0..3): the destination's response budget is exhausted when the call is made (ten unanswered
	 * pings, the tenth already held), so the message under test waits in the queue of held messages and reaches the wire only when
	 * the answers arrive — FIFO behind the held ping, with exactly the specified bytes.  Cases: the default arguments and every
	 * payload length 0..255 */
	int held = j.node >= 4; j.node &= 3;
	t_bidib_node_address node = NODES[j.node];
	uint8_t dest[4] = {node.top, node.sub, node.subsub, 0}; if (!f->takes_node) memset(dest, 0, 4);
	t_bidib_node_address destnode = {dest[0], dest[1], dest[2]};
	size_t woff = 0; int seq = 0; hx_hash_t h; hx_hash_init(&h); long accepted = 0, rejected = 0;
	for (long c0 = j.start; c0 < (long) j.start + j.count && c0 < (held ? held_cases(f) : fn_cases(f)); c0++) {
		res_progress(c0);
		long c = held ? (c0 == 0 ? 0 : fn_cases(f) - 1024 + 2 * (c0 - 1)) : c0;
		c18_case_t cs; fn_case(f, c, &cs);
		uint8_t *payload = malloc((size_t) cs.plen + 1);     /* exact-size heap buffer (plus 0 bytes): over-reads are visible to ASan */
		payload = realloc(payload, cs.plen ? (size_t) cs.plen : 1);
		for (int i = 0; i < cs.plen; i++) payload[i] = (i % 7 == 3) ? cs.fillbyte : (uint8_t) (0x30 + i % 10);
		if (cs.content) for (int i = 0; i < cs.plen; i++) payload[i] = (cs.content == 2 || i == 1) ? cs.fillbyte : i ? '1' : ':';
		uint8_t rtype = 0, rdata[300]; int rlen = f->ref(cs.a, cs.plen, payload, &rtype, rdata);
		int unspecified = 0;
		if (rlen <= -100) { unspecified = 1; rlen = -rlen - 100; }        /* the message definitions leave these arguments open */
		if (rlen >= 0) {
			int depth = f->takes_node ? j.node : 0;
			if (3 + depth + rlen > 127) rlen = -1;                          /* the length byte would exceed 127: must be refused */
			else if (rlen > 121) unspecified = 1;                           /* fits at this depth but not at depth 3: a depth-independent limit is acceptable */
		}
		vs_sleep_us(2500000);                                 /* earlier requests expire: every call meets an empty budget */
		{ static char ctx[300]; size_t co = (size_t) snprintf(ctx, sizeof ctx, "%s(node depth %d; args", f->name, j.node); for (int i = 0; i < f->nargs; i++) co += (size_t) snprintf(ctx + co, sizeof ctx - co, " %02x", cs.a[i]); snprintf(ctx + co, sizeof ctx - co, "; payload %d bytes%s)", f->payload_max >= 0 ? cs.plen : -1, cs.content ? (cs.plen ? hx_hex(payload, (size_t) cs.plen) : "") : ""); hx_set_context(ctx); }
		if (held) { for (int i = 0; i < 10; i++) bidib_send_sys_ping(destnode, (uint8_t) i, 0); bidib_flush(); woff = env_out_len(); }
		f->call(node, cs.a, cs.plen, payload);
		bidib_flush();
		if (held) { uint8_t ht[8]; if (vx_node_deferred(dest, ht, 8) >= 2) res_printf("C c18_held_observed 1\n"); }
		if (held) { for (int i = 0; i < 10; i++) { uint8_t pd = (uint8_t) i; hx_feed_msg(dest, 0, MSG_SYS_PONG, &pd, 1); } hx_quiesce(); bidib_flush(); uint8_t *um; while ((um = bidib_read_message())) free(um); }
		char what[256]; size_t wo = (size_t) snprintf(what, sizeof what, "%s%s(node depth %d; args", held ? "[held behind an exhausted budget] " : "", f->name, j.node);
		for (int i = 0; i < f->nargs; i++) wo += (size_t) snprintf(what + wo, sizeof what - wo, " %02x", cs.a[i]);
		snprintf(what + wo, sizeof what - wo, "; payload %d bytes%s%s)", f->payload_max >= 0 ? cs.plen : -1, cs.content ? " = " : "", cs.content && cs.plen ? hx_hex(payload, (size_t) cs.plen) : "");
		int bad = hx_emit_san_events(what);
		static rc_pkt_t pk[4]; char err[160];
		size_t len = env_out_len() - woff; const uint8_t *w = env_out() + woff; woff = env_out_len();
		uint8_t dt[4]; int deferred = vx_node_deferred(dest, dt, 4);
		/* flat list of the messages written; held mode: the tenth ping comes first (FIFO) and is taken off */
		static rc_msg_t *ml[16]; int nmsg = 0; int np = len ? rc_decode_strict(w, len, pk, 4, err, sizeof err) : 0;
		for (int i = 0; i < np; i++) for (int k = 0; k < pk[i].nmsgs && nmsg < 16; k++) ml[nmsg++] = &pk[i].msgs[k];
		if (held && np >= 0) {
			if (nmsg == 0 || ml[0]->type != MSG_SYS_PING || ml[0]->dlen != 1 || ml[0]->data[0] != 9 || memcmp(ml[0]->addr, dest, 4)) { res_violation("held-order: the message held first did not reach the wire first after the answers arrived", "%s: wire=%s", what, hx_hex(w, len > 60 ? 60 : len)); bad = 1; }
			else { nmsg--; memmove(ml, ml + 1, sizeof ml[0] * (size_t) nmsg); if (nmsg == 0) len = 0; }
		}
		if (deferred) { res_violation(held ? "held-message-stranded: the budget is free again but the message is still held" : "unexpected-deferral", "%s: message was held back although the budget is empty", what); bad = 1; }
		else if (unspecified && len == 0 && vx_send_buffer_index() == 0) { rejected++; res_printf("C c18_unspecified_rejected 1\n"); }
		else if (rlen < 0) {
			rejected++;
			if (len != 0 || vx_send_buffer_index() != 0) { char cls[160]; snprintf(cls, sizeof cls, "accepted-out-of-range fn=%s: parameters outside the documented range were not rejected", f->name);
				res_violation(cls, "%s: wire=%s", what, hx_hex(w, len > 80 ? 80 : len)); bad = 1; }
		} else {
			accepted++;
			int nm = nmsg;
			if (np < 0) { res_violation("wire-malformed", "%s: %s", what, err); bad = 1; }
			else if (nm == 0) { char cls[160]; snprintf(cls, sizeof cls, "rejected-in-range fn=%s: documented-valid parameters were not submitted", f->name); res_violation(cls, "%s", what); bad = 1; }
			else if (nm != 1) { char cls[160]; snprintf(cls, sizeof cls, "not-exactly-one-message fn=%s", f->name); res_violation(cls, "%s: %d messages", what, nm); bad = 1; }
			else {
				rc_msg_t *m = ml[0]; seq = seq % 255 + 1;
				if (m->raw[0] > 127) { char cls[160]; snprintf(cls, sizeof cls, "length-byte-exceeds-127 fn=%s", f->name); res_violation(cls, "%s: length byte %d", what, m->raw[0]); bad = 1; }
				if (m->type != rtype || m->type >= 0x80 || memcmp(m->addr, dest, 4) || m->dlen != rlen || memcmp(m->data, rdata, (size_t) rlen)) {
					char cls[200]; snprintf(cls, sizeof cls, "wrong-encoding fn=%s wire-data-bytes=%d specified=%d: type/destination/data differ from the specified encoding", f->name, m->dlen, rlen);
					res_violation(cls, "%s: wire type %02x dest %02x.%02x.%02x data %s; expected type %02x data %s", what, m->type, m->addr[0], m->addr[1], m->addr[2], hx_hex(m->data, (size_t) m->dlen), rtype, hx_hex(rdata, (size_t) rlen)); bad = 1; }
				hx_hash_add(&h, m->raw, (size_t) m->rawlen);
			}
		}
		free(payload);
		if (bad && hx_san_last_was_write) { res_printf("I %ld\n", c); break; }   /* only possible memory corruption ends the batch */
	}
	res_printf("O %llx %llx\nC c18_accepted %ld\nC c18_rejected %ld\n", (unsigned long long) (h.a + (uint64_t) j.fn), (unsigned long long) (h.b ^ (uint64_t) j.start), accepted, rejected);
	res_finish();
}

static c18_job_t *jobs; static long njobs, capjobs; static long round_base;
static void add_job(int fn, int node, long start, long count) {
	if (count <= 0) return;
	if (njobs == capjobs) { capjobs = capjobs ? capjobs * 2 : 1024; jobs = realloc(jobs, sizeof(c18_job_t) * (size_t) capjobs); }
	jobs[njobs++] = (c18_job_t) { fn, node, (int32_t) start, (int32_t) count };
}
static size_t c18_gen(long idx, uint8_t *payload, char *human, size_t hn) {
	c18_job_t *j = &jobs[round_base + idx]; memcpy(payload, j, sizeof *j);
	snprintf(human, hn, "%s%s%s node-depth=%d cases %d..%d", j->count == 1 ? "single case " : "", j->node >= 4 ? "[held] " : "", c18_fns[j->fn].name, j->node & 3, j->start, j->start + j->count - 1);
	return sizeof *j;
}
static long resume[4096][2]; static int nresume;
static void c18_on_result(long idx, const run_res_t *r) {
	long fail = -1; const char *l = res_line(r, 'I', 0);
	if (l) fail = atol(l); else if (r->status != 0) fail = res_last_progress(r);
	if (fail >= 0 && nresume < 4096) { resume[nresume][0] = round_base + idx; resume[nresume][1] = fail; nresume++; }
}
#define C18_BATCH 1200

/* ---------------------------------------------------------------- c18.sched (E1): every function against a concurrent call
 * Thread 1 calls function f (default boundary arguments) for a node at depth 3, thread 2 sends a ping to a node at depth 1
 * (other address length, other message length), the write callback may block.  The messages on the wire (destination,
 * type, data; sequence numbers aside) must be exactly those of the same two calls made one after the other in the same
 * process — an encoder that shares scratch state between calls mixes the header of one call with the body of the other. */
static const c18_fn_t *sf; static c18_case_t scs; static uint8_t *spayload;
static void *sched_t1(void *arg) { (void) arg; sf->call(NODES[3], scs.a, scs.plen, spayload); return NULL; }
static void *sched_t2(void *arg) { (void) arg; t_bidib_node_address n7 = {7, 0, 0}; bidib_send_sys_ping(n7, 0x77, 0); return NULL; }
static int wire_set(size_t from, char out[8][400]) {
	static rc_pkt_t pk[8]; char err[160]; int k = 0;
	int np = rc_decode_strict(env_out() + from, env_out_len() - from, pk, 8, err, sizeof err);
	if (np < 0) { snprintf(out[0], 400, "malformed: %s", err); return -1; }
	for (int i = 0; i < np; i++) for (int j = 0; j < pk[i].nmsgs && k < 8; j++) { rc_msg_t *m = &pk[i].msgs[j]; snprintf(out[k++], 400, "to %02x.%02x.%02x type %02x data %s", m->addr[0], m->addr[1], m->addr[2], m->type, hx_hex(m->data, (size_t) m->dlen)); }
	/* sort */
	for (int a = 0; a < k; a++) for (int b = a + 1; b < k; b++) if (strcmp(out[a], out[b]) > 0) { char t[400]; memcpy(t, out[a], 400); memcpy(out[a], out[b], 400); memcpy(out[b], t, 400); }
	return k;
}
static void c18_sched_child(const void *job, size_t n) {
	vs_dev_t devs[VS_MAXDEV]; int nd; size_t pl; const uint8_t *p = job_parse(job, n, devs, &nd, &pl);
	sf = &c18_fns[p[0]]; fn_case(sf, 0, &scs); spayload = malloc(scs.plen ? (size_t) scs.plen : 1); for (int i = 0; i < scs.plen; i++) spayload[i] = (uint8_t) (0x61 + i % 20);
	hx_child_begin(devs, nd, 1, NULL, 0, 0);
	if (hx_start_debug(0)) res_infra("start failed");
	hx_quiesce();
	/* sequential reference in the same process */
	static char ref[8][400], got[8][400];
	size_t from = env_out_len(); sched_t1(NULL); sched_t2(NULL); bidib_flush(); hx_quiesce(); int nref = wire_set(from, ref);
	vs_sleep_us(2500000); hx_quiesce();
	from = env_out_len(); env_write_yields = 1;
	vs_window(1);
	int t1 = vs_spawn(sched_t1, NULL), t2 = vs_spawn(sched_t2, NULL); vs_join_tid(t1); vs_join_tid(t2);
	vs_window(0);
	env_write_yields = 0; bidib_flush(); hx_quiesce();
	int ngot = wire_set(from, got); int same = ngot == nref; for (int i = 0; same && i < nref; i++) if (strcmp(ref[i], got[i])) same = 0;
	hx_hash_t h; hx_hash_init(&h); for (int i = 0; i < ngot && i < 8; i++) hx_hash_str(&h, got[i]);
	if (!same) { char cls[200]; snprintf(cls, sizeof cls, "concurrent-call-changes-encoding fn=%s: the messages of two concurrent calls differ from those of the same calls made one after the other", sf->name);
		char a[900] = "", b[900] = ""; for (int i = 0; i < nref && i < 3; i++) { strncat(a, ref[i], 280); strcat(a, " | "); } for (int i = 0; i < (ngot < 0 ? 1 : ngot) && i < 3; i++) { strncat(b, got[i], 280); strcat(b, " | "); }
		res_violation(cls, "sequential: %s concurrent: %s", a, b); }
	hx_emit_san_events("c18.sched"); hx_emit_ledger_violations("C18");
	res_printf("O %llx %llx\n", (unsigned long long) h.a, (unsigned long long) h.b);
	hx_emit_trace(); res_finish();
}
void c18_register(void) { harness_register("c18.send", c18_child); harness_register("c18.sched", c18_sched_child); }
int c18_run(const char *tier) {
	int thorough = !strcmp(tier, "thorough");
	njobs = 0; long total = 0;
	for (int f = 0; f < NFN; f++) for (int node = 0; node < 4; node++) {
		if (!c18_fns[f].takes_node && node) continue;
		if (!thorough && fn_cases(&c18_fns[f]) > 20000 && (node == 1 || node == 2)) continue;    /* quick: big sweeps at depth 0 and 3 only */
		for (long s = 0; s < fn_cases(&c18_fns[f]); s += C18_BATCH) add_job(f, node, s, C18_BATCH);
		total += fn_cases(&c18_fns[f]);
	}
	/* held mode: default arguments + every payload length, at every node depth (resets excluded: they clear the node table) */
	long held_total = 0;
	for (int f = 0; f < NFN; f++) for (int node = 0; node < 4; node++) {
		if (!c18_fns[f].takes_node && node) continue;
		if (strstr(c18_fns[f].name, "sys_reset")) continue;
		add_job(f, 4 + node, 0, held_cases(&c18_fns[f])); held_total += held_cases(&c18_fns[f]);
	}
	long execs = 0, states = 0; int exhaustive = 1; round_base = 0;
	for (int round = 0; round < 100 && round_base < njobs; round++) {
		nresume = 0; long nround = njobs - round_base;
		ex_spec_t e = { .harness = "c18.send", .ncases = nround, .gen = c18_gen, .on_result = c18_on_result, .label = "c18.send" };
		ex_map(&e); execs += e.done; states += e.distinct_outcomes; if (!e.exhaustive) { exhaustive = 0; break; }
		round_base = njobs;
		for (int k = 0; k < nresume; k++) { c18_job_t j = jobs[resume[k][0]]; long fail = resume[k][1];
			if (j.count > 1) add_job(j.fn, j.node, fail, 1);
			add_job(j.fn, j.node, fail + 1, (long) j.start + j.count - (fail + 1)); }
		if (rep_nviol() > 120) { exhaustive = 0; break; }
	}
	long sch = 0; int schex = 1;
	{ const char *variant = getenv("VERIF_VARIANT"); int defv = variant && (!strcmp(variant, "autop") || !strcmp(variant, "autoz"));
	  for (int f = 0; f < NFN && !defv; f++) { if (!c18_fns[f].takes_node) continue; uint8_t sp[1] = {(uint8_t) f}; char label[120]; snprintf(label, sizeof label, "c18.sched %s || bidib_send_sys_ping", c18_fns[f].name);
		e1_spec_t es = { .harness = "c18.sched", .param = sp, .nparam = 1, .bound = thorough ? 2 : 1, .label = strdup(label), .unlock_points = 1 };      /* a send function that still touches the message after dropping the send mutex is interruptible there */
		e1_explore(&es); for (int k = 0; k < 8; k++) sch += es.schedules_by_cost[k]; if (!es.exhaustive) schex = 0; }
	  if (!defv) rep_note("c18.sched: every function with a node parameter against a concurrent ping to a node of another depth, scheduling points after unlocks, %ld schedules, preemption bound %d", sch, thorough ? 2 : 1); }
	execs += sch; if (!schex) exhaustive = 0;
	long calls = rep_get("c18_accepted") + rep_get("c18_rejected");
	rep_count("executions", execs); rep_count("states", states ? states : 1); rep_count("transitions", calls); rep_count("distinct_nontrivial", calls);
	rep_flag("exhaustive", exhaustive);
	rep_note("functions in catalogue=%d, calls executed=%ld (accepted %ld, rejected %ld), planned=%ld direct + %ld with an exhausted budget (message under test observed in the held queue: %ld)", NFN, calls, rep_get("c18_accepted"), rep_get("c18_rejected"), total, held_total, rep_get("c18_held_observed"));
	return 0;
}
