/* C14 — configurations are accepted iff well-formed and unambiguous; the getters reflect them exactly.
 *  c14.valid   : bounded-exhaustive generated valid configurations (1..3 boards, every section absent / 1 / 2 entries through
 *                section profiles, 1..3 aspects, ids and numeric values from {min, mid, max}, class bits for booster / track
 *                output, 0..2 trains with 0..2 functions, with and without calibration and initial values): start returns 0
 *                and every enumeration getter reports exactly the declaration, each entity in its initial state
 *  c14.invalid : each fault class named in the property, applied at every applicable position of the standard
 *                configuration: start must return 1 */
#include "../fw/explore.h"
#include "../fw/hx.h"
#include "../fw/simbus.h"
#include "../fw/cfgmodel.h"
#include "../fw/statedump.h"
#include "include/bidib.h"
#include <stdio.h>
#include <stdlib.h>
#include <string.h>

static cm_model_t M;
/* ---------------------------------------------------------------- valid generator */
/* section profile: counts of {points-board, points-dcc, signals-board, signals-dcc, peripherals, segments, reversers, features} */
static const uint8_t PROFILE[12][8] = {
	{0, 0, 0, 0, 0, 0, 0, 0}, {1, 0, 0, 0, 0, 0, 0, 0}, {2, 1, 0, 0, 0, 1, 0, 1}, {0, 2, 0, 0, 0, 0, 0, 0}, {0, 0, 1, 0, 0, 2, 0, 2}, {0, 0, 2, 1, 0, 0, 0, 0},
	{0, 0, 0, 2, 1, 0, 0, 0}, {0, 0, 0, 0, 2, 0, 1, 0}, {0, 0, 0, 0, 0, 2, 2, 0}, {1, 1, 1, 1, 1, 1, 1, 1}, {2, 2, 2, 2, 2, 2, 2, 2}, {0, 1, 0, 1, 0, 1, 0, 0} };
/* train profile: {ntrains, nfunctions, calibration, initial, steps index} */
static const uint8_t TPROFILE[6][5] = { {0, 0, 0, 0, 0}, {1, 0, 0, 0, 0}, {1, 1, 1, 1, 1}, {2, 2, 0, 1, 2}, {2, 1, 1, 0, 0}, {1, 2, 1, 1, 2} };
static const uint8_t UIDCLASS[3] = {0xDA, 0x45, 0x12};   /* root: interface + track output + booster; accessory node; booster + track output */
static uint8_t val3(int profile, int salt) { return profile == 0 ? (uint8_t) (salt & 1) : profile == 1 ? (uint8_t) (0x40 + salt) : (uint8_t) (255 - salt); }
/* naming: value profile 1 uses PREFIX-RELATED ids — the k-th id of a kind is the first one followed by k zeros ("pb0_", "pb0_0",
 * "pb0_00"; boards "b", "b0", "b00"; aspects "asp", "asp0", ...), so that every earlier id is a proper prefix of the later ones
 * (look-ups that compare only a prefix or only up to the shorter length confuse them); the other profiles number them */
static int g_prefix_ids;
static void nm(char *out, size_t n, const char *base, int k) { if (!g_prefix_ids) { snprintf(out, n, "%s%d", base, k); return; } size_t o = (size_t) snprintf(out, n, "%s", base); for (int i = 0; i < k && o + 1 < n; i++) out[o++] = '0'; out[o] = 0; }
#define VALID_BASE ((12L + 144 + 144) * 3 * 3 * 6)
/* after the generated shapes: the class byte of the unique id swept over all 256 values, for the second of two boards and for a
 * single (root) board — booster and track output are derived from single bits of it, every other bit must not matter */
static long valid_count(void) { return VALID_BASE + 512; }
static void gen_valid(long idx, cm_model_t *m) {
	if (idx >= VALID_BASE) { long c = idx - VALID_BASE; int root = c >= 256;
		gen_valid(root ? (5L * 3 * 3 * 6 + 7) : ((12L + 5 + 12 * 3) * 3 * 3 * 6 + 7), m); m->b[root ? 0 : 1].uid[0] = (uint8_t) c; return; }
	memset(m, 0, sizeof *m);
	int tp = (int) (idx % 6); idx /= 6; int naspects = 1 + (int) (idx % 3); idx /= 3; int vp = (int) (idx % 3); idx /= 3;
	int nb, prof[3] = {0, 0, 0};
	if (idx < 12) { nb = 1; prof[0] = (int) idx; } else if (idx < 156) { idx -= 12; nb = 2; prof[0] = (int) (idx % 12); prof[1] = (int) (idx / 12); }
	else { idx -= 156; nb = 3; prof[0] = (int) (idx % 12); prof[1] = (int) (idx / 12); prof[2] = (int) ((idx * 7 + 3) % 12); }
	m->nb = nb; int dccn = 0, uniq = 0; g_prefix_ids = vp == 1; char base[24]; m->hex_case = tp % 3;      /* hexadecimal values as emitted / all upper case / all lower case */
	m->num_style = (naspects + vp) % 3;                /* byte-sized values hexadecimal / decimal / decimal with leading zeros */
	for (int b = 0; b < nb; b++) {
		cm_board_t *B = &m->b[b]; if (g_prefix_ids) nm(B->id, sizeof B->id, "b", b); else snprintf(B->id, sizeof B->id, "b%d%s", b, vp == 2 ? "_long_board_name" : "");
		B->uid[0] = UIDCLASS[b]; B->uid[1] = 0; B->uid[2] = 0x0D; B->uid[3] = 0x60; B->uid[4] = (uint8_t) b; B->uid[5] = val3(vp, b); B->uid[6] = (uint8_t) (0xE0 + b);
		B->present = 1; B->parent = -1; B->local = (uint8_t) b; B->in_track = 1;
		const uint8_t *P = PROFILE[prof[b]];
		B->nfeatures = P[7]; for (int k = 0; k < B->nfeatures; k++) B->features[k] = (cm_feature_t) { (uint8_t) (k == 0 ? val3(vp, 5) : val3(vp, 6) ^ 0x10), val3(vp, k) };
		B->npb = P[0]; for (int k = 0; k < B->npb; k++) { cm_bacc_t *a = &B->pb[k]; snprintf(base, sizeof base, "pb%d_", b); nm(a->id, 24, base, k); a->number = (uint8_t) ((val3(vp, 0) ^ k) & 0x7F); a->naspects = naspects;
			for (int q = 0; q < naspects; q++) { nm(a->aspects[q].id, 24, "asp", q); a->aspects[q].value = (uint8_t) (val3(vp, 3) ^ (q * 3)); } if ((k + tp) & 1) nm(a->initial, 24, "asp", naspects - 1); }
		B->nsb = P[2]; for (int k = 0; k < B->nsb; k++) { cm_bacc_t *a = &B->sb[k]; snprintf(base, sizeof base, "sb%d_", b); nm(a->id, 24, base, k); a->number = (uint8_t) ((val3(vp, 1) ^ k ^ 0x20) & 0x7F); a->naspects = naspects;
			for (int q = 0; q < naspects; q++) { nm(a->aspects[q].id, 24, "s", q); a->aspects[q].value = (uint8_t) (q * 5 + (vp == 2 ? 240 : 0)); } if (!((k + tp) & 1)) nm(a->initial, 24, "s", 0); }
		for (int dcc = 0; dcc < 2; dcc++) { int cnt = dcc ? P[3] : P[1]; if (dcc) B->nsd = cnt; else B->npd = cnt;
			for (int k = 0; k < cnt; k++) { cm_dacc_t *a = dcc ? &B->sd[k] : &B->pd[k]; snprintf(base, sizeof base, "%s%d_", dcc ? "sd" : "pd", b); nm(a->id, 24, base, k);
				dccn++; a->addrl = (uint8_t) (vp == 2 ? 255 - dccn : dccn); a->addrh = (uint8_t) (vp == 0 ? 0 : vp == 1 ? 0x11 : 0x27); a->extended = (uint8_t) (k & 1); a->naspects = naspects;
				for (int q = 0; q < naspects; q++) { nm(a->aspects[q].id, 24, "d", q); a->aspects[q].nports = 1 + (q & 1); a->aspects[q].ports[0] = (cm_portval_t) { (uint8_t) (vp == 2 ? 31 - q : q), (uint8_t) (q & 1) }; a->aspects[q].ports[1] = (cm_portval_t) { (uint8_t) (q + 1), 1 }; }
				if ((k + dcc + tp) & 1) nm(a->initial, 24, "d", 0); } }
		B->nper = P[4]; for (int k = 0; k < B->nper; k++) { cm_periph_t *a = &B->per[k]; snprintf(base, sizeof base, "pe%d_", b); nm(a->id, 24, base, k); a->number = (uint8_t) k; a->port0 = (uint8_t) (val3(vp, 2) ^ k); a->port1 = (uint8_t) (vp == 2 ? 0xFF : vp); a->naspects = naspects;
			for (int q = 0; q < naspects; q++) { nm(a->aspects[q].id, 24, "on", q); a->aspects[q].value = (uint8_t) q; } if (k == 0) nm(a->initial, 24, "on", 0); }
		B->nseg = P[5]; for (int k = 0; k < B->nseg; k++) { snprintf(base, sizeof base, "seg%d_", b); nm(B->seg[k].id, 24, base, k); B->seg[k].addr = (uint8_t) (val3(vp, 4) ^ k); snprintf(B->seg[k].length, 16, "%d.5cm", 1 + k + uniq); }
		B->nrev = P[6]; for (int k = 0; k < B->nrev; k++) { snprintf(base, sizeof base, "rev%d_", b); nm(B->rev[k].id, 24, base, k); snprintf(B->rev[k].cv, 12, "%d", 30051 + k + b * 10); }
		uniq++;
	}
	const uint8_t *T = TPROFILE[tp]; static const int STEPS[3] = {14, 28, 126};
	m->nt = T[0];
	for (int t = 0; t < m->nt; t++) { cm_train_t *tr = &m->t[t]; nm(tr->id, 24, "train", t); tr->addrl = (uint8_t) (0x70 + t); tr->addrh = (uint8_t) (vp == 2 ? 0x27 : 0x01); tr->steps = STEPS[(T[4] + t) % 3];
		if (T[2]) { tr->ncal = 9; for (int k = 0; k < 9; k++) tr->cal[k] = vp == 2 ? 118 + k : 1 + k * 10; }
		tr->nper = T[1]; for (int k = 0; k < tr->nper; k++) { nm(tr->per[k].id, 24, "f", k); tr->per[k].bit = (uint8_t) (vp == 0 ? k : vp == 1 ? 8 + k * 7 : 31 - k); tr->per[k].has_initial = T[3] && k == 0; tr->per[k].initial = 1; } }
}
static void cmp_list(const char *what, t_bidib_id_list_query q, const char *exp[], int nexp) {
	int ok = (int) q.length == nexp; for (int i = 0; ok && i < nexp; i++) if (strcmp(q.ids[i], exp[i])) ok = 0;
	if (!ok) { char got[300]; size_t o = 0; got[0] = 0; for (size_t i = 0; i < q.length && o + 30 < sizeof got; i++) o += (size_t) snprintf(got + o, sizeof got - o, "%s,", q.ids[i]);
		char cls[160]; size_t fl = strcspn(what, "("); snprintf(cls, sizeof cls, "getter-differs-from-declaration getter=%.*s", (int) fl, what); res_violation(cls, "%s: reported [%s] (%zu), declared %d", what, got, q.length, nexp); }
	bidib_free_id_list_query(q);
}
static void check_getters(const cm_model_t *m) {
	const char *ids[64]; int n = 0; char what[96];
	for (int b = 0; b < m->nb; b++) ids[n++] = m->b[b].id; cmp_list("bidib_get_boards()", bidib_get_boards(), ids, n);
	n = 0; for (int b = 0; b < m->nb; b++) if (cm_is_booster(&m->b[b])) ids[n++] = m->b[b].id; cmp_list("bidib_get_boosters()", bidib_get_boosters(), ids, n);
	n = 0; for (int b = 0; b < m->nb; b++) if (cm_is_track_output(&m->b[b])) ids[n++] = m->b[b].id; cmp_list("bidib_get_track_outputs()", bidib_get_track_outputs(), ids, n);
	n = 0; for (int t = 0; t < m->nt; t++) ids[n++] = m->t[t].id; cmp_list("bidib_get_trains()", bidib_get_trains(), ids, n);
	for (int t = 0; t < m->nt; t++) { n = 0; for (int k = 0; k < m->t[t].nper; k++) ids[n++] = m->t[t].per[k].id; snprintf(what, sizeof what, "bidib_get_train_peripherals(%s)", m->t[t].id); cmp_list(what, bidib_get_train_peripherals(m->t[t].id), ids, n); }
	for (int b = 0; b < m->nb; b++) { const cm_board_t *B = &m->b[b];
		n = 0; for (int k = 0; k < B->npb; k++) ids[n++] = B->pb[k].id; for (int k = 0; k < B->npd; k++) ids[n++] = B->pd[k].id; snprintf(what, sizeof what, "bidib_get_board_points(%s)", B->id); cmp_list(what, bidib_get_board_points(B->id), ids, n);
		n = 0; for (int k = 0; k < B->nsb; k++) ids[n++] = B->sb[k].id; for (int k = 0; k < B->nsd; k++) ids[n++] = B->sd[k].id; snprintf(what, sizeof what, "bidib_get_board_signals(%s)", B->id); cmp_list(what, bidib_get_board_signals(B->id), ids, n);
		n = 0; for (int k = 0; k < B->nper; k++) ids[n++] = B->per[k].id; snprintf(what, sizeof what, "bidib_get_board_peripherals(%s)", B->id); cmp_list(what, bidib_get_board_peripherals(B->id), ids, n);
		n = 0; for (int k = 0; k < B->nseg; k++) ids[n++] = B->seg[k].id; snprintf(what, sizeof what, "bidib_get_board_segments(%s)", B->id); cmp_list(what, bidib_get_board_segments(B->id), ids, n);
		n = 0; for (int k = 0; k < B->nrev; k++) ids[n++] = B->rev[k].id; snprintf(what, sizeof what, "bidib_get_board_reversers(%s)", B->id); cmp_list(what, bidib_get_board_reversers(B->id), ids, n);
		t_bidib_board_features_query fq = bidib_get_board_features(B->id); int ok = (int) fq.length == B->nfeatures;
		for (int k = 0; ok && k < B->nfeatures; k++) if (fq.features[k].number != B->features[k].number || fq.features[k].value != B->features[k].value) ok = 0;
		if (!ok) res_violation("getter-differs-from-declaration getter=bidib_get_board_features", "board %s: %zu features reported, %d declared", B->id, fq.length, B->nfeatures);
		bidib_free_board_features_query(fq);
		t_bidib_unique_id_query uq = bidib_get_uniqueid(B->id);
		/* bidib_get_uniqueid (not one of the enumeration getters of the property) reserves the class byte 0xFF as its "not known" marker */
		if (B->uid[0] != 0xFF && (!uq.known || uq.unique_id.class_id != B->uid[0] || uq.unique_id.product_id3 != B->uid[5] || uq.unique_id.product_id4 != B->uid[6])) res_violation("getter-differs-from-declaration getter=bidib_get_uniqueid", "board %s", B->id);
		for (int k = 0; k < B->npb + B->npd; k++) { const char *id = k < B->npb ? B->pb[k].id : B->pd[k - B->npb].id; int na = k < B->npb ? B->pb[k].naspects : B->pd[k - B->npb].naspects; n = 0;
			for (int q = 0; q < na; q++) ids[n++] = k < B->npb ? B->pb[k].aspects[q].id : B->pd[k - B->npb].aspects[q].id; snprintf(what, sizeof what, "bidib_get_point_aspects(%s)", id); cmp_list(what, bidib_get_point_aspects(id), ids, n); }
		for (int k = 0; k < B->nsb + B->nsd; k++) { const char *id = k < B->nsb ? B->sb[k].id : B->sd[k - B->nsb].id; int na = k < B->nsb ? B->sb[k].naspects : B->sd[k - B->nsb].naspects; n = 0;
			for (int q = 0; q < na; q++) ids[n++] = k < B->nsb ? B->sb[k].aspects[q].id : B->sd[k - B->nsb].aspects[q].id; snprintf(what, sizeof what, "bidib_get_signal_aspects(%s)", id); cmp_list(what, bidib_get_signal_aspects(id), ids, n); }
		for (int k = 0; k < B->nper; k++) { n = 0; for (int q = 0; q < B->per[k].naspects; q++) ids[n++] = B->per[k].aspects[q].id; snprintf(what, sizeof what, "bidib_get_peripheral_aspects(%s)", B->per[k].id); cmp_list(what, bidib_get_peripheral_aspects(B->per[k].id), ids, n); }
	}
	/* the snapshot lists exactly the declared entities */
	t_bidib_track_state s = bidib_get_state(); size_t e[10] = {0};
	for (int b = 0; b < m->nb; b++) { e[0] += (size_t) m->b[b].npb; e[1] += (size_t) m->b[b].npd; e[2] += (size_t) m->b[b].nsb; e[3] += (size_t) m->b[b].nsd; e[4] += (size_t) m->b[b].nper; e[5] += (size_t) m->b[b].nseg; e[6] += (size_t) m->b[b].nrev;
		e[8] += (size_t) cm_is_booster(&m->b[b]); e[9] += (size_t) cm_is_track_output(&m->b[b]); }
	e[7] = (size_t) m->nt;
	if (s.points_board_count != e[0] || s.points_dcc_count != e[1] || s.signals_board_count != e[2] || s.signals_dcc_count != e[3] || s.peripherals_count != e[4] || s.segments_count != e[5] || s.reversers_count != e[6] || s.trains_count != e[7] || s.booster_count != e[8] || s.track_outputs_count != e[9])
		res_violation("getter-differs-from-declaration getter=bidib_get_state", "entity counts %zu %zu %zu %zu %zu %zu %zu %zu %zu %zu differ from the declaration", s.points_board_count, s.points_dcc_count, s.signals_board_count, s.signals_dcc_count, s.peripherals_count, s.segments_count, s.reversers_count, s.trains_count, s.booster_count, s.track_outputs_count);
	for (size_t i = 0; i < s.segments_count; i++) if (s.segments[i].data.occupied || s.segments[i].data.dcc_address_cnt) res_violation("initial-state-wrong entity=segment", "%s", s.segments[i].id);
	for (size_t i = 0; i < s.trains_count; i++) if (s.trains[i].data.on_track || s.trains[i].data.set_speed_step) res_violation("initial-state-wrong entity=train", "%s", s.trains[i].id);
	bidib_free_track_state(s);
}
static int bus_silent; static int hook(int node, const rc_msg_t *m) { (void) node; (void) m; return bus_silent; }
static void valid_child(const void *job, size_t n) {
	vs_dev_t devs[VS_MAXDEV]; int nd; size_t pl; const uint8_t *p = job_parse(job, n, devs, &nd, &pl);
	uint32_t start, count; memcpy(&start, p, 4); memcpy(&count, p + 4, 4); (void) count;
	gen_valid(start, &M);
	hx_child_begin(NULL, 0, 0, NULL, 0, 200ull * 1000000ull);
	cm_install(&M); SB.on_msg = hook; bus_silent = 0;
	int rc = hx_start_normal(0); hx_quiesce();
	if (rc != 0) res_violation("valid-configuration-rejected: a configuration following the documented layout was not accepted", "start returned %d", rc);
	else check_getters(&M);
	hx_emit_ledger_violations("C14");
	hx_hash_t h; hx_hash_init(&h); hx_hash_str(&h, M.board_txt); hx_hash_str(&h, M.track_txt); hx_hash_str(&h, M.train_txt);
	/* the outcome also covers what the library reports (acceptance, snapshot, start-up traffic): definedness differential */
	hx_hash_add(&h, &rc, sizeof rc);
	if (rc == 0) { static char dump[1 << 16]; sd_dump(dump, sizeof dump); hx_hash_str(&h, dump); }
	for (int i = 0; i < SB.nlog; i++) { hx_hash_add(&h, SB.log[i].addr, 4); hx_hash_add(&h, &SB.log[i].type, 1); hx_hash_add(&h, SB.log[i].data, (size_t) SB.log[i].dlen); }
	res_printf("O %llx %llx\n", (unsigned long long) h.a, (unsigned long long) h.b);
	res_finish();
}
static size_t valid_gen(long idx, uint8_t *payload, char *human, size_t hn) {
	uint32_t s = (uint32_t) idx, c = 1; memcpy(payload, &s, 4); memcpy(payload + 4, &c, 4);
	cm_model_t *m = malloc(sizeof *m); gen_valid(idx, m);
	if (idx >= VALID_BASE) snprintf(human, hn, "generated valid configuration: %d board(s), class byte 0x%02lx in the unique id of the %s board", m->nb, (idx - VALID_BASE) & 255, idx - VALID_BASE >= 256 ? "only" : "second");
	else snprintf(human, hn, "generated valid configuration #%ld: %d boards, %d trains", idx, m->nb, m->nt);
	free(m); return 8;
}
/* ---------------------------------------------------------------- invalid side */
enum { F_DUP_BOARD_ID, F_DUP_BOARD_UID, F_DUP_POINT_ID, F_DUP_SIGNAL_ID, F_DUP_PERIPH_ID, F_DUP_SEG_ID, F_DUP_REV_ID, F_DUP_TRAIN_ID,
       F_DUP_POINT_NUMBER, F_DUP_SIGNAL_NUMBER, F_DUP_PERIPH_PORT, F_DUP_SEG_ADDR, F_DUP_REV_CV, F_DCC_TRAIN_ACC, F_DCC_ACC_ACC, F_DCC_TRAIN_TRAIN,
       F_DUP_ASPECT_ID, F_DUP_ASPECT_VALUE, F_INITIAL_UNDECLARED, F_NO_ASPECTS, F_CAL_8, F_CAL_10, F_CAL_127, F_STEPS, F_BIT_32, F_BIT_DUP, F_TRACK_BOARD_MISSING,
       F_DUP_FEATURE, F_DUP_DCC_POINT_ID, F_LONG_LITERAL, F_N };
static const char *FNAME[F_N] = {"duplicate board id", "duplicate board unique-id", "duplicate point id", "duplicate signal id", "duplicate peripheral id", "duplicate segment id",
	"duplicate reverser id", "duplicate train id", "duplicate point number on a board", "duplicate signal number on a board", "duplicate peripheral port on a board", "duplicate segment address on a board",
	"duplicate reverser CV on a board", "DCC address shared by a train and an accessory", "DCC address shared by two accessories", "DCC address shared by two trains", "duplicate aspect id", "duplicate aspect value",
	"initial value names no declared aspect", "accessory without aspects", "calibration not a list of 9 values (8 values, a scalar, nothing)", "calibration with 10 values", "calibration value 127", "speed steps not 14/28/126", "function bit 32",
	"duplicated function bit", "track-file board missing from the board file", "duplicate feature number on a board", "DCC point id equal to a board point id", "over-long hexadecimal literal (unique id / DCC address / port with surplus digits)"};
#define POS 8
/* returns 1 if the fault could be applied at position pos */
static int apply_fault(cm_model_t *m, int f, int pos) {
	cm_std(m);
	cm_board_t *B0 = &m->b[0], *B1 = &m->b[1], *B2 = &m->b[2];
	switch (f) {
	case F_DUP_BOARD_ID: if (pos > 2) return 0; snprintf(m->b[pos + 1].id, 24, "%s", m->b[pos == 2 ? 1 : 0].id); m->b[pos + 1].in_track = 0; return 1;
	case F_DUP_BOARD_UID: if (pos > 2) return 0; memcpy(m->b[pos + 1].uid, m->b[pos == 2 ? 1 : 0].uid, 7); return 1;
	case F_DUP_POINT_ID: if (pos == 0) { snprintf(B1->pb[1].id, 24, "point1"); return 1; } if (pos == 1) { snprintf(B1->pb[1].id, 24, "pointd"); return 1; }
		if (pos == 2) { B2->npb = 1; B2->pb[0] = B1->pb[0]; B2->pb[0].number = 9; return 1; } return 0;
	case F_DUP_DCC_POINT_ID: if (pos == 0) { snprintf(B0->pd[0].id, 24, "point1"); return 1; } if (pos == 1) { B0->npd = 2; B0->pd[1] = B0->pd[0]; B0->pd[1].addrl = 0x55; return 1; } return 0;
	case F_DUP_SIGNAL_ID: if (pos == 0) { B2->nsb = 2; B2->sb[1] = B2->sb[0]; B2->sb[1].number = 0x11; return 1; } if (pos == 1) { snprintf(B0->sd[0].id, 24, "signal1"); return 1; } return 0;
	case F_DUP_PERIPH_ID: if (pos == 0) { snprintf(B2->per[1].id, 24, "led1"); return 1; } return 0;
	case F_DUP_SEG_ID: if (pos == 0) { snprintf(B0->seg[1].id, 24, "seg1"); return 1; } if (pos == 1) { snprintf(B1->seg[0].id, 24, "seg3"); return 1; } return 0;
	case F_DUP_REV_ID: if (pos == 0) { B0->nrev = 2; B0->rev[1] = B0->rev[0]; snprintf(B0->rev[1].cv, 12, "30052"); return 1; } return 0;
	case F_DUP_TRAIN_ID: if (pos == 0) { snprintf(m->t[1].id, 24, "train1"); return 1; } return 0;
	case F_DUP_POINT_NUMBER: if (pos == 0) { B1->pb[1].number = B1->pb[0].number; return 1; } return 0;
	case F_DUP_SIGNAL_NUMBER: if (pos == 0) { B2->nsb = 2; B2->sb[1] = B2->sb[0]; snprintf(B2->sb[1].id, 24, "signal2"); return 1; } return 0;
	case F_DUP_PERIPH_PORT: if (pos == 0) { B2->per[1].port0 = B2->per[0].port0; B2->per[1].port1 = B2->per[0].port1; return 1; } return 0;
	case F_DUP_SEG_ADDR: if (pos == 0) { B0->seg[1].addr = B0->seg[0].addr; return 1; } if (pos == 1) { B0->seg[2].addr = B0->seg[1].addr; return 1; } return 0;
	case F_DUP_REV_CV: if (pos == 0) { B0->nrev = 2; B0->rev[1] = B0->rev[0]; snprintf(B0->rev[1].id, 24, "rev2"); return 1; } return 0;
	case F_DCC_TRAIN_ACC: if (pos == 0) { m->t[0].addrl = B0->pd[0].addrl; m->t[0].addrh = B0->pd[0].addrh; return 1; } if (pos == 1) { m->t[1].addrl = B0->sd[0].addrl; m->t[1].addrh = B0->sd[0].addrh; return 1; } return 0;
	case F_DCC_ACC_ACC: if (pos == 0) { B0->sd[0].addrl = B0->pd[0].addrl; B0->sd[0].addrh = B0->pd[0].addrh; return 1; }
		if (pos == 1) { B0->npd = 2; B0->pd[1] = B0->pd[0]; snprintf(B0->pd[1].id, 24, "pointd2"); return 1; } return 0;
	case F_DCC_TRAIN_TRAIN: if (pos == 0) { m->t[1].addrl = m->t[0].addrl; m->t[1].addrh = m->t[0].addrh; return 1; } return 0;
	case F_DUP_ASPECT_ID: if (pos == 0) { snprintf(B1->pb[0].aspects[1].id, 24, "normal"); snprintf(B1->pb[0].initial, 24, "normal"); return 1; } if (pos == 1) { snprintf(B0->pd[0].aspects[1].id, 24, "normal"); return 1; }
		if (pos == 2) { snprintf(B2->per[0].aspects[1].id, 24, "off"); snprintf(B2->per[0].initial, 24, "off"); return 1; } if (pos == 3) { snprintf(B2->sb[0].aspects[1].id, 24, "green"); snprintf(B2->sb[0].initial, 24, "green"); return 1; }
		/* same id, port lists of different length (either order), point and signal */
		if (pos == 4) { snprintf(B0->pd[0].aspects[1].id, 24, "normal"); B0->pd[0].aspects[1].nports = 1; return 1; }
		if (pos == 5) { snprintf(B0->pd[0].aspects[1].id, 24, "normal"); B0->pd[0].aspects[0].nports = 1; return 1; }
		if (pos == 6) { snprintf(B0->sd[0].aspects[1].id, 24, "stop"); B0->sd[0].aspects[1].nports = 2; B0->sd[0].aspects[1].ports[1] = (cm_portval_t) {2, 1}; return 1; }
		if (pos == 7) { snprintf(B0->sd[0].aspects[1].id, 24, "stop"); B0->sd[0].aspects[0].nports = 2; B0->sd[0].aspects[0].ports[1] = (cm_portval_t) {2, 1}; return 1; }
		return 0;
	case F_DUP_ASPECT_VALUE: if (pos == 0) { B1->pb[0].aspects[1].value = B1->pb[0].aspects[0].value; return 1; } if (pos == 1) { B2->per[0].aspects[1].value = B2->per[0].aspects[0].value; return 1; }
		if (pos == 2) { B2->sb[0].aspects[1].value = B2->sb[0].aspects[0].value; return 1; } return 0;
	case F_INITIAL_UNDECLARED: if (pos == 0) { snprintf(B1->pb[0].initial, 24, "nosuch"); return 1; } if (pos == 1) { snprintf(B0->pd[0].initial, 24, "nosuch"); return 1; }
		if (pos == 2) { snprintf(B2->sb[0].initial, 24, "nosuch"); return 1; } if (pos == 3) { snprintf(B2->per[0].initial, 24, "nosuch"); return 1; } return 0;
	case F_NO_ASPECTS: if (pos == 0) { B1->pb[1].naspects = 0; return 1; } if (pos == 1) { B0->sd[0].naspects = 0; return 1; } if (pos == 2) { B2->per[1].naspects = 0; return 1; } if (pos == 3) { B0->pd[0].aspects[0].nports = 0; return 1; } return 0;
	case F_CAL_8: if (pos == 0) { m->t[0].ncal = 8; return 1; }
		/* not a list at all: a scalar, nothing, a scalar followed by another key — as the LAST key of the train (peripherals dropped) and before the peripherals */
		if (pos >= 1 && pos <= 3) { m->t[0].cal_form = pos; m->t[0].nper = 0; return 1; } if (pos >= 4 && pos <= 6) { m->t[0].cal_form = pos - 3; return 1; } return 0;
	case F_CAL_10: if (pos == 0) { m->t[0].ncal = 10; m->t[0].cal[9] = 126; return 1; } return 0;
	case F_CAL_127: if (pos < 2) { m->t[0].cal[pos ? 8 : 0] = 127; return 1; } return 0;
	case F_STEPS: if (pos == 0) { m->t[0].steps = 27; return 1; } if (pos == 1) { m->t[1].steps = 128; return 1; } if (pos == 2) { m->t[1].steps = 0; return 1; } return 0;
	case F_BIT_32: if (pos == 0) { m->t[0].per[2].bit = 32; return 1; } if (pos == 1) { m->t[1].per[0].bit = 255; return 1; } return 0;
	case F_BIT_DUP: if (pos == 0) { m->t[0].per[1].bit = m->t[0].per[0].bit; return 1; } return 0;
	case F_TRACK_BOARD_MISSING: if (pos == 0) { snprintf(B1->id, 24, "ghost"); return 2; } return 0;   /* 2: rename in the track file only */
	case F_LONG_LITERAL: return pos < 5 ? 3 : 0;      /* 3: done on the emitted text, see invalid_child */
	case F_DUP_FEATURE: if (pos == 0) { B0->features[1].number = B0->features[0].number; return 1; } return 0;
	}
	return 0;
}
static void invalid_child(const void *job, size_t n) {
	vs_dev_t devs[VS_MAXDEV]; int nd; size_t pl; const uint8_t *p = job_parse(job, n, devs, &nd, &pl);
	int f = p[0], pos = p[1];
	hx_child_begin(NULL, 0, 0, NULL, 0, 200ull * 1000000ull);
	int how = apply_fault(&M, f, pos);
	if (!how) { res_printf("N 1\nO 0 0\n"); res_finish(); }
	if (how == 2) { static cm_model_t G; cm_std(&G); cm_install(&G); cm_emit(&M); env_set_cfg(G.board_txt, M.track_txt, G.train_txt); }
	else if (how == 3) {     /* a literal of the documented length followed by surplus characters: the n-th occurrence of the key gets two more digits */
		static const struct { int file; const char *key; int digits; const char *extra; } LL[5] = { {0, "unique-id: 0x", 14, "00"}, {2, "dcc-address: 0x", 4, "45"}, {1, "dcc-address: 0x", 4, "0f"}, {1, "port: 0x", 4, "0"}, {2, "dcc-address: 0x", 4, "zz"} };
		cm_install(&M); char *txt[3] = {M.board_txt, M.track_txt, M.train_txt}; char *t = txt[LL[pos].file]; char *k = strstr(t, LL[pos].key);
		if (!k) { res_printf("N 1\nO 0 0\n"); res_finish(); }
		k += strlen(LL[pos].key) + (size_t) LL[pos].digits; memmove(k + strlen(LL[pos].extra), k, strlen(k) + 1); memcpy(k, LL[pos].extra, strlen(LL[pos].extra));
		env_set_cfg(M.board_txt, M.track_txt, M.train_txt); }
	else { cm_install(&M); if (f == F_CAL_10) { /* emit the tenth value */ } }
	int rc = hx_start_normal(0); hx_quiesce();
	if (rc == 0) { char cls[200]; snprintf(cls, sizeof cls, "ambiguous-configuration-accepted fault=%s", FNAME[f]); res_violation(cls, "position %d: start returned 0", pos); }
	hx_emit_ledger_violations("C14");
	res_printf("O %x %x\n", f, pos);
	res_finish();
}
static size_t invalid_gen(long idx, uint8_t *payload, char *human, size_t hn) {
	payload[0] = (uint8_t) (idx / POS); payload[1] = (uint8_t) (idx % POS); snprintf(human, hn, "fault '%s' at position %ld", FNAME[idx / POS], idx % POS); return 2;
}
static long applicable;
static void invalid_res(long idx, const run_res_t *r) { (void) idx; if (!res_line(r, 'N', 0)) applicable++; }
void c14_register(void) { harness_register("c14.valid", valid_child); harness_register("c14.invalid", invalid_child); }
int c14_run(const char *tier) {
	(void) tier;
	ex_spec_t v = { .harness = "c14.valid", .ncases = valid_count(), .gen = valid_gen, .label = "c14.valid" };
	ex_map(&v);
	applicable = 0;
	ex_spec_t iv = { .harness = "c14.invalid", .ncases = (long) F_N * POS, .gen = invalid_gen, .on_result = invalid_res, .label = "c14.invalid" };
	ex_map(&iv);
	rep_count("executions", v.done + iv.done); rep_count("states", v.distinct_outcomes + applicable); rep_count("transitions", v.done + applicable);
	rep_flag("exhaustive", v.exhaustive && iv.exhaustive);
	rep_note("generated valid configurations=%ld (distinct texts %ld); fault classes=%d, fault cases applied=%ld", v.done, v.distinct_outcomes, F_N, applicable);
	return 0;
}
